--------------------------- MODULE Gen_Identifiers ---------------------------
(***************************************************************************)
(* C15 function tables over real 64-bit sequences (BigNat) and character   *)
(* sequences:                                                              *)
(*  ClientRT   (client type, sequence): format, then parse / validate      *)
(*  ClientParse  arbitrary identifier strings: type "-" digit string with  *)
(*             19 / 20 / 21 digits, 2^64 - 1, 2^64, 10^20 - 1, leading     *)
(*             zeros, signs, blanks, missing parts                         *)
(*  SeqRT / SeqParse  the same for channel-{N} and connection-{N}          *)
(* Client types: every string up to length 3 (4 in the thorough tier) over *)
(* {letter, digit, hyphen, underscore}, the registered types, types ending *)
(* in -N, length extremes, characters outside the grammar.                 *)
(***************************************************************************)
EXTENDS Nat64, TLC, Json, FiniteSets, SequencesExt

CONSTANTS Seed, Tier, OutFile

I == INSTANCE Identifiers WITH Dec <- NDec, Und <- NUnd, Fits <- NFits, MaxDigits <- 20

Quick == Tier = "quick"
Rep(c, n) == [k \in 1..n |-> c]

Tendermint  == <<"0", "7", "-", "t", "e", "n", "d", "e", "r", "m", "i", "n", "t">>
Solomachine == <<"0", "6", "-", "s", "o", "l", "o", "m", "a", "c", "h", "i", "n", "e">>
Wasm        == <<"0", "8", "-", "w", "a", "s", "m">>
Foo         == <<"f", "o", "o">>
Seqs(S, lo, hi) == UNION { [1..n -> S] : n \in lo..hi }
Synthetic == Seqs({"a", "1", "-", "_"}, 1, IF Quick THEN 3 ELSE 4)
Special == { Tendermint, Solomachine, Wasm, I!Localhost, Foo, Foo \o <<"-", "1">>, Foo \o <<"-", "1", "-", "2">>, Foo \o <<"-">>, <<"-">> \o Foo,
             <<"A", "_", "b", "-", "C", "9">>, <<".", "a", "b">>, <<"a", "/", "b">>, <<"a", " ", "b">>, <<" ">>, <<>>, <<"x">>, <<"x", "y">>,
             Rep("t", 43), Rep("t", 44), Rep("t", 64), Foo \o <<"-">> \o NDec(Max64), Foo \o <<"-">> \o NDec(Two64),
             <<"c", "h", "a", "n", "n", "e", "l">>, <<"a", "+", "b">>, <<"a", "#">> }
Types == Synthetic \cup Special

Ten20 == BN!FromDec(<<"1">> \o Rep("0", 20))
NumsSeq == IF Quick THEN {N(0), N(1), N(10), Sym(63, 0), Max64, Rnd64(Seed, 1)}
           ELSE {N(0), N(1), N(9), N(10), Sym(32, 0), Sym(53, 1), Sym(63, -1), Sym(63, 0), Sym(64, -2), Max64, Rnd64(Seed, 1), Rnd64(Seed, 2), Rnd(Seed, 3, 30)}

\* digit strings (and things that are not digit strings) an identifier may end in
DigitStrs == { <<"0">>, <<"1">>, <<"0", "0", "7">>, NDec(Max64), NDec(Two64), NDec(BN!Succ(Two64)), NDec(BN!Pred(Ten20)), NDec(Ten20),
               NDec(Sym(63, 0)), Rep("0", 19) \o <<"1">>, Rep("0", 20) \o <<"1">>, Rep("0", 20), Rep("0", 21), Rep("9", 19), Rep("9", 21),
               <<"0">> \o NDec(Max64), <<"0">> \o NDec(BN!Pred(Ten20)), NDec(Rnd64(Seed, 4)), NDec(BN!Add(Two64, Rnd(Seed, 5, 60))),
               <<>>, <<"1", "a">>, <<"+", "1">>, <<" ", "1">>, <<"1", " ">>, <<"1", "_", "0">>, <<"0", "x", "1">>, <<"1", ".", "0">>, <<"1", "e", "3">> }
ParseTypes == { Tendermint, Foo, Foo \o <<"-", "1">>, <<"a">>, <<"a", "-">>, <<"-", "a">>, <<"_">>, <<>>, <<" ">>, <<"a", "/", "b">>, <<".", "a">>, Rep("t", 43) }
RawStrs == { <<>>, <<"-">>, <<"-", "-">>, <<"a">>, <<"-", "1">>, <<"1">>, I!Localhost, I!Localhost \o <<"-", "0">>, I!ChannelPrefix \o <<"0">>,
             Tendermint \o <<"-", "1", "-">>, Tendermint \o <<"-", "-", "1">>, Tendermint \o <<"1">> }
ParseStrs == { t \o <<"-">> \o d : t \in ParseTypes, d \in DigitStrs } \cup RawStrs

PrefixTab == [channel |-> I!ChannelPrefix, connection |-> I!ConnectionPrefix]
BadPrefixed == { <<"c", "h", "a", "n", "n", "e", "l", "0">>, <<"c", "h", "a", "n", "n", "-", "1">>, <<"C", "h", "a", "n", "n", "e", "l", "-", "1">>,
                 I!ChannelPrefix \o <<"-", "1">>, I!ConnectionPrefix \o <<"1">>, I!ChannelPrefix \o <<"1">> \o I!ChannelPrefix \o <<"2">>,
                 <<"x">> \o I!ChannelPrefix \o <<"1">>, <<"x">> \o I!ConnectionPrefix \o <<"1">>, I!ChannelPrefix, I!ConnectionPrefix, <<>>,
                 I!ConnectionPrefix \o <<"1">> \o I!ConnectionPrefix \o <<"2">>, <<" ">> \o I!ChannelPrefix \o <<"1">> }

RTCase(t, n) == [fn |-> "ClientRT", in |-> [t |-> t, n |-> n], exp |-> [id |-> I!FormatClient(t, n)]]
ParseCase(s) == LET r == I!ParseClient(s) IN
                [fn |-> "ClientParse", in |-> [s |-> s], exp |-> IF r.ok THEN [ok |-> TRUE, t |-> r.t, n |-> r.n] ELSE [ok |-> FALSE, t |-> <<>>, n |-> <<>>]]
SeqRTCase(k, n) == [fn |-> "SeqRT", in |-> [kind |-> k, n |-> n], exp |-> [id |-> I!FormatSeq(PrefixTab[k], n)]]
SeqParseCase(k, s) == LET r == I!ParseSeq(PrefixTab[k], s) IN
                      [fn |-> "SeqParse", in |-> [kind |-> k, s |-> s], exp |-> IF r.ok THEN [ok |-> TRUE, n |-> r.n] ELSE [ok |-> FALSE, n |-> <<>>]]

KindsK == {"channel", "connection"}
Cases == SetToSeq({ RTCase(t, n) : t \in Types, n \in NumsSeq })
         \o SetToSeq({ ParseCase(s) : s \in ParseStrs })
         \o SetToSeq({ SeqRTCase(k, n) : k \in KindsK, n \in NumsSeq \cup {Rnd64(Seed, 6), Rnd(Seed, 7, 20)} })
         \o SetToSeq({ SeqParseCase(k, PrefixTab[k] \o d) : k \in KindsK, d \in DigitStrs })
         \o SetToSeq({ SeqParseCase(k, s) : k \in KindsK, s \in BadPrefixed })
Numbered(cs) == [i \in DOMAIN cs |-> [id |-> "I" \o ToString(i)] @@ cs[i]]

\* the specification's obligations over this table
Obligations ==
    /\ \A t \in { x \in Types : I!ClientTypeFormat(x) }, n \in NumsSeq : I!ParseClient(I!FormatClient(t, n)) = [ok |-> TRUE, t |-> t, n |-> n]
    /\ \A s \in ParseStrs : LET r == I!ParseClient(s) IN r.ok => I!AcceptedClientParseSound(s, r.t, r.n) /\ Fits64(r.n)
    /\ \A k \in KindsK, n \in NumsSeq : I!ParseSeq(PrefixTab[k], I!FormatSeq(PrefixTab[k], n)) = [ok |-> TRUE, n |-> n]
    /\ ~I!ParseClient(Tendermint \o <<"-">> \o NDec(Two64)).ok /\ I!ParseClient(Tendermint \o <<"-">> \o NDec(Max64)).ok
    /\ ~I!ParseClient(Tendermint \o <<"-">> \o Rep("0", 20) \o <<"1">>).ok /\ I!ParseClient(Tendermint \o <<"-">> \o Rep("0", 19) \o <<"1">>).ok

VARIABLES st, cases
Init == st = "gen" /\ cases = <<>>
Next == \/ /\ st = "gen" /\ cases' = Numbered(Cases) /\ st' = "emit"
        \/ /\ st = "emit"
           /\ Assert(Obligations, "a C15 obligation fails on the generated table")
           /\ ndJsonSerialize(OutFile, cases)
           /\ PrintT(<<"GENERATED", Len(cases), Cardinality(Types), Cardinality(NumsSeq), Cardinality(ParseStrs)>>)
           /\ st' = "done" /\ cases' = <<>>
Spec == Init /\ [][Next]_<<st, cases>>
=============================================================================
