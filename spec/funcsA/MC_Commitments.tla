--------------------------- MODULE MC_Commitments ---------------------------
(***************************************************************************)
(* C07 on the specification itself: PREIMAGE INJECTIVITY.  Terms are       *)
(* flattened to byte strings over abstract bytes: a raw byte is [b |-> c], *)
(* BE64(n) is WLEN binary digits (fixed length), a hash H(x) is HLEN bytes *)
(* [h |-> Flat(x), i |-> k] -- equal exactly when the hashed byte strings  *)
(* are equal (sha256 injective, fixed length).  Raw fields may themselves  *)
(* contain number-looking and hash-looking bytes.  TLC enumerates every    *)
(* pair of packets / payloads / payload lists / acknowledgement lists of   *)
(* the alphabet (state = pair) and checks                                  *)
(*      equal flattened preimages  =>  equal committed fields              *)
(* and that fields outside the commitment (sequence) do not enter it.      *)
(* Negative controls: for each kind a layout without the length-fixing     *)
(* hash / padding must have a collision in the same alphabet.              *)
(***************************************************************************)
EXTENDS Commitments, TLC, FiniteSets, SequencesExt

CONSTANTS KINDS,    \* subset of {"v1", "payload", "v2", "ack"}
          DEEP,     \* larger alphabet
          HLEN, WLEN

VARIABLES KIND, i, j

A == [b |-> "a"]
Bb == [b |-> "b"]

RECURSIVE Bits(_, _)
Bits(n, w) == IF w = 0 THEN <<>> ELSE Bits(n \div 2, w - 1) \o <<[b |-> IF n % 2 = 0 THEN "0" ELSE "1"]>>
\* shortest binary form (no padding) -- used by a negative control only
RECURSIVE MinBits(_)
MinBits(n) == IF n = 0 THEN <<>> ELSE MinBits(n \div 2) \o <<[b |-> IF n % 2 = 0 THEN "0" ELSE "1"]>>

RECURSIVE Flat(_)
RECURSIVE FlatAll(_)
Flat(t) == CASE t.k = "H"     -> LET pre == Flat(t.x) IN [n \in 1..HLEN |-> [h |-> pre, i |-> n]]
             [] t.k = "BE64"  -> Bits(t.n, WLEN)
             [] t.k = "Bytes" -> t.s
             [] t.k = "Byte"  -> <<[b |-> "02"]>>
             [] t.k = "Cat"   -> FlatAll(t.xs)
FlatAll(xs) == IF xs = <<>> THEN <<>> ELSE Flat(Head(xs)) \o FlatAll(Tail(xs))

Pre(c) == Flat(Preimage(c))

\* ---- alphabets -------------------------------------------------------------------------
Str  == {<<>>, <<A>>, <<A, A>>}
Str2 == {<<>>, <<A>>}
Nums == IF DEEP THEN 0..2 ELSE 0..1
\* data may look like an encoded number or like a hash
Data == Str \cup {<<Bb>>, Bits(1, WLEN), Flat(TH(TBytes(<<A>>))), <<[b |-> "02"]>>}

V1s == [ts : Nums, rn : Nums, rh : Nums, data : Data, seq : {1, 2}]
Pls == IF DEEP THEN [sp : Str, dp : Str, ver : Str, enc : Str, val : Str]
       ELSE [sp : Str, dp : Str, ver : Str, enc : Str2, val : Str2]
\* three payloads: a base, the base with the boundary between two fields moved, the base with another value
P1 == [sp |-> <<A>>, dp |-> <<A, A>>, ver |-> <<>>, enc |-> <<>>, val |-> <<>>]
P2 == [sp |-> <<A, A>>, dp |-> <<A>>, ver |-> <<>>, enc |-> <<>>, val |-> <<>>]
P3 == [sp |-> <<A>>, dp |-> <<A, A>>, ver |-> <<>>, enc |-> <<>>, val |-> <<A>>]
MaxPls == IF DEEP THEN 3 ELSE 2
Lists(S, lo, hi) == UNION { [1..n -> S] : n \in lo..hi }
V2s == [dest : {<<A>>, <<A, A>>}, ts : 0..1, pls : Lists({P1, P2, P3}, 1, MaxPls), seq : {1, 2}]
Acks == Lists(Str, 0, 3)

DomOf(k) == CASE k = "v1" -> V1s [] k = "payload" -> Pls [] k = "v2" -> V2s [] k = "ack" -> Acks
DAll == [k \in KINDS |-> SetToSeq(DomOf(k))]
D == DAll[KIND]

Commit(x) == CASE KIND = "v1" -> CommitV1(x) [] KIND = "payload" -> HashPayload(x) [] KIND = "v2" -> CommitV2(x) [] KIND = "ack" -> CommitAckV2(x)
FieldsK(k, x) == CASE k = "v1" -> FieldsV1(x) [] k = "payload" -> FieldsPl(x) [] k = "v2" -> FieldsV2(x) [] k = "ack" -> x
Fields(x) == FieldsK(KIND, x)

\* ---- negative controls: the same fields without the length-fixing hash / padding ----------
BadPre(k, x) ==
    CASE k = "v1"      -> MinBits(x.ts) \o MinBits(x.rn) \o MinBits(x.rh) \o Flat(TH(TBytes(x.data)))
      [] k = "payload" -> x.sp \o x.dp \o x.ver \o x.enc \o x.val
      [] k = "v2"      -> Flat(TCat(<<TByte(2), TH(TBytes(x.dest)), TH(TBE(x.ts)),
                                       TH(TCat([n \in DOMAIN x.pls |-> TCat(<<TBytes(x.pls[n].sp), TBytes(x.pls[n].dp), TBytes(x.pls[n].ver),
                                                                              TBytes(x.pls[n].enc), TBytes(x.pls[n].val)>>)]))>>))
      [] k = "ack"     -> Flat(TCat(<<TByte(2)>> \o [n \in DOMAIN x |-> TBytes(x[n])]))
NegativeControl(k) == \E x \in DomOf(k), y \in DomOf(k) : FieldsK(k, x) # FieldsK(k, y) /\ BadPre(k, x) = BadPre(k, y)
\* (a false ASSUME stops TLC: the injectivity check would prove nothing about layouts)
ASSUME \A k \in KINDS : NegativeControl(k) /\ PrintT(<<"WITNESS", "negative-control-collides:" \o k>>)

\* ---- vacuity witnesses --------------------------------------------------------------------
Kinds == <<"same-fields", "one-field-differs", "boundary-moved", "uncommitted-field-differs", "order-differs">>
AllKinds == <<"v1", "payload", "v2", "ack">>
Idx(name) == 10 * (CHOOSE n \in DOMAIN AllKinds : AllKinds[n] = KIND) + (CHOOSE n \in DOMAIN Kinds : Kinds[n] = name)
Witness(name) == IF TLCGet(Idx(name)) = 0 THEN TLCSet(Idx(name), 1) /\ PrintT(<<"WITNESS", name \o ":" \o KIND>>) ELSE TRUE
DiffFields(f, g) == IF DOMAIN f = DOMAIN g THEN Cardinality({ n \in DOMAIN f : f[n] # g[n] }) ELSE 99
Raw(x) == CASE KIND = "v1" -> x.data [] KIND = "payload" -> x.sp \o x.dp \o x.ver \o x.enc \o x.val
            [] KIND = "v2" -> x.dest [] KIND = "ack" -> FlatAll([n \in DOMAIN x |-> TBytes(x[n])])
IsPerm(x, y) == Len(x) = Len(y) /\ x # y /\ \A n \in DOMAIN x : Cardinality({m \in DOMAIN x : x[m] = x[n]}) = Cardinality({m \in DOMAIN y : y[m] = x[n]})
Observe(x, y) ==
    /\ (Fields(x) = Fields(y) => Witness("same-fields"))
    /\ (DiffFields(Fields(x), Fields(y)) = 1 => Witness("one-field-differs"))
    /\ (KIND \in {"payload", "ack"} /\ Fields(x) # Fields(y) /\ Raw(x) = Raw(y) => Witness("boundary-moved"))
    /\ (KIND \in {"v1", "v2"} /\ x # y /\ Fields(x) = Fields(y) => Witness("uncommitted-field-differs"))
    /\ (KIND = "v2" /\ x.dest = y.dest /\ x.ts = y.ts /\ IsPerm(x.pls, y.pls) => Witness("order-differs"))
    /\ (KIND = "ack" /\ IsPerm(x, y) => Witness("order-differs"))

Init == /\ KIND \in KINDS /\ i \in DOMAIN D /\ j = 1
        /\ \A n \in 1..50 : TLCSet(n, 0)
Next == j < Len(D) /\ j' = j + 1 /\ i' = i /\ KIND' = KIND /\ Observe(D[i], D[j'])
Spec == Init /\ [][Next]_<<KIND, i, j>>

\* equal preimages only for equal committed fields; and the commitment is a function of the committed fields only
Injective == LET x == D[i]  y == D[j] IN
             /\ (Pre(Commit(x)) = Pre(Commit(y)) => Fields(x) = Fields(y))
             /\ (Fields(x) = Fields(y) => Commit(x) = Commit(y))
\* fixed lengths: number 8 (WLEN), hash 32 (HLEN); the v1 preimage has constant length
FixedLength == LET x == D[i] IN
               /\ Len(Flat(Commit(x))) = HLEN
               /\ (KIND = "v1" => Len(Pre(Commit(x))) = 3 * WLEN + HLEN)
               /\ (KIND = "payload" => Len(Pre(Commit(x))) = 5 * HLEN)
               /\ (KIND = "v2" => Len(Pre(Commit(x))) = 1 + 3 * HLEN)
               /\ (KIND = "ack" => Len(Pre(Commit(x))) = 1 + Len(x) * HLEN)
=============================================================================
