----------------------------- MODULE Trace_Ident -----------------------------
(***************************************************************************)
(* C15 (function tables): validation of what the real Format* / Parse* /   *)
(* IsValid* / ValidateClientType / 24-host validators returned on the      *)
(* TLC-generated cases, against Identifiers.tla with 64-bit BigNat         *)
(* sequences.  "CONF" = full equality with the reference grammar of the    *)
(* specification (diagnostic, decides nothing).                            *)
(***************************************************************************)
EXTENDS Nat64, TLC, Json

CONSTANT TraceFile

I == INSTANCE Identifiers WITH Dec <- NDec, Und <- NUnd, Fits <- NFits, MaxDigits <- 20

Trace == ndJsonDeserialize(TraceFile)

VARIABLE l

Flag(prop, clause, bad) == IF bad THEN {<<prop, clause>>} ELSE {}
Prefix(k) == IF k = "channel" THEN I!ChannelPrefix ELSE I!ConnectionPrefix
ValidSeqId(k, s) == IF k = "channel" THEN I!ValidChannelId(s) ELSE I!ValidConnectionId(s)

\* a client type the grammar admits with both the smallest and the largest sequence
SpecRegistrable(t) == /\ I!ClientTypeFormat(t)
                      /\ I!ValidClientId(I!FormatClient(t, <<>>)) /\ I!ValidClientId(I!FormatClient(t, Max64))

ViolClientRT(ln) ==
    LET t == ln.in.t  n == ln.in.n  o == ln.out IN
    IF ln.res # "ok" THEN {<<"C15", "format-and-parse-are-total">>}
    ELSE   Flag("C15", "format-then-parse-returns-type-and-sequence", o.reg /\ ~(o.pok /\ o.pt = t /\ o.pn = n))
      \cup Flag("C15", "accepted-parse-is-sound-and-fits-64-bits", o.pok /\ ~(I!AcceptedClientParseSound(o.id, o.pt, o.pn) /\ Fits64(o.pn)))
      \cup Flag("C15", "generated-identifier-passes-validation", o.reg /\ ~(o.hostok /\ o.isvalid))
      \cup Flag("C15", "is-valid-agrees-with-parse", o.isvalid # o.pok)
      \cup Flag("CONF", "format", o.id # I!FormatClient(t, n))
      \cup Flag("CONF", "registrable", o.reg # SpecRegistrable(t))
      \cup Flag("CONF", "host-validator", o.hostok # I!ValidClientId(o.id))
      \cup Flag("X", "expected-value-altered", ln.exp.id # I!FormatClient(t, n))

ViolClientParse(ln) ==
    LET s == ln.in.s  o == ln.out  r == I!ParseClient(s) IN
    IF ln.res # "ok" THEN {<<"C15", "format-and-parse-are-total">>}
    ELSE   Flag("C15", "accepted-parse-is-sound-and-fits-64-bits", o.pok /\ ~(I!AcceptedClientParseSound(s, o.pt, o.pn) /\ Fits64(o.pn)))
      \cup Flag("C15", "is-valid-agrees-with-parse", o.isvalid # o.pok)
      \cup Flag("CONF", "parse", ~(o.pok = r.ok /\ (r.ok => o.pt = r.t /\ o.pn = r.n)))
      \cup Flag("X", "expected-value-altered", ln.exp.ok # r.ok)

ViolSeqRT(ln) ==
    LET k == ln.in.kind  n == ln.in.n  o == ln.out IN
    IF ln.res # "ok" THEN {<<"C15", "format-and-parse-are-total">>}
    ELSE   Flag("C15", "format-then-parse-returns-type-and-sequence", ~(o.pok /\ o.pn = n))
      \cup Flag("C15", "accepted-parse-is-sound-and-fits-64-bits", o.pok /\ ~I!AcceptedSeqParseSound(Prefix(k), o.id, o.pn))
      \cup Flag("C15", "generated-identifier-passes-validation", ~(o.hostok /\ o.isvalid))
      \cup Flag("CONF", "format", o.id # I!FormatSeq(Prefix(k), n))
      \cup Flag("CONF", "host-validator", o.hostok # ValidSeqId(k, o.id))
      \cup Flag("X", "expected-value-altered", ln.exp.id # I!FormatSeq(Prefix(k), n))

ViolSeqParse(ln) ==
    LET k == ln.in.kind  s == ln.in.s  o == ln.out  r == I!ParseSeq(Prefix(k), s) IN
    IF ln.res # "ok" THEN {<<"C15", "format-and-parse-are-total">>}
    ELSE   Flag("C15", "accepted-parse-is-sound-and-fits-64-bits", o.pok /\ ~(I!AcceptedSeqParseSound(Prefix(k), s, o.pn) /\ Fits64(o.pn)))
      \cup Flag("C15", "is-valid-agrees-with-parse", o.isvalid # o.pok)
      \cup Flag("CONF", "parse", ~(o.pok = r.ok /\ (r.ok => o.pn = r.n)))
      \cup Flag("X", "expected-value-altered", ln.exp.ok # r.ok)

Viol(ln) == CASE ln.fn = "ClientRT" -> ViolClientRT(ln)
              [] ln.fn = "ClientParse" -> ViolClientParse(ln)
              [] ln.fn = "SeqRT" -> ViolSeqRT(ln)
              [] ln.fn = "SeqParse" -> ViolSeqParse(ln)
              [] OTHER -> {<<"X", "unknown-function">>}

Report(ln, viol) == \A v \in viol : PrintT(<<"MONFAIL", ln.tr, ln.i, v>>)

TraceInit == l = 0
TraceNext == /\ l < Len(Trace)
             /\ Report(Trace[l + 1], Viol(Trace[l + 1]))
             /\ l' = l + 1
             /\ (l + 1 = Len(Trace) => PrintT(<<"CONSUMED", l + 1>>))
TraceSpec == TraceInit /\ [][TraceNext]_l
=============================================================================
