------------------------------ MODULE IdentHist ------------------------------
(***************************************************************************)
(* C15, history part: one chain issuing client, connection and channel     *)
(* identifiers.  State: the three counters and everything issued so far.   *)
(* Every attempt is a transaction; a failed attempt is rolled back as a    *)
(* whole, so it issues nothing and leaves the counters alone.              *)
(*   CreateClient  kind "tm" | "solo" (succeed, two client types sharing   *)
(*                 the client counter), "expired" (fails AFTER the         *)
(*                 identifier was generated), "badmsg" (fails validation)  *)
(*   ConnInit      "ok" | "noclient" | "badversion"                        *)
(*   ChanInit      "ok" | "noconn" | "appreject" (fails after generation)  *)
(*                 | "badport"                                             *)
(* An identifier is the triple (kind, client type, sequence); its text     *)
(* form is the subject of Identifiers.tla.                                 *)
(***************************************************************************)
EXTENDS Integers, Sequences, FiniteSets

Succeeds(a) == \/ a.a = "CreateClient" /\ a.kind \in {"tm", "solo"}
               \/ a.a \in {"ConnInit", "ChanInit"} /\ a.kind = "ok"

TypeOf(a) == IF a.a = "CreateClient" THEN (IF a.kind = "solo" THEN "06-solomachine" ELSE "07-tendermint")
             ELSE IF a.a = "ConnInit" THEN "connection" ELSE "channel"

Counter(S, a) == IF a.a = "CreateClient" THEN S.nc ELSE IF a.a = "ConnInit" THEN S.nconn ELSE S.nchan

Issue(S, a) == [k |-> a.a, t |-> TypeOf(a), n |-> Counter(S, a)]

Step(S, a) ==
    IF Succeeds(a)
    THEN [res |-> "ok", id |-> Issue(S, a),
          S |-> [nc |-> S.nc + (IF a.a = "CreateClient" THEN 1 ELSE 0),
                 nconn |-> S.nconn + (IF a.a = "ConnInit" THEN 1 ELSE 0),
                 nchan |-> S.nchan + (IF a.a = "ChanInit" THEN 1 ELSE 0),
                 issued |-> Append(S.issued, Issue(S, a))]]
    ELSE [res |-> "err", S |-> S]

Acts == { [a |-> "CreateClient", kind |-> k] : k \in {"tm", "solo", "expired", "badmsg"} }
        \cup { [a |-> "ConnInit", kind |-> k] : k \in {"ok", "noclient", "badversion"} }
        \cup { [a |-> "ChanInit", kind |-> k] : k \in {"ok", "noconn", "appreject", "badport"} }

\* identifiers issued over the whole history are pairwise distinct
NoReuse(S) == \A i \in DOMAIN S.issued, j \in DOMAIN S.issued : i # j => S.issued[i] # S.issued[j]
\* ... even as text of the form type-N, where clients of different types share one counter
NoReuseAsText(S) == \A i \in DOMAIN S.issued, j \in DOMAIN S.issued :
                       i # j /\ S.issued[i].k = S.issued[j].k => S.issued[i].n # S.issued[j].n
=============================================================================
