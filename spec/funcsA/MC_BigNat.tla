------------------------------ MODULE MC_BigNat ------------------------------
(* Refinement lemma: the limb operators of BigNat agree with TLC's native     *)
(* arithmetic on every operand pair of the grid SCALE*(0..N) x SCALE*(0..N).  *)
(* Run with small bases (4, 10: numbers below N have many limbs and every     *)
(* carry and borrow path is taken) and with the production base 32768.        *)
EXTENDS BigNat, TLC
CONSTANTS N, SCALE
VARIABLES va, vb

Init == va \in 0..N /\ vb = 0
Next == vb < N /\ vb' = vb + 1 /\ va' = va
Spec == Init /\ [][Next]_<<va, vb>>

Sgn(p, q) == IF p < q THEN -1 ELSE IF p > q THEN 1 ELSE 0

Laws ==
    LET na == va * SCALE  nb == vb * SCALE  sm == vb % 50
        bx == FromInt(na) by == FromInt(nb) IN
    /\ IsNat(bx) /\ ToInt(bx) = na
    /\ Add(bx, by) = FromInt(na + nb)
    /\ Succ(bx) = FromInt(na + 1)
    /\ Cmp(bx, by) = Sgn(na, nb)
    /\ (na >= nb => Sub(bx, by) = FromInt(na - nb))
    /\ Mul(bx, by) = FromInt(na * nb)
    /\ (sm > 0 => LET d == DivSmall(bx, sm) IN d.q = FromInt(na \div sm) /\ d.r = (na % sm))
    /\ MulSmallC(bx, sm, (va % 7)) = FromInt((na * sm) + (va % 7))
    /\ FromDec(ToDec(bx)) = bx
    /\ FromDec(<<"0", "0">> \o ToDec(bx)) = bx
    /\ (na < 10 => ToDec(bx) = <<Digits[na + 1]>>)
    /\ (na >= 10 /\ na < 100 => ToDec(bx) = <<Digits[(na \div 10) + 1], Digits[(na % 10) + 1]>>)
    /\ (vb <= 30 /\ B \in {4, 32768} => Pow2(vb) = FromInt(2 ^ vb))
=============================================================================
