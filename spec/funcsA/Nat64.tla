-------------------------------- MODULE Nat64 --------------------------------
(***************************************************************************)
(* 64-bit operands for the function-table specifications: BigNat limb      *)
(* sequences (base 32768), the boundary table, and a small deterministic   *)
(* generator (seeded by the constant of the run) for further operands.     *)
(***************************************************************************)
EXTENDS Integers, Sequences

BN == INSTANCE BigNat WITH B <- 32768

P2(k)  == BN!Pow2(k)
Two64  == P2(64)
Max64  == BN!Pred(Two64)
Fits64(x) == BN!Lt(x, Two64)
N(i)   == BN!FromInt(i)
\* 2^k + off (off may be negative)
Sym(k, off) == IF off >= 0 THEN BN!Add(P2(k), N(off)) ELSE BN!Sub(P2(k), N(0 - off))

NLt(x, y) == BN!Lt(x, y)
NDec(x)   == BN!ToDec(x)
NUnd(ds)  == BN!FromDec(ds)
NFits(ds) == Fits64(BN!FromDec(ds))

\* x_{n+1} = 75 x_n + 74 mod 65537 (all intermediate values below 2^31)
RECURSIVE LcgAt(_, _)
LcgAt(seed, n) == IF n = 0 THEN (seed * 7919 + 13) % 65537 ELSE (LcgAt(seed, n - 1) * 75 + 74) % 65537
\* i-th pseudo-random number below 2^bits (bits <= 75)
Rnd(seed, i, bits) ==
    LET limb(j) == LET v == LcgAt(seed, 5 * i + j) % 32768
                       w == bits - 15 * (j - 1)
                   IN IF w <= 0 THEN 0 ELSE IF w >= 15 THEN v ELSE v % (2 ^ w)
    IN BN!Strip(<<limb(1), limb(2), limb(3), limb(4), limb(5)>>)
Rnd64(seed, i) == Rnd(seed, i, 64)
=============================================================================
