--------------------------- MODULE Gen_Commitments ---------------------------
(***************************************************************************)
(* C07 function table: concrete packets and acknowledgements with their    *)
(* commitment TERMS (Commitments.tla).  Numbers are 64-bit BigNat limbs,   *)
(* byte strings are TLC strings; a string starting with "@" names bytes    *)
(* the harness expands for BOTH the real function and its own term         *)
(* evaluator: "@empty" (no bytes), "@zero8" / "@one8" (look like BE64(0) / *)
(* BE64(1)), "@hash_a" (the 32 bytes of sha256("a")), "@two" (0x02),       *)
(* "@ff40" (40 bytes 0xff), "@long" (70 000 bytes).                        *)
(* Enumerated: every field on its own over its whole alphabet, full        *)
(* products over the small alphabets, fields that differ only in where a   *)
(* boundary falls, 1..N payloads and all permutations of a payload list,   *)
(* fields that are not committed (sequence, source identifiers).           *)
(***************************************************************************)
EXTENDS Nat64, Commitments, TLC, Json, FiniteSets, SequencesExt

CONSTANTS Seed, Tier, OutFile

Quick == Tier = "quick"

NumsAll == {N(0), N(1), N(255), N(256), Sym(32, 0), Sym(56, 0), Sym(63, 0), Sym(64, -2), Max64, Rnd64(Seed, 1), Rnd64(Seed, 2)}
NumsSmall == {N(0), N(1), Max64}
DataAll == {"@empty", "a", "b", "ab", "mock packet data", "@zero8", "@one8", "@hash_a", "@two", "@ff40", "@long"}
DataSmall == {"@empty", "a", "@one8"}
StrAll == {"@empty", "a", "b", "ab", "transfer", "transfer/channel-0", "@hash_a", "@long", "@two"}

\* ---- v1 ---------------------------------------------------------------------------------
V1Base == [ts |-> N(1), rn |-> N(1), rh |-> N(1), data |-> "a", seq |-> N(1), sp |-> "transfer", sc |-> "channel-0", dp |-> "transfer", dc |-> "channel-1"]
V1Set == { [V1Base EXCEPT !.ts = n] : n \in NumsAll } \cup { [V1Base EXCEPT !.rn = n] : n \in NumsAll }
         \cup { [V1Base EXCEPT !.rh = n] : n \in NumsAll } \cup { [V1Base EXCEPT !.data = s] : s \in DataAll }
         \cup { [V1Base EXCEPT !.ts = a, !.rn = b, !.rh = c, !.data = s] : a \in NumsSmall, b \in NumsSmall, c \in NumsSmall, s \in DataSmall }
         \* the three numbers permuted (the order of the fixed-length fields matters)
         \cup { [V1Base EXCEPT !.ts = a, !.rn = b, !.rh = c] : a \in {N(1), N(256)}, b \in {N(1), N(256)}, c \in {N(1), N(256)} }
         \* fields that are not committed
         \cup { [V1Base EXCEPT !.seq = n] : n \in {N(2), Max64} } \cup { [V1Base EXCEPT !.sp = "icahost", !.sc = "channel-7"], [V1Base EXCEPT !.dp = "p", !.dc = "channel-18446744073709551615"] }
         \cup (IF Quick THEN {} ELSE { [V1Base EXCEPT !.ts = a, !.rn = b, !.rh = c, !.data = s] : a \in NumsAll, b \in {N(0), N(256), Max64}, c \in NumsAll, s \in {"a", "@zero8", "@long"} })
V1Case(p) == [fn |-> "CommitV1", in |-> p, exp |-> [term |-> CommitV1(p)]]

\* ---- v2 ---------------------------------------------------------------------------------
PlBase == [sp |-> "transfer", dp |-> "transfer", ver |-> "ics20-1", enc |-> "application/json", val |-> "mock"]
PlFields == {"sp", "dp", "ver", "enc", "val"}
PlOne == { [PlBase EXCEPT ![f] = s] : f \in PlFields, s \in StrAll }
\* the boundary between two adjacent fields moved: (x.y, z) versus (x, y.z)
PlShift == { [PlBase EXCEPT !.sp = "ab", !.dp = "c"], [PlBase EXCEPT !.sp = "a", !.dp = "bc"],
             [PlBase EXCEPT !.dp = "ab", !.ver = "c"], [PlBase EXCEPT !.dp = "a", !.ver = "bc"],
             [PlBase EXCEPT !.ver = "ab", !.enc = "c"], [PlBase EXCEPT !.ver = "a", !.enc = "bc"],
             [PlBase EXCEPT !.enc = "ab", !.val = "c"], [PlBase EXCEPT !.enc = "a", !.val = "bc"],
             [PlBase EXCEPT !.sp = "@empty", !.dp = "transfertransfer"], [PlBase EXCEPT !.sp = "transfertransfer", !.dp = "@empty"],
             \* two fields swapped
             [PlBase EXCEPT !.sp = "x", !.dp = "y"], [PlBase EXCEPT !.sp = "y", !.dp = "x"],
             [PlBase EXCEPT !.ver = "x", !.enc = "y"], [PlBase EXCEPT !.ver = "y", !.enc = "x"] }
PlSmall == [sp : {"@empty", "a"}, dp : {"@empty", "a"}, ver : {"@empty", "a"}, enc : {"@empty", "a"}, val : {"@empty", "a", "aa"}]
PA == [PlBase EXCEPT !.val = "A"]
PB == [PlBase EXCEPT !.val = "B"]
PC == [PlBase EXCEPT !.sp = "gmp"]
V2Base == [dest |-> "07-tendermint-0", ts |-> N(1700000000), pls |-> <<PlBase>>, seq |-> N(1), src |-> "07-tendermint-3"]
Rep(x, n) == [k \in 1..n |-> x]
PlLists == { <<PA>>, <<PB>>, <<PA, PB>>, <<PB, PA>>, <<PA, PA>>, <<PA, PB, PC>>, <<PA, PC, PB>>, <<PB, PA, PC>>, <<PB, PC, PA>>, <<PC, PA, PB>>, <<PC, PB, PA>>,
             <<PA, PA, PB>>, <<PA, PB, PA>>, Rep(PA, IF Quick THEN 9 ELSE 40),
             \* one payload whose value is the concatenation of two payload hashes is not two payloads
             <<[PlBase EXCEPT !.val = "@hash_a"]>>, <<>> }
V2Set == { [V2Base EXCEPT !.pls = <<pl>>] : pl \in PlOne \cup PlShift \cup (IF Quick THEN {} ELSE PlSmall) }
         \cup { [V2Base EXCEPT !.pls = l] : l \in PlLists }
         \cup { [V2Base EXCEPT !.dest = s] : s \in StrAll } \cup { [V2Base EXCEPT !.ts = n] : n \in NumsAll }
         \cup { [V2Base EXCEPT !.dest = s, !.ts = n, !.pls = l] : s \in {"@empty", "a"}, n \in NumsSmall, l \in {<<PA>>, <<PA, PB>>, <<PB, PA>>} }
         \cup { [V2Base EXCEPT !.seq = Max64], [V2Base EXCEPT !.src = "other-9"] }
V2Case(p) == [fn |-> "CommitV2", in |-> p, exp |-> [term |-> CommitV2(p)]]

\* ---- acknowledgements ----------------------------------------------------------------------
AckStr == DataAll \cup {"{\"result\":\"AQ==\"}", "{\"error\":\"x\"}"}
AckV1Case(a) == [fn |-> "AckV1", in |-> [ack |-> a], exp |-> [term |-> CommitAckV1(a)]]
AckLists == { <<>>, <<"a">>, <<"@empty">>, <<"@empty", "@empty">>, <<"a", "b">>, <<"b", "a">>, <<"ab">>, <<"a", "b", "c">>, <<"c", "b", "a">>, <<"b", "a", "c">>,
              <<"ab", "c">>, <<"a", "bc">>, <<"@hash_a">>, <<"@two", "a">>, <<"@long", "a">>, Rep("a", IF Quick THEN 9 ELSE 40) }
            \cup { <<x, y>> : x \in {"@empty", "a", "@hash_a"}, y \in {"@empty", "a", "@hash_a"} }
AckV2Case(l) == [fn |-> "AckV2", in |-> [acks |-> l], exp |-> [term |-> CommitAckV2(l)]]

Cases == SetToSeq({ V1Case(p) : p \in V1Set }) \o SetToSeq({ V2Case(p) : p \in V2Set })
         \o SetToSeq({ AckV1Case(a) : a \in AckStr }) \o SetToSeq({ AckV2Case(l) : l \in AckLists })
Numbered(cs) == [i \in DOMAIN cs |-> [id |-> "K" \o ToString(i)] @@ cs[i]]

\* within the table: different committed fields <=> different terms (the term is an injective record of the fields)
Obligations ==
    /\ \A p \in V1Set, q \in V1Set : (CommitV1(p) = CommitV1(q)) <=> (FieldsV1(p) = FieldsV1(q))
    /\ \A p \in V2Set, q \in V2Set : (CommitV2(p) = CommitV2(q)) <=> (FieldsV2(p) = FieldsV2(q))
    /\ \A l \in AckLists, m \in AckLists : (CommitAckV2(l) = CommitAckV2(m)) <=> (l = m)

VARIABLES st, cases
Init == st = "gen" /\ cases = <<>>
Next == \/ /\ st = "gen" /\ cases' = Numbered(Cases) /\ st' = "emit"
        \/ /\ st = "emit"
           /\ Assert(Obligations, "a C07 obligation fails on the generated table")
           /\ ndJsonSerialize(OutFile, cases)
           /\ PrintT(<<"GENERATED", Len(cases), Cardinality(V1Set), Cardinality(V2Set), Cardinality(AckStr), Cardinality(AckLists)>>)
           /\ st' = "done" /\ cases' = <<>>
Spec == Init /\ [][Next]_<<st, cases>>
=============================================================================
