-------------------------------- MODULE Delay --------------------------------
(***************************************************************************)
(* C19.  Packet delay periods over an abstract number domain (native       *)
(* naturals in MC_Delay, BigNat 64-bit operands in Gen_Delay/Trace_Delay). *)
(* The block delay is specified relationally -- e is the block delay of    *)
(* (td, p) iff e = 0 when p = 0 and otherwise e*p >= td > (e-1)*p -- so    *)
(* that exactness can be judged for any 64-bit operands with              *)
(* multiplication and comparison only.  MC_Delay proves (exhaustively on   *)
(* a scaled word) that this relation defines exactly                      *)
(*      BlockDelay(td, p) = IF p = 0 THEN 0 ELSE (td + p - 1) \div p       *)
(* i.e. ceil(td / p) over the unbounded naturals.                          *)
(***************************************************************************)
EXTENDS Integers

CONSTANTS Z, Add(_, _), Sub(_, _), Mul(_, _), Lt(_, _)

NumLeq(x, y) == ~Lt(y, x)

\* e is exactly ceil(td / p) (p # 0), resp. 0 (p = 0)
IsBlockDelay(e, td, p) == IF p = Z THEN e = Z
                          ELSE NumLeq(td, Mul(e, p)) /\ Lt(Mul(e, p), Add(td, p))

\* both boundaries are inclusive: at exactly processed + delay the delay has passed
TimeDelayPassed(now, procT, td)     == td = Z \/ NumLeq(Add(procT, td), now)
BlockDelayPassed(nowH, procH, bd)   == bd = Z \/ NumLeq(Add(procH, bd), nowH)
DelayPassed(now, nowH, procT, procH, td, bd) == TimeDelayPassed(now, procT, td) /\ BlockDelayPassed(nowH, procH, bd)

\* the block part stated on (td, p) without computing the quotient:  k >= ceil(td/p)  <=>  k*p >= td
BlockDelayPassedTP(nowH, procH, td, p) ==
    p = Z \/ td = Z \/ (NumLeq(procH, nowH) /\ NumLeq(td, Mul(Sub(nowH, procH), p)))
ConnDelayPassed(now, nowH, procT, procH, td, p) == TimeDelayPassed(now, procT, td) /\ BlockDelayPassedTP(nowH, procH, td, p)
=============================================================================
