------------------------------- MODULE Heights -------------------------------
(***************************************************************************)
(* C17.  IBC heights (revision number, revision height), their total       *)
(* order, their text form and timeout elapse -- written over an abstract   *)
(* totally ordered number domain so that the same definitions are          *)
(* evaluated by TLC on native naturals (exhaustive, scaled word) and on    *)
(* BigNat limb sequences (real 64-bit operands).                           *)
(*   Lt  strict total order of the number domain,  Z its least element     *)
(*   Dec number -> canonical decimal digit sequence                        *)
(*   Und digit sequence (leading zeros allowed) -> number                  *)
(*   Fits(ds) the digit sequence denotes a number of the (64-bit) word     *)
(***************************************************************************)
EXTENDS Integers, Sequences

CONSTANTS Lt(_, _), Z, Dec(_), Und(_), Fits(_)

NumLeq(x, y) == ~Lt(y, x)

Height(rn, rh) == [rn |-> rn, rh |-> rh]
ZeroHeight == Height(Z, Z)
IsZeroH(h) == h.rn = Z /\ h.rh = Z

\* by revision number first and then revision height
HCmp(a, b) == IF a.rn # b.rn THEN (IF Lt(a.rn, b.rn) THEN -1 ELSE 1)
             ELSE IF Lt(a.rh, b.rh) THEN -1 ELSE IF a.rh = b.rh THEN 0 ELSE 1
HLT(a, b)  == HCmp(a, b) = -1
HLTE(a, b) == HCmp(a, b) <= 0
HGT(a, b)  == HCmp(a, b) = 1
HGTE(a, b) == HCmp(a, b) >= 0
HEQ(a, b)  == HCmp(a, b) = 0

\* ---- text form "{rn}-{rh}" over one-character strings ----------------------
Fmt(h) == Dec(h.rn) \o <<"-">> \o Dec(h.rh)

DigitChars == {"0", "1", "2", "3", "4", "5", "6", "7", "8", "9"}
AllDigits(s) == Len(s) > 0 /\ \A i \in DOMAIN s : s[i] \in DigitChars
Dashes(s) == { i \in DOMAIN s : s[i] = "-" }
ParseErr == [ok |-> FALSE]
Parse(s) ==
    IF \E i \in Dashes(s) : Dashes(s) = {i}
    THEN LET i == CHOOSE j \in Dashes(s) : TRUE
             l == SubSeq(s, 1, i - 1)
             r == SubSeq(s, i + 1, Len(s))
         IN IF AllDigits(l) /\ AllDigits(r) /\ Fits(l) /\ Fits(r)
            THEN [ok |-> TRUE, h |-> Height(Und(l), Und(r))] ELSE ParseErr
    ELSE ParseErr

\* ---- timeouts ----------------------------------------------------------------
\* a packet timeout: a height and a timestamp; a zero component is "not set"
Timeout(h, ts) == [h |-> h, ts |-> ts]
HeightElapsed(to, h) == ~IsZeroH(to.h) /\ HGTE(h, to.h)
TsElapsed(to, ts)    == to.ts # Z /\ NumLeq(to.ts, ts)
Elapsed(to, h, ts)   == HeightElapsed(to, h) \/ TsElapsed(to, ts)

\* componentwise order of observation points (height, timestamp)
PointLeq(h1, ts1, h2, ts2) == HLTE(h1, h2) /\ NumLeq(ts1, ts2)

(***************************************************************************)
(* Obligations of the property on the specification itself (checked by TLC *)
(* over the scaled word in MC_Heights*, and over the 64-bit boundary table *)
(* in Gen_Heights).                                                        *)
(***************************************************************************)
OrderLaws(a, b, c) ==
    /\ HCmp(a, a) = 0                                             \* reflexive
    /\ (HCmp(a, b) = 0 <=> a = b)                                 \* antisymmetric: equal only if identical
    /\ HCmp(a, b) = 0 - HCmp(b, a)                                 \* total and antisymmetric
    /\ (HLTE(a, b) /\ HLTE(b, c) => HLTE(a, c))                  \* transitive
    /\ (HLT(a, b) /\ HLTE(b, c) => HLT(a, c))
    /\ HCmp(a, b) \in {-1, 0, 1}
    /\ (HLT(a, b) <=> ~HGTE(a, b)) /\ (HGT(a, b) <=> ~HLTE(a, b))
    /\ (HEQ(a, b) <=> (HLTE(a, b) /\ HGTE(a, b)))
    /\ (Lt(a.rn, b.rn) => HLT(a, b))                             \* revision number first
    /\ (a.rn = b.rn => (HLT(a, b) <=> Lt(a.rh, b.rh)))           \* then revision height

RoundTrip(h) == Parse(Fmt(h)) = [ok |-> TRUE, h |-> h]

ElapsedMonotone(to, h1, ts1, h2, ts2) ==
    PointLeq(h1, ts1, h2, ts2) /\ Elapsed(to, h1, ts1) => Elapsed(to, h2, ts2)
ZeroNeverElapses(to, h, ts) ==
    /\ (IsZeroH(to.h) /\ to.ts = Z => ~Elapsed(to, h, ts))
    /\ (IsZeroH(to.h) => ~HeightElapsed(to, h))
    /\ (to.ts = Z => ~TsElapsed(to, ts))
=============================================================================
