--------------------------- MODULE Trace_IdentHist ---------------------------
(***************************************************************************)
(* C15 history part: validation of real create-client / connection-open-   *)
(* init / channel-open-init transactions (failing attempts included).      *)
(* Each line carries the action, the result class, the identifier the      *)
(* transaction reported in its events ("" if none), what the chain's own   *)
(* validator and parser say about that identifier, and -- read from the    *)
(* chain after the step -- the three counters and all client / connection  *)
(* / channel identifiers present in the store.                             *)
(***************************************************************************)
EXTENDS IdentHist, TLC, Json

CONSTANT TraceFile

Trace == ndJsonDeserialize(TraceFile)

VARIABLES l, hist    \* hist: every identifier issued or seen in the store so far in this trace

SetOf(arr) == { arr[i] : i \in DOMAIN arr }
Flag(prop, clause, bad) == IF bad THEN {<<prop, clause>>} ELSE {}
AllIds(st) == SetOf(st.clients) \cup SetOf(st.conns) \cup SetOf(st.chans)
ListOf(st, a) == IF a.a = "CreateClient" THEN st.clients ELSE IF a.a = "ConnInit" THEN st.conns ELSE st.chans
NoDup(arr) == Cardinality(SetOf(arr)) = Len(arr)

Viol(pre, ln, h) ==
    LET a == ln.a  post == ln.st  ok == ln.res = "ok"
        S0 == [nc |-> pre.nc, nconn |-> pre.nconn, nchan |-> pre.nchan, issued |-> <<>>]
        E == Step(S0, a)
    IN Flag("X", "unexpected-result-class", ln.res \notin {"ok", "err"})
  \cup Flag("C15", "issued-identifier-never-used-before", ok /\ ln.issued \in h)
  \cup Flag("C15", "identifiers-in-the-store-are-pairwise-distinct", ~(NoDup(post.clients) /\ NoDup(post.conns) /\ NoDup(post.chans)))
  \cup Flag("C15", "store-grows-exactly-by-the-issued-identifier",
            ok /\ ~(/\ ln.issued # "" /\ SetOf(ListOf(post, a)) = SetOf(ListOf(pre, a)) \cup {ln.issued}
                    /\ AllIds(post) = AllIds(pre) \cup {ln.issued}))
  \cup Flag("C15", "failed-attempt-issues-nothing", ~ok /\ ~(ln.issued = "" /\ AllIds(post) = AllIds(pre)))
  \cup Flag("C15", "issued-identifier-passes-validation-and-parses-back",
            ok /\ ~(ln.chk.hostok /\ ln.chk.pok /\ ln.chk.pt = TypeOf(a) /\ ln.chk.rt = ln.issued))
  \cup Flag("C15", "identifiers-never-disappear", ~(AllIds(pre) \subseteq AllIds(post)))
  \cup Flag("CONF", a.a \o ":" \o a.kind \o ":" \o E.res \o "/" \o ln.res,
            ~(/\ E.res = ln.res /\ post.nc = E.S.nc /\ post.nconn = E.S.nconn /\ post.nchan = E.S.nchan
              /\ (ok => ln.chk.pn = Counter(S0, a))))

Report(ln, viol) == \A v \in viol : PrintT(<<"MONFAIL", ln.tr, ln.i, v>>)

TraceInit == l = 0 /\ hist = {}
TraceNext == /\ l < Len(Trace)
             /\ LET ln == Trace[l + 1] IN
                IF ln.a.a = "Init"
                THEN /\ Report(ln, Flag("X", "initial-store", ~(NoDup(ln.st.clients) /\ NoDup(ln.st.conns) /\ NoDup(ln.st.chans))))
                     /\ hist' = AllIds(ln.st)
                ELSE /\ Report(ln, Viol(Trace[l].st, ln, hist) \cup Flag("X", "trace-order", Trace[l].tr # ln.tr))
                     /\ hist' = hist \cup AllIds(ln.st) \cup (IF ln.issued = "" THEN {} ELSE {ln.issued})
             /\ l' = l + 1
             /\ (l + 1 = Len(Trace) => PrintT(<<"CONSUMED", l + 1>>))
TraceSpec == TraceInit /\ [][TraceNext]_<<l, hist>>
=============================================================================
