------------------------------- MODULE BigNat -------------------------------
(***************************************************************************)
(* Natural numbers of unbounded size as little-endian limb sequences in    *)
(* base B (canonical: no most-significant zero limb, 0 = <<>>).  TLC       *)
(* integers are 32-bit; with B = 32768 every intermediate value below is   *)
(* smaller than 2^31, so TLC evaluates the operators of the function       *)
(* specifications exactly on 64-bit (and larger) operands.  MC_BigNat      *)
(* checks these operators against TLC's native arithmetic with B = 4 and   *)
(* B = 10 on every operand pair below a bound (refinement lemma).          *)
(***************************************************************************)
EXTENDS Integers, Sequences

CONSTANT B

Zero == <<>>
IsNat(x) == /\ \A i \in DOMAIN x : x[i] \in 0..(B - 1)
            /\ (Len(x) > 0 => x[Len(x)] # 0)

RECURSIVE FromInt(_)
FromInt(n) == IF n = 0 THEN <<>> ELSE <<n % B>> \o FromInt(n \div B)

RECURSIVE ToInt(_)
ToInt(x) == IF x = <<>> THEN 0 ELSE Head(x) + B * ToInt(Tail(x))

Hd(x) == IF x = <<>> THEN 0 ELSE Head(x)
Tl(x) == IF x = <<>> THEN <<>> ELSE Tail(x)

RECURSIVE AddC(_, _, _)
AddC(x, y, c) ==
    IF x = <<>> /\ y = <<>> THEN (IF c = 0 THEN <<>> ELSE <<c>>)
    ELSE LET s == Hd(x) + Hd(y) + c IN <<s % B>> \o AddC(Tl(x), Tl(y), s \div B)
Add(x, y) == AddC(x, y, 0)
Succ(x) == AddC(x, <<>>, 1)

\* -1, 0, 1
RECURSIVE CmpFrom(_, _, _)
CmpFrom(x, y, i) == IF i = 0 THEN 0
                    ELSE IF x[i] < y[i] THEN -1 ELSE IF x[i] > y[i] THEN 1 ELSE CmpFrom(x, y, i - 1)
Cmp(x, y) == IF Len(x) < Len(y) THEN -1 ELSE IF Len(x) > Len(y) THEN 1 ELSE CmpFrom(x, y, Len(x))
Lt(x, y)  == Cmp(x, y) = -1
Leq(x, y) == Cmp(x, y) # 1
Eq(x, y)  == x = y

RECURSIVE Strip(_)
Strip(x) == IF x # <<>> /\ x[Len(x)] = 0 THEN Strip(SubSeq(x, 1, Len(x) - 1)) ELSE x

\* x - y for x >= y
RECURSIVE SubB(_, _, _)
SubB(x, y, b) ==
    IF x = <<>> THEN <<>>
    ELSE LET d == Hd(x) - Hd(y) - b IN
         IF d < 0 THEN <<d + B>> \o SubB(Tl(x), Tl(y), 1) ELSE <<d>> \o SubB(Tl(x), Tl(y), 0)
Sub(x, y) == Strip(SubB(x, y, 0))
Pred(x) == Sub(x, <<1>>)

\* x * m + c for 0 <= m, c < B
RECURSIVE MulSmallR(_, _, _)
MulSmallR(x, m, c) ==
    IF x = <<>> THEN FromInt(c)
    ELSE LET p == Head(x) * m + c IN <<p % B>> \o MulSmallR(Tail(x), m, p \div B)
MulSmallC(x, m, c) == IF m = 0 THEN FromInt(c) ELSE MulSmallR(x, m, c)
MulSmall(x, m) == MulSmallC(x, m, 0)

Shift(x) == IF x = <<>> THEN <<>> ELSE <<0>> \o x

RECURSIVE Mul(_, _)
Mul(x, y) == IF y = <<>> \/ x = <<>> THEN <<>> ELSE Add(MulSmall(x, Head(y)), Shift(Mul(x, Tail(y))))

\* quotient and remainder of x by a small divisor 0 < m < B (most significant limb first)
RECURSIVE DivSmallFrom(_, _, _, _)
DivSmallFrom(x, m, i, r) ==
    IF i = 0 THEN [q |-> <<>>, r |-> r]
    ELSE LET cur  == r * B + x[i]
             rest == DivSmallFrom(x, m, i - 1, cur % m)
         IN [q |-> rest.q \o <<cur \div m>>, r |-> rest.r]
DivSmall(x, m) == LET d == DivSmallFrom(x, m, Len(x), 0) IN [q |-> Strip(d.q), r |-> d.r]

\* 2^k built directly (no recursion): limb (k div w) + 1 holds 2^(k mod w) where B = 2^w; only for B a power of two
RECURSIVE Log2(_)
Log2(n) == IF n <= 1 THEN 0 ELSE 1 + Log2(n \div 2)
Pow2(k) == LET w == Log2(B) IN [i \in 1..((k \div w) + 1) |-> IF i = (k \div w) + 1 THEN 2 ^ (k % w) ELSE 0]

\* canonical decimal digits, most significant first, as a sequence of one-character strings
Digits == <<"0", "1", "2", "3", "4", "5", "6", "7", "8", "9">>
RECURSIVE ToDecRev(_)
ToDecRev(x) == IF x = <<>> THEN <<>>
               ELSE LET d == DivSmall(x, 10) IN <<Digits[d.r + 1]>> \o ToDecRev(d.q)
Rev(s) == [i \in 1..Len(s) |-> s[Len(s) + 1 - i]]
ToDec(x) == IF x = <<>> THEN <<"0">> ELSE Rev(ToDecRev(x))

DigitVal(c) == CHOOSE d \in 0..9 : Digits[d + 1] = c
IsDigit(c) == \E d \in 1..10 : Digits[d] = c
\* value of a digit sequence (leading zeros allowed, <<>> = 0)
RECURSIVE FromDecAcc(_, _, _)
FromDecAcc(ds, i, acc) == IF i > Len(ds) THEN acc
                          ELSE FromDecAcc(ds, i + 1, IF acc = <<>> /\ DigitVal(ds[i]) = 0 THEN <<>>
                                                     ELSE MulSmallC(acc, 10, DigitVal(ds[i])))
FromDec(ds) == FromDecAcc(ds, 1, <<>>)
=============================================================================
