--------------------------- MODULE Trace_DelayHist ---------------------------
(***************************************************************************)
(* C19 history part: validation of real transactions (client update, then  *)
(* empty blocks and MsgRecvPacket at controlled block times) against       *)
(* DelayHist.  Each line carries the action, the result class of the       *)
(* transaction and (t, h, n): nanoseconds / blocks since the consensus     *)
(* state was processed and the number of packets received so far, all read *)
(* from the real chain after the step.                                     *)
(***************************************************************************)
EXTENDS DelayHist, TLC, Json, Sequences

CONSTANT TraceFile

Trace == ndJsonDeserialize(TraceFile)

VARIABLE l

Flag(prop, clause, bad) == IF bad THEN {<<prop, clause>>} ELSE {}

Viol(pre, ln) ==
    LET a == ln.a  post == ln.st  TD == ln.td  P == ln.p  E == Step(TD, P, pre, a) IN
       Flag("X", "time-or-height-of-the-block", post.t # pre.t + a.dt \/ post.h # pre.h + 1)
  \cup Flag("X", "unexpected-result-class", ln.res \notin {"ok", "err"})
  \cup Flag("C19", "accepted-only-after-both-delays", a.a = "Recv" /\ ln.res = "ok" /\ ~Passed(TD, P, post.t, post.h))
  \cup Flag("C19", "delay-boundaries-are-inclusive", a.a = "Recv" /\ Passed(TD, P, post.t, post.h) /\ ln.res # "ok")
  \cup Flag("C19", "received-only-by-an-accepted-receive",
            post.n # pre.n + (IF a.a = "Recv" /\ ln.res = "ok" THEN 1 ELSE 0))
  \cup Flag("CONF", a.a \o ":" \o E.res \o "/" \o ln.res, ~(E.res = ln.res /\ E.S = post))

Report(ln, viol) == \A v \in viol : PrintT(<<"MONFAIL", ln.tr, ln.i, v>>)

TraceInit == l = 0
TraceNext == /\ l < Len(Trace)
             /\ LET ln == Trace[l + 1] IN
                IF ln.a.a = "Init"
                THEN Report(ln, Flag("X", "initial-state", ln.st # InitState))
                ELSE Report(ln, Viol(Trace[l].st, ln) \cup Flag("X", "trace-order", Trace[l].tr # ln.tr \/ Trace[l].td # ln.td \/ Trace[l].p # ln.p))
             /\ l' = l + 1
             /\ (l + 1 = Len(Trace) => PrintT(<<"CONSUMED", l + 1>>))
TraceSpec == TraceInit /\ [][TraceNext]_l
=============================================================================
