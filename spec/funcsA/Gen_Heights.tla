----------------------------- MODULE Gen_Heights -----------------------------
(***************************************************************************)
(* C17 function table over real 64-bit operands (BigNat): every pair of    *)
(* heights of the boundary table (revision roll-over, 2^63 +- 1, 2^64 - 1, *)
(* seeded operands), every (timeout, point, point) combination of the      *)
(* timeout table.  The expected value of each case is computed here from   *)
(* Heights.tla; the same obligations as in MC_Heights* are asserted over   *)
(* this 64-bit table (ASSUME), the cases are written as ndjson.            *)
(***************************************************************************)
EXTENDS Nat64, TLC, Json, FiniteSets, SequencesExt

CONSTANTS Seed, Tier, OutFile

H == INSTANCE Heights WITH Lt <- NLt, Z <- <<>>, Dec <- NDec, Und <- NUnd, Fits <- NFits

Quick == Tier = "quick"
RevNums == IF Quick THEN {N(0), N(1), Sym(63, 0), Max64, Rnd64(Seed, 1)}
           ELSE {N(0), N(1), Sym(32, 0), Sym(63, -1), Sym(63, 0), Max64, Rnd64(Seed, 1), Rnd(Seed, 3, 33)}
RevHeights == IF Quick THEN {N(0), N(1), Sym(63, -1), Sym(63, 0), Max64, Rnd64(Seed, 4)}
              ELSE {N(0), N(1), Sym(32, -1), Sym(53, 1), Sym(63, -1), Sym(63, 0), Sym(63, 1), Sym(64, -2), Max64, Rnd64(Seed, 4), Rnd(Seed, 6, 31)}
HS == { H!Height(rn, rh) : rn \in RevNums, rh \in RevHeights }

\* timeouts and observation points
TRev == IF Quick THEN {N(0), N(1)} ELSE {N(0), Max64}
THgt == IF Quick THEN {N(0), Max64} ELSE {N(0), N(1), Max64, Rnd64(Seed, 7)}
TStamps == IF Quick THEN {N(0), N(1), Max64} ELSE {N(0), N(1), Max64, Rnd64(Seed, 8)}
THS == { H!Height(rn, rh) : rn \in TRev, rh \in THgt }
Points == { [h |-> h, ts |-> ts] : h \in THS, ts \in TStamps }
Timeouts == { H!Timeout(h, ts) : h \in THS, ts \in TStamps }

CmpCase(a, b) == [fn |-> "HCmp", in |-> [a |-> a, b |-> b],
                  exp |-> [cmp |-> H!HCmp(a, b), lt |-> H!HLT(a, b), lte |-> H!HLTE(a, b), gt |-> H!HGT(a, b),
                           gte |-> H!HGTE(a, b), eq |-> H!HEQ(a, b)]]
FmtCase(h) == [fn |-> "HFmt", in |-> [h |-> h], exp |-> [s |-> H!Fmt(h)]]
ElCase(to, p, q) == [fn |-> "Elapsed", in |-> [to |-> to, p |-> p, q |-> q],
                     exp |-> [ep |-> H!Elapsed(to, p.h, p.ts), eq |-> H!Elapsed(to, q.h, q.ts)]]

\* unordered pairs of points are enough (the monitors are symmetric)
PointPairs == { pq \in Points \X Points : pq[1] = pq[2] \/ (CHOOSE o \in {pq[1], pq[2]} : TRUE) = pq[1] }

Cases == SetToSeq({ CmpCase(a, b) : a \in HS, b \in HS })
         \o SetToSeq({ FmtCase(h) : h \in HS })
         \o SetToSeq({ ElCase(to, pq[1], pq[2]) : to \in Timeouts, pq \in PointPairs })

Numbered(cs) == [i \in DOMAIN cs |-> [id |-> "H" \o ToString(i)] @@ cs[i]]

\* the specification's obligations over the 64-bit table
Obligations ==
    /\ \A a \in HS : H!RoundTrip(a)
    /\ \A a \in HS, b \in HS : \A c \in THS : H!OrderLaws(a, b, c)
    /\ \A to \in Timeouts : \A p \in Points : /\ H!ZeroNeverElapses(to, p.h, p.ts)
                                              /\ \A q \in Points : H!ElapsedMonotone(to, p.h, p.ts, q.h, q.ts)
    /\ H!Parse(NDec(Two64) \o <<"-", "1">>) = H!ParseErr /\ H!Parse(<<"1", "-">> \o NDec(Two64)) = H!ParseErr

\* generation runs as two steps of a behaviour so that it is evaluated by a TLC worker
VARIABLES st, cases
Init == st = "gen" /\ cases = <<>>
Next == \/ /\ st = "gen" /\ cases' = Numbered(Cases) /\ st' = "emit"
        \/ /\ st = "emit"
           /\ Assert(Obligations, "a C17 obligation fails on the 64-bit table of the specification")
           /\ ndJsonSerialize(OutFile, cases)
           /\ PrintT(<<"GENERATED", Len(cases), Cardinality(HS), Cardinality(Timeouts), Cardinality(Points)>>)
           /\ st' = "done" /\ cases' = <<>>
Spec == Init /\ [][Next]_<<st, cases>>
=============================================================================
