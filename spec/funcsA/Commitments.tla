----------------------------- MODULE Commitments -----------------------------
(***************************************************************************)
(* C07.  Packet and acknowledgement commitments as TERMS over the          *)
(* constructors H (sha256), BE64 (8-byte big endian), Bytes (raw bytes),   *)
(* Byte (one constant byte) and Cat (concatenation), written from the      *)
(* ICS-4 / IBC v2 specification:                                           *)
(*   v1 packet : H( BE64(ts) . BE64(revNumber) . BE64(revHeight) . H(data))*)
(*   v2 payload: H( H(srcPort) . H(dstPort) . H(version) . H(encoding)     *)
(*                  . H(value) )                                           *)
(*   v2 packet : H( 0x02 . H(destClient) . H(BE64(ts))                     *)
(*                  . H( payloadHash_1 . ... . payloadHash_n ) )           *)
(*   v1 ack    : H(ack)                                                    *)
(*   v2 ack    : H( 0x02 . H(appAck_1) . ... . H(appAck_n) )               *)
(* Field values are opaque here (numbers and byte strings of whatever      *)
(* representation the extending module uses).                              *)
(***************************************************************************)
EXTENDS Integers, Sequences

TH(x)     == [k |-> "H", x |-> x]
TBE(n)    == [k |-> "BE64", n |-> n]
TBytes(s) == [k |-> "Bytes", s |-> s]
TByte(b)  == [k |-> "Byte", b |-> b]
TCat(xs)  == [k |-> "Cat", xs |-> xs]

\* v1: committed fields ts (timeout timestamp), rn / rh (timeout height), data
CommitV1(p) == TH(TCat(<<TBE(p.ts), TBE(p.rn), TBE(p.rh), TH(TBytes(p.data))>>))

\* v2: committed fields of a payload, in this order
HashPayload(pl) == TH(TCat(<<TH(TBytes(pl.sp)), TH(TBytes(pl.dp)), TH(TBytes(pl.ver)), TH(TBytes(pl.enc)), TH(TBytes(pl.val))>>))
\* v2: committed fields dest (destination client), ts (timeout, seconds), pls (payloads, in order)
CommitV2(p) == TH(TCat(<<TByte(2), TH(TBytes(p.dest)), TH(TBE(p.ts)),
                         TH(TCat([i \in DOMAIN p.pls |-> HashPayload(p.pls[i])]))>>))

CommitAckV1(ack)   == TH(TBytes(ack))
CommitAckV2(acks)  == TH(TCat(<<TByte(2)>> \o [i \in DOMAIN acks |-> TH(TBytes(acks[i]))]))

\* the committed fields (what a commitment must determine)
FieldsV1(p) == [ts |-> p.ts, rn |-> p.rn, rh |-> p.rh, data |-> p.data]
FieldsPl(pl) == [sp |-> pl.sp, dp |-> pl.dp, ver |-> pl.ver, enc |-> pl.enc, val |-> pl.val]
FieldsV2(p) == [dest |-> p.dest, ts |-> p.ts, pls |-> [i \in DOMAIN p.pls |-> FieldsPl(p.pls[i])]]

\* the preimage of a commitment: what is fed to the outermost hash
Preimage(commitment) == commitment.x
=============================================================================
