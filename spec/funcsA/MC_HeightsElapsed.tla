-------------------------- MODULE MC_HeightsElapsed --------------------------
(* C17 on the specification itself: for every timeout over the scaled word     *)
(* the observation point (height, timestamp) climbs one successor at a time;   *)
(* action property: once elapsed, elapsed after every step (hence at every     *)
(* greater point); invariant: zero components never elapse.                    *)
EXTENDS Integers, Sequences, TLC
CONSTANT W
VARIABLES to, h, ts

NatLt(x, y) == x < y
NoDec(n) == <<>>
NoUnd(ds) == 0
NoFits(ds) == FALSE
H == INSTANCE Heights WITH Lt <- NatLt, Z <- 0, Dec <- NoDec, Und <- NoUnd, Fits <- NoFits

Word == 0..(W - 1)
HasSucc(x) == x.rh < W - 1 \/ x.rn < W - 1
SuccH(x) == IF x.rh < W - 1 THEN H!Height(x.rn, x.rh + 1) ELSE H!Height(x.rn + 1, 0)

Kinds == <<"elapsed-by-height", "elapsed-by-timestamp", "not-elapsed", "zero-timeout", "zero-height-only", "zero-timestamp-only">>
Idx(name) == CHOOSE i \in DOMAIN Kinds : Kinds[i] = name
Witness(name) == IF TLCGet(Idx(name)) = 0 THEN TLCSet(Idx(name), 1) /\ PrintT(<<"WITNESS", name>>) ELSE TRUE
Observe == /\ (H!HeightElapsed(to, h') /\ ~H!TsElapsed(to, ts') => Witness("elapsed-by-height"))
           /\ (~H!HeightElapsed(to, h') /\ H!TsElapsed(to, ts') => Witness("elapsed-by-timestamp"))
           /\ (~H!Elapsed(to, h', ts') /\ ~H!IsZeroH(to.h) /\ to.ts # 0 => Witness("not-elapsed"))
           /\ (H!IsZeroH(to.h) /\ to.ts = 0 => Witness("zero-timeout"))
           /\ (H!IsZeroH(to.h) /\ to.ts # 0 => Witness("zero-height-only"))
           /\ (~H!IsZeroH(to.h) /\ to.ts = 0 => Witness("zero-timestamp-only"))

Init == /\ to \in [h : [rn : Word, rh : Word], ts : Word]
        /\ h = H!ZeroHeight /\ ts = 0
        /\ \A i \in DOMAIN Kinds : TLCSet(i, 0)
Next == /\ \/ HasSucc(h) /\ h' = SuccH(h) /\ ts' = ts
           \/ ts < W - 1 /\ ts' = ts + 1 /\ h' = h
        /\ to' = to
        /\ Observe
Spec == Init /\ [][Next]_<<to, h, ts>>

Inv == H!ZeroNeverElapses(to, h, ts)
StaysElapsed == [][H!Elapsed(to, h, ts) => H!Elapsed(to, h', ts')]_<<to, h, ts>>
\* the same obligation stated on arbitrary pairs of points (not only successors) for the current timeout
MonotonePairs == \A rn \in Word, rh \in Word, t2 \in Word :
                    H!ElapsedMonotone(to, h, ts, H!Height(rn, rh), t2)
=============================================================================
