----------------------------- MODULE MC_IdentHist -----------------------------
(* Exhaustive exploration of IdentHist up to MaxIssued issued identifiers (failed  *)
(* attempts interleaved everywhere): no identifier is ever issued twice.           *)
EXTENDS IdentHist, TLC
CONSTANT MaxIssued
VARIABLES S, fails   \* fails: failed attempts since the last success (bounded, so that they interleave but do not loop)

Kinds == <<"CreateClient:ok", "CreateClient:err", "ConnInit:ok", "ConnInit:err", "ChanInit:ok", "ChanInit:err", "two-client-types">>
Idx(name) == CHOOSE i \in DOMAIN Kinds : Kinds[i] = name
Witness(name) == IF TLCGet(Idx(name)) = 0 THEN TLCSet(Idx(name), 1) /\ PrintT(<<"WITNESS", name>>) ELSE TRUE

Init == /\ S = [nc |-> 1, nconn |-> 1, nchan |-> 0, issued |-> <<>>] /\ fails = 0
        /\ \A i \in DOMAIN Kinds : TLCSet(i, 0)
Next == \E a \in Acts : LET r == Step(S, a) IN
          /\ S' = r.S
          /\ fails' = IF r.res = "ok" THEN 0 ELSE fails + 1
          /\ fails' <= 1
          /\ Witness(a.a \o ":" \o r.res)
          /\ ({"06-solomachine", "07-tendermint"} \subseteq { S'.issued[i].t : i \in DOMAIN S'.issued } => Witness("two-client-types"))
Spec == Init /\ [][Next]_<<S, fails>>
Bound == Len(S.issued) <= MaxIssued

Inv == NoReuse(S) /\ NoReuseAsText(S)
FailedAttemptIssuesNothing == [][fails' > fails => S' = S]_<<S, fails>>
CountersNeverDecrease == [][S'.nc >= S.nc /\ S'.nconn >= S.nconn /\ S'.nchan >= S.nchan]_<<S, fails>>
=============================================================================
