--------------------------- MODULE MC_HeightsOrder ---------------------------
(* C17 on the specification itself, exhaustively over a scaled word 0..W-1:   *)
(* every triple of heights is reached by moving one component to its          *)
(* successor in the order (revision roll-over included); invariants: the       *)
(* total-order laws, consistency of LT/LTE/GT/GTE/EQ, text round trip;         *)
(* action property: a successor is strictly greater.                           *)
EXTENDS Integers, Sequences, TLC
CONSTANT W
VARIABLES a, b, c

NatLt(x, y) == x < y
NatDigits == <<"0", "1", "2", "3", "4", "5", "6", "7", "8", "9">>
RECURSIVE NatDec(_)
NatDec(n) == IF n < 10 THEN <<NatDigits[n + 1]>> ELSE NatDec(n \div 10) \o <<NatDigits[(n % 10) + 1]>>
RECURSIVE NatUnd(_)
NatUnd(ds) == IF ds = <<>> THEN 0
              ELSE 10 * NatUnd(SubSeq(ds, 1, Len(ds) - 1)) + (CHOOSE d \in 0..9 : NatDigits[d + 1] = ds[Len(ds)])
NatFits(ds) == Len(ds) <= 6 /\ NatUnd(ds) < W

H == INSTANCE Heights WITH Lt <- NatLt, Z <- 0, Dec <- NatDec, Und <- NatUnd, Fits <- NatFits

HasSucc(h) == h.rh < W - 1 \/ h.rn < W - 1
SuccH(h) == IF h.rh < W - 1 THEN H!Height(h.rn, h.rh + 1) ELSE H!Height(h.rn + 1, 0)

Kinds == <<"lt-by-revision", "lt-by-height", "equal", "gt-by-revision", "gt-by-height", "rollover">>
Idx(name) == CHOOSE i \in DOMAIN Kinds : Kinds[i] = name
Witness(name) == IF TLCGet(Idx(name)) = 0 THEN TLCSet(Idx(name), 1) /\ PrintT(<<"WITNESS", name>>) ELSE TRUE
Classify(x, y) == IF x.rn < y.rn THEN "lt-by-revision" ELSE IF x.rn > y.rn THEN "gt-by-revision"
                  ELSE IF x.rh < y.rh THEN "lt-by-height" ELSE IF x.rh > y.rh THEN "gt-by-height" ELSE "equal"

Init == /\ a = H!ZeroHeight /\ b = H!ZeroHeight /\ c = H!ZeroHeight
        /\ \A i \in DOMAIN Kinds : TLCSet(i, 0)
Next == \/ HasSucc(a) /\ a' = SuccH(a) /\ UNCHANGED <<b, c>> /\ Witness(Classify(a', b))
                      /\ (a.rn # a'.rn => Witness("rollover"))
        \/ HasSucc(b) /\ b' = SuccH(b) /\ UNCHANGED <<a, c>> /\ Witness(Classify(a, b'))
        \/ HasSucc(c) /\ c' = SuccH(c) /\ UNCHANGED <<a, b>>
Spec == Init /\ [][Next]_<<a, b, c>>

Inv == /\ H!OrderLaws(a, b, c)
       /\ H!RoundTrip(a)
       /\ H!Parse(H!Fmt(a) \o <<"-">> \o H!Fmt(b)) = H!ParseErr
       /\ H!Parse(NatDec(a.rn)) = H!ParseErr
       /\ H!Parse(NatDec(a.rn) \o <<"-">> \o NatDec(W + a.rh)) = H!ParseErr

SuccIncreases == [][H!HLT(a, a') \/ a' = a]_<<a, b, c>>
=============================================================================
