--------------------------- MODULE Sched_IdentHist ---------------------------
(* C15 history part, behaviour generation (tlc -simulate): random sequences of  *)
(* create / open attempts, about half of them failing.                          *)
EXTENDS IdentHist, TLC, Json

CONSTANTS Depth, OutDir

VARIABLES S, sched

Init == S = [nc |-> 1, nconn |-> 1, nchan |-> 0, issued |-> <<>>] /\ sched = <<>>

Next == /\ Len(sched) < Depth
        /\ \E a \in { RandomElement(Acts) } :
              /\ S' = Step(S, a).S
              /\ sched' = Append(sched, a)
              /\ (Len(sched') = Depth =>
                    JsonSerialize(OutDir \o "/s" \o ToString(TLCGet("stats").traces) \o "_" \o ToString(RandomElement(1..1000000)) \o ".json",
                                  [acts |-> sched']))
Spec == Init /\ [][Next]_<<S, sched>>
=============================================================================
