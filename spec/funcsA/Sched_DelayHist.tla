--------------------------- MODULE Sched_DelayHist ---------------------------
(* C19 history part, behaviour generation (tlc -simulate): random walks of      *)
(* DelayHist whose time steps land exactly on / one nanosecond before / after   *)
(* the moment the time delay has passed; each walk is written as one schedule.  *)
EXTENDS DelayHist, TLC, Json, Sequences

CONSTANTS Depth, OutDir

VARIABLES S, sched

Init == S = InitState /\ sched = <<>>

\* prefer steps that end next to a boundary of either delay
Near(S0) == { a \in Acts(S0) : LET r == Step(S0, a).S IN r.t \in {TD - 1, TD, TD + 1} \/ r.h \in {BD - 1, BD, BD + 1} }
Pick(S0) == IF Near(S0) # {} /\ RandomElement(1..4) # 1 THEN RandomElement(Near(S0)) ELSE RandomElement(Acts(S0))

Next == /\ Len(sched) < Depth
        /\ \E a \in { Pick(S) } :
              /\ S' = Step(S, a).S
              /\ sched' = Append(sched, a)
              /\ (Len(sched') = Depth =>
                    JsonSerialize(OutDir \o "/s" \o ToString(TLCGet("stats").traces) \o "_" \o ToString(RandomElement(1..1000000)) \o ".json",
                                  [td |-> TD, p |-> P, acts |-> sched']))
Spec == Init /\ [][Next]_<<S, sched>>
=============================================================================
