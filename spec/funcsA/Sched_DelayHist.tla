--------------------------- MODULE Sched_DelayHist ---------------------------
(* C19 history part, behaviour generation (tlc -simulate): random walks of      *)
(* DelayHist (configuration drawn from CONFIGS) whose time steps land exactly   *)
(* on / one nanosecond before / after the moment the time delay has passed;     *)
(* each walk is written as one schedule.                                        *)
EXTENDS DelayHist, TLC, Json, Sequences

CONSTANTS CONFIGS, Depth, OutDir

VARIABLES cfg, S, sched

TD == TDof(cfg)
P  == Pof(cfg)
BD == BDof(TD, P)

Init == cfg \in CONFIGS /\ S = InitState /\ sched = <<>>

\* prefer steps that end next to a boundary of either delay
Near(S0) == { a \in Acts(TD, S0) : LET r == Step(TD, P, S0, a).S IN r.t \in {TD - 1, TD, TD + 1} \/ r.h \in {BD - 1, BD, BD + 1} }
Pick(S0) == IF Near(S0) # {} /\ RandomElement(1..4) # 1 THEN RandomElement(Near(S0)) ELSE RandomElement(Acts(TD, S0))

Next == /\ Len(sched) < Depth
        /\ cfg' = cfg
        /\ \E a \in { Pick(S) } :
              /\ S' = Step(TD, P, S, a).S
              /\ sched' = Append(sched, a)
              /\ (Len(sched') = Depth =>
                    JsonSerialize(OutDir \o "/s" \o ToString(TLCGet("stats").traces) \o "_" \o ToString(RandomElement(1..1000000)) \o ".json",
                                  [td |-> TD, p |-> P, acts |-> sched']))
Spec == Init /\ [][Next]_<<cfg, S, sched>>
=============================================================================
