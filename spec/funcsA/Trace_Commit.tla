----------------------------- MODULE Trace_Commit -----------------------------
(***************************************************************************)
(* C07: validation of the commitment bytes returned by the real code.      *)
(* Each line carries the case (field values), the commitment term the      *)
(* harness was given, and three byte strings (hex): "real" = the real      *)
(* CommitPacket / CommitAcknowledgement, "again" = a second call,          *)
(* "term" = the harness's independent evaluation of the term.  The term is *)
(* re-derived here from Commitments.tla and must be the one evaluated.     *)
(* Across the lines of a run, two inputs with different commitment terms   *)
(* (= different committed fields) must not share the real bytes.           *)
(***************************************************************************)
EXTENDS Nat64, Commitments, TLC, Json

CONSTANT TraceFile

Trace == ndJsonDeserialize(TraceFile)

VARIABLES l, seen     \* seen: real commitment bytes -> term, for the lines judged so far

Flag(prop, clause, bad) == IF bad THEN {<<prop, clause>>} ELSE {}

TermOf(ln) == CASE ln.fn = "CommitV1" -> CommitV1(ln.in)
                [] ln.fn = "CommitV2" -> CommitV2(ln.in)
                [] ln.fn = "AckV1"    -> CommitAckV1(ln.in.ack)
                [] ln.fn = "AckV2"    -> CommitAckV2(ln.in.acks)

Known(ln) == ln.fn \in {"CommitV1", "CommitV2", "AckV1", "AckV2"}

\* commitments of one kind (v1 packets, v2 packets, v1 acks, v2 acks) live in their own key space of the store
Key(ln) == ln.fn \o ":" \o ln.out.real

Viol(ln, sn) ==
    IF ~Known(ln) THEN {<<"X", "unknown-function">>}
    ELSE IF ln.res # "ok" THEN {<<"C07", "commitment-is-total">>}
    ELSE LET T == TermOf(ln)  o == ln.out IN
           Flag("X", "term-evaluated-is-not-the-specification-term", ln.exp.term # T)
      \cup Flag("C07", "bytes-equal-the-specification-formula", o.real # o.term)
      \cup Flag("C07", "deterministic", o.again # o.real)
      \cup Flag("C07", "fixed-length-32", o.len # 32)
      \cup Flag("C07", "different-committed-fields-different-commitment", Key(ln) \in DOMAIN sn /\ sn[Key(ln)] # T)

Report(ln, viol) == \A v \in viol : PrintT(<<"MONFAIL", ln.tr, ln.i, v>>)

TraceInit == l = 0 /\ seen = ("-" :> "-")
TraceNext == /\ l < Len(Trace)
             /\ LET ln == Trace[l + 1] IN
                /\ Report(ln, Viol(ln, seen))
                /\ seen' = IF Known(ln) /\ ln.res = "ok" /\ Key(ln) \notin DOMAIN seen
                           THEN seen @@ (Key(ln) :> TermOf(ln)) ELSE seen
             /\ l' = l + 1
             /\ (l + 1 = Len(Trace) => PrintT(<<"CONSUMED", l + 1>>))
TraceSpec == TraceInit /\ [][TraceNext]_<<l, seen>>
=============================================================================
