--------------------------- MODULE MC_Identifiers ---------------------------
(***************************************************************************)
(* C15 on the specification itself, exhaustively: every string up to       *)
(* length L over a class alphabet (letter, digits, hyphen, underscore,     *)
(* separator) is reached by appending one character; word = 0..W-1 with at *)
(* most MaxDigits digits (scaled from 2^64 / 20 digits).  Invariants: an   *)
(* accepted parse is sound and fits the word; every client type in format  *)
(* round-trips with every sequence (types ending in -N included); a        *)
(* sequence outside the word or with too many digits is rejected;          *)
(* formatting is injective.                                                *)
(***************************************************************************)
EXTENDS Integers, Sequences, TLC
CONSTANTS W, MD, L, ALPHA
VARIABLE s

NatDigits == <<"0", "1", "2", "3", "4", "5", "6", "7", "8", "9">>
RECURSIVE NatDec(_)
NatDec(n) == IF n < 10 THEN <<NatDigits[n + 1]>> ELSE NatDec(n \div 10) \o <<NatDigits[(n % 10) + 1]>>
RECURSIVE NatUnd(_)
NatUnd(ds) == IF ds = <<>> THEN 0
              ELSE 10 * NatUnd(SubSeq(ds, 1, Len(ds) - 1)) + (CHOOSE d \in 0..9 : NatDigits[d + 1] = ds[Len(ds)])
NatFits(ds) == Len(ds) <= 8 /\ NatUnd(ds) < W

I == INSTANCE Identifiers WITH Dec <- NatDec, Und <- NatUnd, Fits <- NatFits, MaxDigits <- MD

Kinds == <<"accepted", "rejected-overflow", "rejected-too-many-digits", "type-ending-in-number", "leading-zero", "not-a-type">>
Idx(name) == CHOOSE i \in DOMAIN Kinds : Kinds[i] = name
Witness(name) == IF TLCGet(Idx(name)) = 0 THEN TLCSet(Idx(name), 1) /\ PrintT(<<"WITNESS", name>>) ELSE TRUE
Observe(x) ==
    LET r == I!ParseClient(x) IN
    /\ (r.ok => Witness("accepted"))
    /\ (r.ok /\ I!HyphenAt(r.t) # {} /\ r.t[Len(r.t)] \in I!Digit => Witness("type-ending-in-number"))
    /\ (r.ok /\ Len(x) >= 2 /\ x[Len(x) - 1] = "0" /\ x[Len(x)] \in I!Digit => Witness("leading-zero"))
    /\ (~r.ok /\ I!HyphenAt(x) # {} => Witness("not-a-type"))

Init == s = <<>> /\ \A i \in DOMAIN Kinds : TLCSet(i, 0)
Next == Len(s) < L /\ \E c \in ALPHA : s' = Append(s, c) /\ Observe(s')
Spec == Init /\ [][Next]_s

Seqs == 0..(W - 1)
TooBig == {W, W + 1, 10 * W}

Inv ==
    LET r == I!ParseClient(s) IN
    \* an accepted identifier is exactly type-hyphen-digits, the digits denote the sequence and it fits the word
    /\ (r.ok => I!AcceptedClientParseSound(s, r.t, r.n) /\ r.n \in Seqs /\ I!ClientTypeFormat(r.t))
    \* format then parse returns the parts, for every client type in format and every sequence of the word
    /\ (I!ClientTypeFormat(s) => \A n \in Seqs : I!ParseClient(I!FormatClient(s, n)) = [ok |-> TRUE, t |-> s, n |-> n])
    \* sequences outside the word and over-long digit strings are never accepted
    /\ (I!ClientTypeFormat(s) => /\ \A n \in TooBig : ~I!ParseClient(I!FormatClient(s, n)).ok
                                 /\ ~I!ParseClient(s \o <<"-">> \o [k \in 1..(MD + 1) |-> "0"]).ok
                                 /\ (Witness("rejected-overflow") /\ Witness("rejected-too-many-digits")))
    \* leading zeros denote the same sequence
    /\ (I!ClientTypeFormat(s) => I!ParseClient(s \o <<"-", "0">> \o NatDec(W - 1)) = [ok |-> TRUE, t |-> s, n |-> W - 1] \/ Len(NatDec(W - 1)) + 1 > MD)
    \* connection / channel identifiers
    /\ \A n \in Seqs : /\ I!ParseSeq(I!ChannelPrefix, I!FormatSeq(I!ChannelPrefix, n)) = [ok |-> TRUE, n |-> n]
                       /\ I!ParseSeq(I!ConnectionPrefix, I!FormatSeq(I!ConnectionPrefix, n)) = [ok |-> TRUE, n |-> n]
    /\ \A n \in TooBig : ~I!ParseSeq(I!ChannelPrefix, I!FormatSeq(I!ChannelPrefix, n)).ok
    /\ LET q == I!ParseSeq(I!ChannelPrefix, I!ChannelPrefix \o s) IN q.ok => I!AcceptedSeqParseSound(I!ChannelPrefix, I!ChannelPrefix \o s, q.n)
    /\ ~I!ParseSeq(I!ChannelPrefix, I!ConnectionPrefix \o s).ok

\* uniqueness: formatting is injective in the sequence, and a type extended by "-N" (itself a type) never yields the
\* identifier of the shorter type with another sequence unless the parse says so
Unique == I!ClientTypeFormat(s) =>
            \A n \in Seqs, m \in Seqs :
               /\ (I!FormatClient(s, n) = I!FormatClient(s, m) => n = m)
               /\ Witness("type-ending-in-number")
               /\ LET longer == I!FormatClient(s, n) IN
                  I!ParseClient(I!FormatClient(longer, m)) = [ok |-> TRUE, t |-> longer, n |-> m]
=============================================================================
