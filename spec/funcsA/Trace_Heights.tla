---------------------------- MODULE Trace_Heights ----------------------------
(***************************************************************************)
(* C17: validation of what the real Height / Timeout functions returned on *)
(* the TLC-generated cases.  Every line carries the case (verbatim) and    *)
(* the outputs of the real code; the expected values are re-derived here   *)
(* from Heights.tla.  A false monitor is printed as                        *)
(*    <<"MONFAIL", case id, 1, <<"C17", clause>>>>                         *)
(* "X" = harness sanity (the case or its expected value was altered),      *)
(* "CONF" = full equality with the specification (diagnostic).             *)
(***************************************************************************)
EXTENDS Nat64, TLC, Json

CONSTANT TraceFile

H == INSTANCE Heights WITH Lt <- NLt, Z <- <<>>, Dec <- NDec, Und <- NUnd, Fits <- NFits

Trace == ndJsonDeserialize(TraceFile)

VARIABLE l

Flag(prop, clause, bad) == IF bad THEN {<<prop, clause>>} ELSE {}

ViolCmp(ln) ==
    LET a == ln.in.a  b == ln.in.b  o == ln.out IN
    IF ln.res # "ok" THEN {<<"C17", "comparison-is-total">>}
    ELSE   Flag("C17", "compare-by-revision-then-height", o.cmp # H!HCmp(a, b))
      \cup Flag("C17", "lt-lte-gt-gte-eq-agree-with-the-order",
                ~(o.lt = H!HLT(a, b) /\ o.lte = H!HLTE(a, b) /\ o.gt = H!HGT(a, b) /\ o.gte = H!HGTE(a, b) /\ o.eq = H!HEQ(a, b)))
      \cup Flag("X", "expected-value-altered", ln.exp.cmp # H!HCmp(a, b))

ViolFmt(ln) ==
    LET h == ln.in.h  o == ln.out IN
    IF ln.res # "ok" THEN {<<"C17", "format-parse-round-trip">>}
    ELSE   Flag("C17", "format-parse-round-trip", ~(o.ok /\ o.parsed = h))
      \cup Flag("CONF", "text-form", o.s # H!Fmt(h))
      \cup Flag("X", "expected-value-altered", ln.exp.s # H!Fmt(h))

ViolElapsed(ln) ==
    LET to == ln.in.to  p == ln.in.p  q == ln.in.q  o == ln.out IN
    IF ln.res # "ok" THEN {<<"C17", "elapsed-is-total">>}
    ELSE   Flag("C17", "elapsed-stays-elapsed",
                \/ (H!PointLeq(p.h, p.ts, q.h, q.ts) /\ o.ep /\ ~o.eq)
                \/ (H!PointLeq(q.h, q.ts, p.h, p.ts) /\ o.eq /\ ~o.ep))
      \cup Flag("C17", "zero-timeout-never-elapses", H!IsZeroH(to.h) /\ to.ts = <<>> /\ (o.ep \/ o.eq))
      \* a zero timeout height does not take part: the result cannot depend on the observed height
      \cup Flag("C17", "zero-height-never-elapses", H!IsZeroH(to.h) /\ p.ts = q.ts /\ o.ep # o.eq)
      \cup Flag("C17", "zero-timestamp-never-elapses", to.ts = <<>> /\ ((p.h = q.h /\ o.ep # o.eq) \/ o.tp \/ o.tq))
      \cup Flag("CONF", "elapsed", ~(o.ep = H!Elapsed(to, p.h, p.ts) /\ o.eq = H!Elapsed(to, q.h, q.ts)
                                     /\ o.tp = H!TsElapsed(to, p.ts) /\ o.tq = H!TsElapsed(to, q.ts)))
      \cup Flag("X", "expected-value-altered", ~(ln.exp.ep = H!Elapsed(to, p.h, p.ts) /\ ln.exp.eq = H!Elapsed(to, q.h, q.ts)))

Viol(ln) == CASE ln.fn = "HCmp" -> ViolCmp(ln)
              [] ln.fn = "HFmt" -> ViolFmt(ln)
              [] ln.fn = "Elapsed" -> ViolElapsed(ln)
              [] OTHER -> {<<"X", "unknown-function">>}

Report(ln, viol) == \A v \in viol : PrintT(<<"MONFAIL", ln.tr, ln.i, v>>)

TraceInit == l = 0
TraceNext == /\ l < Len(Trace)
             /\ Report(Trace[l + 1], Viol(Trace[l + 1]))
             /\ l' = l + 1
             /\ (l + 1 = Len(Trace) => PrintT(<<"CONSUMED", l + 1>>))
TraceSpec == TraceInit /\ [][TraceNext]_l
=============================================================================
