----------------------------- MODULE Trace_Auth -----------------------------
(***************************************************************************)
(* Validation of the C46 replay (harness/authapps, TestDriveAuth): every    *)
(* line is one real transaction on chain A signed by an account of class   *)
(* a.by, with the result class of the transaction and the projected        *)
(* configuration after it:                                                 *)
(*   creator, cp, rel, rel0, allowed, rl  as in Auth.tla (rel / rel0 are   *)
(*       logged as the list of signer classes on the allow list),          *)
(*   lastCreator  class recorded as creator of the most recently created   *)
(*       client, ncl  number of clients ever created,                      *)
(*   dig  digest of the IBC, transfer, ICA, upgrade stores and of the      *)
(*       rate-limit list (lib.DigestOf) for "rejected => unchanged".       *)
(***************************************************************************)
EXTENDS Auth, Json, SequencesExt

CONSTANT TraceFile

Trace == ndJsonDeserialize(TraceFile)

VARIABLES l, S, obs

SetOf(arr) == { arr[i] : i \in DOMAIN arr }

StateOf(j) == [creator |-> j.creator = "creator", cp |-> j.cp, rel |-> SetOf(j.rel) # {}, rel0 |-> SetOf(j.rel0) # {},
               allowed |-> j.allowed, rl |-> j.rl]
ObsOf(j)   == [dig |-> j.dig, ncl |-> j.ncl, lastCreator |-> j.lastCreator, rel |-> SetOf(j.rel), rel0 |-> SetOf(j.rel0), creator |-> j.creator]

Viol(pre, a, res, post, o0, o1) ==
  LET ok == res = "ok"
      E  == Step(pre, a)
  IN
     { <<"C46", "authority-only">> : x \in IF ok /\ a.op \in AuthorityOps /\ ~A_Authority(a) THEN {1} ELSE {} }
  \cup { <<"C46", "register-counterparty-only-creator">> : x \in
           IF ok /\ a.op = "RegisterCounterparty" /\ ~A_Creator(pre, a) THEN {1} ELSE {} }
  \cup { <<"C46", "register-counterparty-only-once">> : x \in
           IF ok /\ a.op = "RegisterCounterparty" /\ ~A_NotYetRegistered(pre) THEN {1} ELSE {} }
  \cup { <<"C46", "client-config-authority-or-creator">> : x \in
           IF ok /\ a.op = "UpdateClientConfig" /\ ~A_AuthorityOrCreator(pre, a) THEN {1} ELSE {} }
  \cup { <<"C46", "delete-creator-authority-or-creator">> : x \in
           IF ok /\ a.op = "DeleteClientCreator" /\ ~A_AuthorityOrCreator(pre, a) THEN {1} ELSE {} }
  \cup { <<"C46", "update-client-only-listed-relayer">> : x \in
           IF ok /\ a.op = "UpdateClient" /\ ~A_ListedRelayer(pre, a) THEN {1} ELSE {} }
  \cup { <<"C46", "v2-packet-message-only-listed-relayer">> : x \in
           IF ok /\ a.op \in RelayOps /\ ~A_ListedRelayer(pre, a) THEN {1} ELSE {} }
  \cup { <<"C46", "client-type-not-allowed-cannot-be-created-updated-used">> : x \in
           IF ok /\ a.op \in RelayOps \cup {"CreateClient", "UpdateClient", "RecoverClient"} /\ ~A_ClientTypeAllowed(pre) THEN {1} ELSE {} }
  \cup { <<"C46", "creator-is-the-create-signer">> : x \in
           IF ok /\ a.op = "CreateClient" /\ ~(o1.ncl = o0.ncl + 1 /\ o1.lastCreator = a.by) THEN {1} ELSE {} }
  \cup { <<"C46", "allow-list-set-as-requested">> : x \in
           IF ok /\ a.op = "UpdateClientConfig"
              /\ ~((IF a.tgt = "cl0" THEN o1.rel0 ELSE o1.rel) = (IF a.val = "rel" THEN {"relayer"} ELSE {})) THEN {1} ELSE {} }
  \cup { <<"C46", "rejected-changes-nothing">> : x \in
           IF ~ok /\ ~(o1.dig = o0.dig /\ post = pre /\ o1.ncl = o0.ncl) THEN {1} ELSE {} }
  \* configuration changes only through the operation that owns it
  \cup { <<"C46", "config-changes-only-by-its-operation">> : x \in
           IF \/ (post.creator # pre.creator /\ ~(ok /\ a.op = "DeleteClientCreator"))
              \/ (post.cp # pre.cp /\ ~(ok /\ a.op = "RegisterCounterparty"))
              \/ (o1.rel # o0.rel /\ ~(ok /\ a.op = "UpdateClientConfig" /\ a.tgt = "cl"))
              \/ (o1.rel0 # o0.rel0 /\ ~(ok /\ a.op = "UpdateClientConfig" /\ a.tgt = "cl0"))
              \/ (post.allowed # pre.allowed /\ ~(ok /\ a.op = "UpdateClientParams"))
              \/ (post.rl # pre.rl /\ ~(ok /\ a.op \in {"RLAdd", "RLRemove"}))
           THEN {1} ELSE {} }
  \cup { <<"CONF", a.op \o ":" \o a.by \o ":" \o a.tgt \o ":" \o E.res \o "/" \o res>> : x \in IF E.res = res /\ E.S = post THEN {} ELSE {1} }

Report(ln, viol) == \A v \in viol : PrintT(<<"MONFAIL", ln.tr, ln.i, v>>)

Sanity0(ln) == { <<"X", "initial-configuration-not-as-specified">> : x \in
                   IF StateOf(ln.st) = InitS /\ ln.st.creator = "creator" THEN {} ELSE {1} }
\* the harness reports when it could not prepare the packet / header / misbehaviour an otherwise valid attempt needs
SanityPrep(ln) == { <<"X", "preparation-failed">> : x \in IF "prep" \in DOMAIN ln /\ ln.prep # "" THEN {1} ELSE {} }

OneLine == Len(Trace) = 1 => PrintT(<<"CONSUMED", 1>>)

TraceInit == l = 1 /\ S = StateOf(Trace[1].st) /\ obs = ObsOf(Trace[1].st) /\ Report(Trace[1], Sanity0(Trace[1])) /\ OneLine

TraceNext ==
    /\ l < Len(Trace)
    /\ LET ln == Trace[l + 1] IN
       IF ln.a.op = "Init"
       THEN S' = StateOf(ln.st) /\ obs' = ObsOf(ln.st) /\ l' = l + 1 /\ Report(ln, Sanity0(ln) \cup SanityPrep(ln))
       ELSE /\ Report(ln, Viol(S, ln.a, ln.res, StateOf(ln.st), obs, ObsOf(ln.st)) \cup SanityPrep(ln))
            /\ S' = StateOf(ln.st) /\ obs' = ObsOf(ln.st) /\ l' = l + 1
    /\ (l + 1 = Len(Trace) => PrintT(<<"CONSUMED", l + 1>>))

TraceSpec == TraceInit /\ [][TraceNext]_<<l, S, obs>>
=============================================================================
