--------------------------- MODULE Trace_CallbacksFn ---------------------------
(***************************************************************************)
(* Function-level part of C40: types.GetCallbackData evaluated on every    *)
(* (remaining, user, max) triple.  Values are RANKS in an increasing scale *)
(* chosen by the harness (several scales incl. 2^53 and 2^64-1 boundaries);*)
(* min / <= / = commute with any increasing scale, so the specification's  *)
(* operators are evaluated on the ranks and compared with the ranks of the *)
(* values the real function returned (-1 = not a value of the scale).      *)
(***************************************************************************)
EXTENDS Callbacks, Json

CONSTANT TraceFile

Trace == ndJsonDeserialize(TraceFile)

VARIABLE l

Viol(ln) ==
  LET c == CommitLimit(ln.user, ln.max)
      e == ExecLimit(ln.rem, ln.user, ln.max)
  IN
     { <<"C40", "fn-exec-limit-not-above-min-of-remaining-and-capped-user-limit">> : x \in
         IF ln.res = "ok" /\ (ln.exec = -1 \/ ln.exec > e) THEN {1} ELSE {} }
  \cup { <<"C40", "fn-commit-limit-is-user-limit-capped-at-max">> : x \in
         IF ln.res = "ok" /\ ln.commit # c THEN {1} ELSE {} }
  \cup { <<"C40", "fn-retry-exactly-when-remaining-below-commit">> : x \in
         IF ln.res = "ok" /\ ln.retry # Retryable(ln.rem, ln.user, ln.max) THEN {1} ELSE {} }
  \cup { <<"CONF", "GetCallbackData">> : x \in IF ln.res = "ok" /\ ln.exec = e /\ ln.commit = c THEN {} ELSE {1} }

Report(ln, viol) == \A v \in viol : PrintT(<<"MONFAIL", ln.tr, ln.i, v>>)

TraceInit == l = 1 /\ Report(Trace[1], Viol(Trace[1]))
             /\ (Len(Trace) = 1 => PrintT(<<"CONSUMED", 1>>))
TraceNext == /\ l < Len(Trace)
             /\ Report(Trace[l + 1], Viol(Trace[l + 1]))
             /\ l' = l + 1
             /\ (l + 1 = Len(Trace) => PrintT(<<"CONSUMED", l + 1>>))
TraceSpec == TraceInit /\ [][TraceNext]_l
=============================================================================
