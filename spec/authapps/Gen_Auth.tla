------------------------------ MODULE Gen_Auth ------------------------------
(* Case generation for C46: every transition (pre-state, action) of the     *)
(* Auth state graph, each with the canonical path that puts the real chain  *)
(* into the pre-state.  FULLGRAPH = FALSE keeps, for every action, only the  *)
(* pre-states that differ from the initial one in components the action's    *)
(* outcome depends on (quick tier).  Written once with JsonSerialize.        *)
EXTENDS Auth, Json, SequencesExt

CONSTANTS FULLGRAPH, OutFile

VARIABLE x

Cases == { [pre |-> s, path |-> CanonPath(s), act |-> a, exp |-> Step(s, a).res] :
             s \in AllStates, a \in { b \in Acts : TRUE } }
Wanted == { c \in Cases : FULLGRAPH \/ AtDefaultOutside(c.pre, Relevant(c.act)) }

Init == /\ x = 0
        /\ PathsSound
        /\ JsonSerialize(OutFile, SetToSeq(Wanted))
        /\ PrintT(<<"CASES", Cardinality(Wanted), "STATES", Cardinality(AllStates), "ACTS", Cardinality(Acts)>>)
Next == UNCHANGED x
Spec == Init /\ [][Next]_x
=============================================================================
