-------------------------------- MODULE Auth --------------------------------
(***************************************************************************)
(* Who may do what in ibc-go (C46).  One chain "A"; the client under test  *)
(* "cl" is a fresh 07-tendermint client of chain B created by the signer   *)
(* class "creator"; "cl0" is a long-lived client (also created by          *)
(* "creator") that underlies the v1 channel channel-0, whose identifier is *)
(* usable as an IBC v2 ALIAS.                                              *)
(*                                                                         *)
(* Code: modules/core/keeper/msg_server.go (CreateClient, RegisterCounter-  *)
(* party, UpdateClient, RecoverClient, IBCSoftwareUpgrade, UpdateClient-   *)
(* Params, UpdateConnectionParams, UpdateClientConfig, DeleteClientCreator),*)
(* modules/core/04-channel/v2/keeper/msg_server.go (RecvPacket, Acknow-    *)
(* ledgement, Timeout: config.IsAllowedRelayer), 02-client/keeper Route     *)
(* (IsAllowedClient), UpdateParams of transfer / ICA host / ICA controller, *)
(* rate-limiting Add/Update/Remove/ResetRateLimit.                          *)
(*                                                                         *)
(* Step(S, a) -> [res, S] is total; a = [op, by, tgt, val]:                *)
(*   by  \in Signers  the class of the account that signs the transaction  *)
(*   tgt \in {"cl","cl0","-"}   client addressed (relay: "cl" = by client  *)
(*                              id, "cl0" = through the alias channel-0)   *)
(*   val  operation parameter ("-" when none)                              *)
(*                                                                         *)
(* State                                                                   *)
(*   creator : a creator is recorded for cl (deleted by DeleteClientCreator)*)
(*   cp      : cl has a registered v2 counterparty                         *)
(*   rel     : cl's  config has the non-empty allow list {relayer}         *)
(*   rel0    : cl0's config has the non-empty allow list {relayer}         *)
(*   allowed : 07-tendermint is in the allowed-clients parameter           *)
(*   rl      : a rate limit exists for (bond denomination, channel-0)      *)
(***************************************************************************)
EXTENDS Integers, Sequences, FiniteSets, TLC

Signers == {"authority", "creator", "relayer", "stranger"}

InitS == [creator |-> TRUE, cp |-> FALSE, rel |-> FALSE, rel0 |-> FALSE, allowed |-> TRUE, rl |-> FALSE]
AllStates == [creator : BOOLEAN, cp : BOOLEAN, rel : BOOLEAN, rel0 : BOOLEAN, allowed : BOOLEAN, rl : BOOLEAN]

AuthorityOps == {"RecoverClient", "IBCSoftwareUpgrade", "UpdateClientParams", "UpdateConnectionParams",
                 "TransferParams", "ICAHostParams", "ICAControllerParams", "RLAdd", "RLUpdate", "RLRemove", "RLReset"}
RelayOps == {"RecvV2", "AckV2", "TimeoutV2"}

(***************************************************************************)
(* Authorization clauses: exactly what C46 states.                         *)
(***************************************************************************)
A_Authority(a)           == a.by = "authority"
\* cl0's creator record is never deleted in this model
CreatorOf(S, tgt)        == IF tgt = "cl0" THEN TRUE ELSE S.creator
A_Creator(S, a)          == CreatorOf(S, a.tgt) /\ a.by = "creator"
A_AuthorityOrCreator(S, a) == A_Authority(a) \/ A_Creator(S, a)
ListOf(S, tgt)           == IF tgt = "cl0" THEN S.rel0 ELSE S.rel
A_ListedRelayer(S, a)    == ~ListOf(S, a.tgt) \/ a.by = "relayer"
A_ClientTypeAllowed(S)   == S.allowed
A_NotYetRegistered(S)    == ~S.cp

\* the signer/configuration part of every operation's guard: `ok => Authorized`
Authorized(S, a) ==
    CASE a.op \in AuthorityOps        -> A_Authority(a) /\ (a.op = "RecoverClient" => A_ClientTypeAllowed(S))
      [] a.op = "CreateClient"        -> A_ClientTypeAllowed(S)
      [] a.op = "RegisterCounterparty" -> A_Creator(S, a) /\ A_NotYetRegistered(S)
      [] a.op = "UpdateClientConfig"  -> A_AuthorityOrCreator(S, a)
      [] a.op = "DeleteClientCreator" -> A_AuthorityOrCreator(S, a)
      [] a.op = "UpdateClient"        -> A_ListedRelayer(S, a) /\ A_ClientTypeAllowed(S)
      [] a.op \in RelayOps            -> A_ListedRelayer(S, a) /\ A_ClientTypeAllowed(S)
      [] OTHER                        -> FALSE

(***************************************************************************)
(* Remaining (non-authorization) guards of the handlers as exercised by    *)
(* the harness, so that Step is the full expected behaviour.               *)
(***************************************************************************)
G_Other(S, a) ==
    CASE a.op = "DeleteClientCreator" -> S.creator                \* "creator for client not found"
      [] a.op \in RelayOps            -> (a.tgt = "cl" => S.cp)   \* no counterparty, no packet flow
      [] a.op = "RLAdd"               -> ~S.rl                    \* a rate limit cannot be added twice
      [] a.op \in {"RLUpdate", "RLRemove", "RLReset"} -> S.rl
      [] OTHER                        -> TRUE

Effect(S, a) ==
    CASE a.op = "RegisterCounterparty" -> [S EXCEPT !.cp = TRUE]
      [] a.op = "UpdateClientConfig"  -> IF a.tgt = "cl0" THEN [S EXCEPT !.rel0 = (a.val = "rel")] ELSE [S EXCEPT !.rel = (a.val = "rel")]
      [] a.op = "DeleteClientCreator" -> [S EXCEPT !.creator = FALSE]
      [] a.op = "UpdateClientParams"  -> [S EXCEPT !.allowed = (a.val = "all")]
      [] a.op = "RLAdd"               -> [S EXCEPT !.rl = TRUE]
      [] a.op = "RLRemove"            -> [S EXCEPT !.rl = FALSE]
      [] OTHER                        -> S

Step(S, a) == IF Authorized(S, a) /\ G_Other(S, a) THEN [res |-> "ok", S |-> Effect(S, a)] ELSE [res |-> "err", S |-> S]

(***************************************************************************)
(* All actions                                                             *)
(***************************************************************************)
Act(op, by, tgt, val) == [op |-> op, by |-> by, tgt |-> tgt, val |-> val]

Acts == UNION {
      { Act(op, by, "-", "-") : op \in AuthorityOps \ {"UpdateClientParams"} }
 \cup { Act("UpdateClientParams", by, "-", v) : v \in {"all", "solo"} }
 \cup { Act("CreateClient", by, "-", "-"), Act("RegisterCounterparty", by, "cl", "-"), Act("DeleteClientCreator", by, "cl", "-") }
 \cup { Act("UpdateClientConfig", by, t, v) : t \in {"cl", "cl0"}, v \in {"empty", "rel"} }
 \cup { Act("UpdateClient", by, t, "-") : t \in {"cl", "cl0"} }
 \cup { Act(op, by, t, "-") : op \in RelayOps, t \in {"cl", "cl0"} }
    : by \in Signers }

(***************************************************************************)
(* Canonical path from InitS to any state: used to put the real chain into *)
(* the pre-state of every transition of the graph.  The order matters:     *)
(* the counterparty is registered while the creator record still exists.   *)
(***************************************************************************)
CanonPath(s) ==
       (IF s.cp      THEN <<Act("RegisterCounterparty", "creator", "cl", "-")>> ELSE <<>>)
    \o (IF s.rel     THEN <<Act("UpdateClientConfig", "creator", "cl", "rel")>> ELSE <<>>)
    \o (IF s.rel0    THEN <<Act("UpdateClientConfig", "authority", "cl0", "rel")>> ELSE <<>>)
    \o (IF ~s.creator THEN <<Act("DeleteClientCreator", "authority", "cl", "-")>> ELSE <<>>)
    \o (IF s.rl      THEN <<Act("RLAdd", "authority", "-", "-")>> ELSE <<>>)
    \o (IF ~s.allowed THEN <<Act("UpdateClientParams", "authority", "-", "solo")>> ELSE <<>>)

RECURSIVE RunPath(_, _)
RunPath(S, p) == IF p = <<>> THEN [res |-> "ok", S |-> S]
                 ELSE LET r == Step(S, Head(p)) IN IF r.res # "ok" THEN r ELSE RunPath(r.S, Tail(p))

PathsSound == \A s \in AllStates : LET r == RunPath(InitS, CanonPath(s)) IN r.res = "ok" /\ r.S = s

\* which configuration components an operation's outcome depends on (used to thin out the quick tier:
\* the other components stay at their initial value)
Relevant(a) ==
    CASE a.op = "RegisterCounterparty" -> {"creator", "cp"}
      [] a.op = "UpdateClientConfig"   -> IF a.tgt = "cl" THEN {"creator"} ELSE {}
      [] a.op = "DeleteClientCreator"  -> {"creator"}
      [] a.op = "UpdateClient"         -> IF a.tgt = "cl" THEN {"rel", "allowed"} ELSE {"rel0", "allowed"}
      [] a.op \in RelayOps             -> IF a.tgt = "cl" THEN {"cp", "rel", "allowed"} ELSE {"rel0", "allowed"}
      [] a.op \in {"CreateClient", "RecoverClient", "UpdateClientParams"} -> {"allowed"}
      [] a.op \in {"RLAdd", "RLUpdate", "RLRemove", "RLReset"} -> {"rl"}
      [] OTHER -> {}
Fields == {"creator", "cp", "rel", "rel0", "allowed", "rl"}
AtDefaultOutside(s, F) == \A f \in Fields \ F : s[f] = InitS[f]
=============================================================================
