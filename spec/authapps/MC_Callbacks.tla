----------------------------- MODULE MC_Callbacks -----------------------------
(* Exhaustive enumeration: callback types x contract behaviours x gas triples *)
(* (remaining, user, max) over GAS^3 x acknowledgement kinds; one step each.  *)
EXTENDS Callbacks

CONSTANT MAXG      \* gas values 0..MAXG

GAS == 0..MAXG

VARIABLES S, done

Acts == { [type |-> t, beh |-> b, rem |-> r, user |-> u, max |-> m] : t \in Types, b \in Behs, r \in GAS, u \in GAS, m \in GAS \ {0} }

Kinds == <<"abortUndersupplied", "oogFullLimitAbsorbed", "sendVetoed", "sendOk", "ackFailAbsorbed", "ackRefund", "timeoutFailAbsorbed",
           "recvErrorAck", "recvOk", "writeAckFailAbsorbed", "userCapped", "userHonoured", "noUserLimit">>
Idx(name) == CHOOSE i \in DOMAIN Kinds : Kinds[i] = name
W(c, name) == IF c /\ TLCGet(Idx(name)) = 0 THEN TLCSet(Idx(name), 1) /\ PrintT(<<"WITNESS", name>>) ELSE TRUE

Witness(a, r) ==
    /\ W(Abort(a) /\ r.res = "err", "abortUndersupplied")
    /\ W(IsOog(a.beh) /\ ~Abort(a) /\ a.type = "ack" /\ r.res = "ok", "oogFullLimitAbsorbed")
    /\ W(a.type = "send" /\ Fails(a.beh) /\ r.res = "err", "sendVetoed")
    /\ W(a.type = "send" /\ r.res = "ok", "sendOk")
    /\ W(a.type = "ack" /\ a.beh = "panic" /\ r.res = "ok" /\ ~r.S.commitment, "ackFailAbsorbed")
    /\ W(a.type = "ack" /\ r.res = "ok" /\ r.S.sbal = 0, "ackRefund")
    /\ W(a.type = "timeout" /\ a.beh = "err" /\ r.res = "ok" /\ r.S.sbal = 0, "timeoutFailAbsorbed")
    /\ W(a.type = "recv" /\ Fails(a.beh) /\ r.res = "ok" /\ r.S.ack = "err" /\ r.S.rbal = 0, "recvErrorAck")
    /\ W(a.type = "recv" /\ r.res = "ok" /\ r.S.ack = "succ", "recvOk")
    /\ W(a.type = "writeAck" /\ Fails(a.beh) /\ r.res = "ok" /\ r.S.ack = "succ", "writeAckFailAbsorbed")
    /\ W(a.user > a.max /\ CommitLimit(a.user, a.max) = a.max, "userCapped")
    /\ W(a.user # 0 /\ a.user < a.max /\ CommitLimit(a.user, a.max) = a.user, "userHonoured")
    /\ W(a.user = 0 /\ CommitLimit(a.user, a.max) = a.max, "noUserLimit")

Init == /\ S \in { PreState(t, k, 0, 255) : t \in Types, k \in {"succ", "err"} }
        /\ done = FALSE
        /\ \A i \in DOMAIN Kinds : TLCSet(i, 0)
Next == /\ ~done
        /\ \E a \in Acts : G_Pre(S, a) /\ LET r == Step(S, a) IN S' = r.S /\ done' = TRUE /\ Witness(a, r)
Spec == Init /\ [][Next]_<<S, done>>

Inv == \A r \in GAS, u \in GAS, m \in GAS \ {0} : GasSane(r, u, m)

\* the lifecycle properties C40 states, as action properties of the design
SourceLifecycleStands == [][\A a \in Acts : (a.type \in {"ack", "timeout"} /\ G_Pre(S, a) /\ Step(S, a).S = S' /\ ~Abort(a))
                               => (~S'.commitment /\ (Fails(a.beh) => S'.cntA = S.cntA))]_<<S, done>>
AbortChangesNothing   == [][\A a \in Acts : (G_Pre(S, a) /\ Abort(a) /\ Step(S, a).S = S') => S' = S]_<<S, done>>
=============================================================================
