---------------------------- MODULE Trace_Callbacks ----------------------------
(***************************************************************************)
(* Validation of the transaction-level C40 replay (harness/authapps,       *)
(* TestDriveCallbacks).  Two lines per case:                               *)
(*   Init  : the projected state right before the transaction under test   *)
(*   act   : the transaction (type, contract behaviour, user limit, max,   *)
(*           tx gas limit), its result class, what was OBSERVED of the     *)
(*           callback (obs: contract entered?, gas limit of its context,   *)
(*           gas remaining in the transaction when it was reached, gas     *)
(*           charged for it) and the projected state after it.             *)
(* The specification's action is completed with the observed remaining gas.*)
(***************************************************************************)
EXTENDS Callbacks, Json, SequencesExt

CONSTANT TraceFile

Trace == ndJsonDeserialize(TraceFile)

VARIABLES l, S, dig

StateOf(j) == [commitment |-> j.commitment, sbal |-> j.sbal, esc |-> j.esc, receipt |-> j.receipt, ack |-> j.ack, rbal |-> j.rbal,
               cntA |-> j.cntA, cntB |-> j.cntB]
DigOf(j)   == [A |-> j.digA, B |-> j.digB]

ActOf(ln)  == [type |-> ln.a.type, beh |-> ln.a.beh, rem |-> ln.obs.rem, user |-> ln.a.user, max |-> ln.a.max]

Viol(pre, ln, post, d0, d1) ==
  LET a   == ActOf(ln)
      o   == ln.obs
      res == ln.res
      ok  == res = "ok"
      E   == Step(pre, a)
      lim == ExecLimit(a.rem, a.user, a.max)
      src == a.type \in {"ack", "timeout"}
      absorbed == o.called /\ Fails(a.beh) /\ ~Abort(a)      \* the callback failed but not through an under-supplied out-of-gas
      unchanged == post = pre /\ d1 = d0
  IN
     { <<"C40", "callback-gas-limit-within-min-of-remaining-and-capped-user-limit">> : x \in
         IF o.called /\ o.lim > lim THEN {1} ELSE {} }
  \cup { <<"C40", "callback-gas-charged-within-limit">> : x \in
         IF o.called /\ o.charged > lim THEN {1} ELSE {} }
  \cup { <<"C40", "source-callback-failure-keeps-ack-or-timeout-and-app-effects">> : x \in
         IF src /\ absorbed
            /\ ~(ok /\ ~post.commitment /\ post.sbal = Effect(pre, a).sbal /\ post.esc = Effect(pre, a).esc) THEN {1} ELSE {} }
  \cup { <<"C40", "failed-callback-state-changes-discarded">> : x \in
         IF o.called /\ Fails(a.beh) /\ ~(post.cntA = pre.cntA /\ post.cntB = pre.cntB) THEN {1} ELSE {} }
  \cup { <<"C40", "undersupplied-out-of-gas-aborts-whole-transaction">> : x \in
         IF o.called /\ Abort(a) /\ ~(~ok /\ unchanged) THEN {1} ELSE {} }
  \cup { <<"C40", "destination-callback-failure-gives-error-ack-without-app-change">> : x \in
         IF a.type = "recv" /\ absorbed
            /\ ~(ok /\ post.receipt /\ post.ack = "err" /\ post.rbal = pre.rbal) THEN {1} ELSE {} }
  \cup { <<"C40", "async-ack-callback-failure-keeps-acknowledgement">> : x \in
         IF a.type = "writeAck" /\ absorbed /\ ~(ok /\ post.ack = "succ") THEN {1} ELSE {} }
  \cup { <<"C40", "send-callback-failure-rejects-send">> : x \in
         IF a.type = "send" /\ o.called /\ Fails(a.beh) /\ ~(~ok /\ unchanged) THEN {1} ELSE {} }
  \cup { <<"C40", "failed-transaction-changes-nothing">> : x \in IF ~ok /\ ~unchanged THEN {1} ELSE {} }
  \* harness sanity: the driver must have reached the callback exactly once, in the intended gas class
  \cup { <<"X", "callback-not-reached-once">> : x \in IF o.calls = 1 THEN {} ELSE {1} }
  \cup { <<"X", "gas-class-missed">> : x \in
         IF o.called /\ (((ln.a.remcls = "below") # Retryable(a.rem, a.user, a.max))
                         \/ (ln.a.remcls = "ample" /\ a.rem < a.user)) THEN {1} ELSE {} }
  \cup { <<"X", "pre-state-not-as-specified">> : x \in IF G_Pre(pre, a) THEN {} ELSE {1} }
  \cup { <<"CONF", a.type \o ":" \o a.beh \o ":" \o ln.a.proto \o ":" \o E.res \o "/" \o res>> : x \in
         IF E.res = res /\ E.S = post /\ (o.called => o.lim = lim) THEN {} ELSE {1} }

Report(ln, viol) == \A v \in viol : PrintT(<<"MONFAIL", ln.tr, ln.i, v>>)

SanityInit(ln) == { <<"X", "preparation-failed">> : x \in IF ln.prep = "" THEN {} ELSE {1} }

OneLine == Len(Trace) = 1 => PrintT(<<"CONSUMED", 1>>)

TraceInit == l = 1 /\ S = StateOf(Trace[1].st) /\ dig = DigOf(Trace[1].st) /\ Report(Trace[1], SanityInit(Trace[1])) /\ OneLine

TraceNext ==
    /\ l < Len(Trace)
    /\ LET ln == Trace[l + 1] IN
       IF ln.a.type = "Init"
       THEN S' = StateOf(ln.st) /\ dig' = DigOf(ln.st) /\ l' = l + 1 /\ Report(ln, SanityInit(ln))
       ELSE /\ Report(ln, Viol(S, ln, StateOf(ln.st), dig, DigOf(ln.st)))
            /\ S' = StateOf(ln.st) /\ dig' = DigOf(ln.st) /\ l' = l + 1
    /\ (l + 1 = Len(Trace) => PrintT(<<"CONSUMED", l + 1>>))

TraceSpec == TraceInit /\ [][TraceNext]_<<l, S, dig>>
=============================================================================
