-------------------------- MODULE MC_TransferAuthz --------------------------
(* Exhaustive model check of TransferAuthz: every grant over the constants  *)
(* below crossed with every sequence of grantee requests (sequences end by  *)
(* themselves: every accepted transfer strictly decreases the granter's     *)
(* balance).  Rejected requests leave the state unchanged and are evaluated *)
(* for their vacuity witnesses only.                                        *)
EXTENDS TransferAuthz

CONSTANTS MAXLIM, BALS, MAXAMT, RCVS, MEMOS, FULL, C1MODE

LIMS == (0..MAXLIM) \cup {INF}
AMTS == (1..MAXAMT) \cup {SENT}

ALLOWS    == IF FULL THEN {{}, {"r1"}, {"r1", "r2"}} ELSE {{}, {"r1"}}
MEMOLISTS == IF FULL THEN {{}, {"*"}, {"m1"}, {"m1", "*"}} ELSE {{}, {"*"}, {"m1"}}

VARIABLES S, init, moved

R    == Reqs(AMTS, RCVS, MEMOS)
Acts == Exec1(R) \cup (IF FULL THEN {} ELSE {})
\* a small set of two-transfer executions (same channel/denomination twice, and across denominations)
Acts2 == { [a |-> "Exec", reqs |-> <<r1, r2>>] :
             r1 \in { q \in R : q.rcv = "r1" /\ q.memo = "" /\ q.denom = "x" },
             r2 \in { q \in R : q.rcv = "r1" /\ q.memo = "" /\ q.ch = "c0" } }

Kinds == <<"ok", "okSentinelUnbounded", "okUnboundedKeepsLimit", "allocRemoved", "grantDeleted", "rejNoAlloc", "rejReceiver",
           "rejMemo", "rejOverLimit", "rejSentinelBounded", "rejFunds", "batchOk", "batchRevert", "partialDenomLeft">>
Idx(name) == CHOOSE i \in DOMAIN Kinds : Kinds[i] = name
W(name) == IF TLCGet(Idx(name)) = 0 THEN TLCSet(Idx(name), 1) /\ PrintT(<<"WITNESS", name>>) ELSE TRUE
WIf(cond, name) == IF cond THEN W(name) ELSE TRUE

Witness(a, r) ==
    LET q == a.reqs[1]  one == Len(a.reqs) = 1 IN
    /\ WIf(one /\ r.res = "ok", "ok")
    /\ WIf(one /\ r.res = "ok" /\ q.amt = SENT, "okSentinelUnbounded")
    /\ WIf(one /\ r.res = "ok" /\ Remaining(S, q) = INF /\ r.S.al[q.ch].lim[q.denom] = INF, "okUnboundedKeepsLimit")
    /\ WIf(one /\ r.res = "ok" /\ ~r.S.al[q.ch].on /\ r.S.grant, "allocRemoved")
    /\ WIf(one /\ r.res = "ok" /\ ~r.S.grant, "grantDeleted")
    /\ WIf(one /\ r.res = "ok" /\ r.S.al[q.ch].on /\ r.S.al[q.ch].lim[q.denom] = 0, "partialDenomLeft")
    /\ WIf(one /\ r.res = "err" /\ ~G_AllocExists(S, q), "rejNoAlloc")
    /\ WIf(one /\ r.res = "err" /\ G_AllocExists(S, q) /\ ~G_ReceiverAllowed(S, q), "rejReceiver")
    /\ WIf(one /\ r.res = "err" /\ G_AllocExists(S, q) /\ G_ReceiverAllowed(S, q) /\ ~G_MemoAllowed(S, q), "rejMemo")
    /\ WIf(one /\ r.res = "err" /\ G_AllocExists(S, q) /\ q.amt # SENT /\ ~G_WithinLimit(S, q), "rejOverLimit")
    /\ WIf(one /\ r.res = "err" /\ G_AllocExists(S, q) /\ q.amt = SENT /\ ~G_WithinLimit(S, q), "rejSentinelBounded")
    /\ WIf(one /\ r.res = "err" /\ Accepts(S, q) /\ ~G_Funds(S, q), "rejFunds")
    /\ WIf(~one /\ r.res = "ok", "batchOk")
    /\ WIf(~one /\ r.res = "err" /\ One(S, q).res = "ok", "batchRevert")

\* the two allocations are handled independently by the code (looked up by channel): c0 ranges over all
\* allocations, c1 over a family chosen by C1MODE
C1Small == { [on |-> TRUE, lim |-> l, allow |-> {}, memos |-> {}] :
               l \in { [d \in Denoms |-> IF d = "x" THEN 1 ELSE 0], [d \in Denoms |-> IF d = "x" THEN INF ELSE 0],
                       [d \in Denoms |-> 1] } }
C1Allocs == IF C1MODE = "full" THEN Allocs(LIMS, ALLOWS, MEMOLISTS)
            ELSE IF C1MODE = "nolists" THEN Allocs(LIMS, {{}}, {{}}) ELSE C1Small
InitStates == { g \in Grants(LIMS, ALLOWS, MEMOLISTS, BALS) : g.al["c1"] \in C1Allocs \cup {Off} }

Init == /\ S \in InitStates
        /\ init = S
        /\ moved = ZeroMoved
        /\ \A i \in DOMAIN Kinds : TLCSet(i, 0)

Next == \E a \in Acts \cup Acts2 :
          LET r == Step(S, a) IN
          /\ Witness(a, r)
          /\ S' = r.S
          /\ init' = init
          /\ moved' = IF r.res = "ok" THEN AddMoved(moved, MovedBy(S, a.reqs)) ELSE moved

Spec == Init /\ [][Next]_<<S, init, moved>>

\* ---- invariants (C36) ----
TypeOK == /\ S.grant \in BOOLEAN
          /\ \A c \in Chans : \A d \in Denoms : S.al[c].lim[d] >= INF
          /\ \A d \in Denoms : S.bal[d] >= 0
Inv == /\ TypeOK
       /\ I_MovedWithinGrant(init, moved)
       /\ I_Conserved(init, S, moved)
       \* the granter's funds move only by what was counted
       /\ \A d \in Denoms : init.bal[d] - S.bal[d] = moved["c0"][d] + moved["c1"][d]
       \* canonical form: no stored allocation without a limit; grant exists iff some allocation does
       /\ \A c \in Chans : S.al[c].on => ~Exhausted(S.al[c].lim)
       /\ S.grant = (\E c \in Chans : S.al[c].on)

\* ---- action properties ----
\* limits never grow, lists never change while the allocation exists, an unbounded limit stays unbounded
LimitsOnlyShrink == [][\A c \in Chans : \A d \in Denoms :
                          /\ (S.al[c].lim[d] = INF /\ S'.al[c].on) => S'.al[c].lim[d] = INF
                          /\ S.al[c].lim[d] # INF => (S'.al[c].lim[d] # INF /\ S'.al[c].lim[d] <= S.al[c].lim[d])]_<<S, init, moved>>
ListsFixed == [][\A c \in Chans : S'.al[c].on => (S'.al[c].allow = S.al[c].allow /\ S'.al[c].memos = S.al[c].memos)]_<<S, init, moved>>
NoResurrection == [][\A c \in Chans : ~S.al[c].on => ~S'.al[c].on]_<<S, init, moved>>
=============================================================================
