----------------------------- MODULE Gen_Callbacks -----------------------------
(* Case generation for C40 (full enumeration, serialised once):               *)
(*  TxCases  transaction-level: callback type x contract behaviour x protocol  *)
(*           x user-limit class x relayer gas class (below / above the         *)
(*           committed limit; "ample" = above the REQUESTED limit where that   *)
(*           exceeds the chain maximum, i.e. max < user <= remaining)          *)
(*           x acknowledgement kind;                                           *)
(*  FnCases  function-level: every (remaining, user, max) triple over 0..MAXG  *)
(*           as abstract ranks; the harness instantiates each rank with the    *)
(*           values of several increasing scales (incl. 64-bit boundaries)     *)
(*           and calls types.GetCallbackData.                                  *)
EXTENDS Callbacks, Json, SequencesExt

CONSTANTS FULL, MAXG, TxFile, FnFile

VARIABLE x

Protos == {"v1", "v2"}
\* user-limit classes: none (three encodings), below max, equal to max, above max
UserClasses == IF FULL THEN {"absent", "empty", "zero", "lo", "eq", "eqp1", "hi"} ELSE {"absent", "zero", "lo", "eq", "hi"}
RemClasses == {"below", "above", "ample"}
\* "ample" differs from "above" only when the requested limit exceeds the maximum
AboveMax == {"eqp1", "hi"}

TxCases ==
    { [type |-> t, beh |-> b, proto |-> p, user |-> u, remcls |-> rc, ackKind |-> k] :
        t \in Types, b \in Behs, p \in Protos, u \in UserClasses, rc \in RemClasses, k \in {"succ", "err"} }
TxWanted == { c \in TxCases :
                /\ (c.type # "ack" => c.ackKind = "succ")
                /\ (c.remcls = "ample" => c.user \in AboveMax)
                /\ (c.type = "writeAck" => c.proto = "v1")              \* asynchronous acknowledgement: v1 stack only (see docs)
                /\ (~FULL => (c.proto = "v2" => c.user \in {"absent", "lo", "hi"})) }

FnCases == { [rem |-> r, user |-> u, max |-> m] :
               r \in 0..MAXG, u \in 0..MAXG, m \in 0..MAXG }

Init == /\ x = 0
        /\ JsonSerialize(TxFile, SetToSeq(TxWanted))
        /\ JsonSerialize(FnFile, SetToSeq(FnCases))
        /\ PrintT(<<"CASES", Cardinality(TxWanted), Cardinality(FnCases)>>)
Next == UNCHANGED x
Spec == Init /\ [][Next]_x
=============================================================================
