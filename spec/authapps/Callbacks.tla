------------------------------ MODULE Callbacks ------------------------------
(***************************************************************************)
(* ADR-8 callbacks middleware of ibc-go (modules/apps/callbacks):          *)
(*   types/callbacks.go  computeExecAndCommitGasLimit / GetCallbackData    *)
(*   internal/process.go ProcessCallback (cached context, limited gas      *)
(*                       meter, recover, AllowRetry)                       *)
(*   ibc_middleware.go, v2/ibc_middleware.go  SendPacket / OnAcknowledge-  *)
(*                       mentPacket / OnTimeoutPacket / OnRecvPacket /     *)
(*                       WriteAcknowledgement                              *)
(* wrapped around the ICS-20 transfer application.                         *)
(*                                                                         *)
(* An action is ONE transaction that triggers ONE callback:                *)
(*   a = [type, beh, rem, user, max]                                       *)
(*   type \in Types   which callback the transaction triggers              *)
(*   beh  \in Behs    what the contract does                               *)
(*   rem   gas remaining in the transaction when the callback is reached   *)
(*   user  gas limit requested in the packet memo (0 = none)               *)
(*   max   the chain's maxCallbackGas                                      *)
(*                                                                         *)
(* State (one transfer of AMT tokens from a sender on A to a receiver on B):*)
(*   commitment : the packet commitment exists on A                        *)
(*   sbal       : sender's balance relative to before the send             *)
(*   esc        : escrow account balance relative to before the send       *)
(*   receipt    : B has received the packet                                *)
(*   ack        : acknowledgement written on B: "none" | "succ" | "err"    *)
(*   rbal       : vouchers minted to the receiver                          *)
(*   cntA, cntB : the contract's own state (a counter it increments on     *)
(*                every call) on A and B, modulo 256                       *)
(***************************************************************************)
EXTENDS Integers, Sequences, FiniteSets, TLC

Types == {"send", "ack", "timeout", "recv", "writeAck"}
Behs  == {"ok", "err", "panic", "oog", "oogerr"}   \* oogerr: the contract swallows its own out-of-gas panic and returns an error
AMT   == 100

MinOf2(x, y) == IF x <= y THEN x ELSE y

(***************************************************************************)
(* Gas limits                                                              *)
(***************************************************************************)
CommitLimit(user, max)    == IF user = 0 \/ user > max THEN max ELSE user
ExecLimit(rem, user, max) == MinOf2(rem, CommitLimit(user, max))
Retryable(rem, user, max) == ExecLimit(rem, user, max) < CommitLimit(user, max)

IsOog(b)  == b \in {"oog", "oogerr"}
Fails(b)  == b # "ok"

\* out of gas only because the relayer supplied less than the committed limit: the whole transaction aborts
Abort(a) == IsOog(a.beh) /\ Retryable(a.rem, a.user, a.max)
\* a send callback may veto the send; every other callback failure is absorbed
TxOk(a)  == ~Abort(a) /\ (a.type = "send" => ~Fails(a.beh))

Inc(c) == (c + 1) % 256

(***************************************************************************)
(* Step                                                                    *)
(***************************************************************************)
G_Pre(S, a) ==
    CASE a.type = "send"     -> ~S.commitment
      [] a.type = "ack"      -> S.commitment /\ S.ack # "none"
      [] a.type = "timeout"  -> S.commitment /\ ~S.receipt
      [] a.type = "recv"     -> S.commitment /\ ~S.receipt
      [] a.type = "writeAck" -> S.ack = "none"

Effect(S, a) ==
    CASE a.type = "send"    -> [S EXCEPT !.commitment = TRUE, !.sbal = @ - AMT, !.esc = @ + AMT, !.cntA = Inc(@)]
      [] a.type = "ack"     -> [S EXCEPT !.commitment = FALSE,
                                         !.sbal = IF S.ack = "err" THEN @ + AMT ELSE @,       \* refund on error acknowledgement
                                         !.esc  = IF S.ack = "err" THEN @ - AMT ELSE @,
                                         !.cntA = IF Fails(a.beh) THEN @ ELSE Inc(@)]
      [] a.type = "timeout" -> [S EXCEPT !.commitment = FALSE, !.sbal = @ + AMT, !.esc = @ - AMT,
                                         !.cntA = IF Fails(a.beh) THEN @ ELSE Inc(@)]
      [] a.type = "recv"    -> IF Fails(a.beh)
                               THEN [S EXCEPT !.receipt = TRUE, !.ack = "err"]                \* receive reverted, error ack
                               ELSE [S EXCEPT !.receipt = TRUE, !.ack = "succ", !.rbal = @ + AMT, !.cntB = Inc(@)]
      [] a.type = "writeAck" -> [S EXCEPT !.ack = "succ", !.cntB = IF Fails(a.beh) THEN @ ELSE Inc(@)]

Step(S, a) == IF G_Pre(S, a) /\ TxOk(a) THEN [res |-> "ok", S |-> Effect(S, a)] ELSE [res |-> "err", S |-> S]

\* the situation each transaction type starts from (ackKind: what B acknowledged)
PreState(type, ackKind, cA, cB) ==
    LET base == [commitment |-> TRUE, sbal |-> 0 - AMT, esc |-> AMT, receipt |-> FALSE, ack |-> "none", rbal |-> 0, cntA |-> cA, cntB |-> cB] IN
    CASE type = "send"     -> [base EXCEPT !.commitment = FALSE, !.sbal = 0, !.esc = 0]
      [] type = "ack"      -> [base EXCEPT !.receipt = TRUE, !.ack = ackKind, !.rbal = IF ackKind = "succ" THEN AMT ELSE 0]
      [] type = "timeout"  -> base
      [] type = "recv"     -> base
      [] type = "writeAck" -> [base EXCEPT !.receipt = TRUE]

(***************************************************************************)
(* Invariants of the gas arithmetic (checked exhaustively by MC_Callbacks) *)
(***************************************************************************)
GasSane(rem, user, max) ==
    /\ ExecLimit(rem, user, max) <= rem
    /\ ExecLimit(rem, user, max) <= CommitLimit(user, max)
    /\ CommitLimit(user, max) <= max
    /\ (user # 0 /\ user <= max => CommitLimit(user, max) = user)
    /\ (~Retryable(rem, user, max) <=> rem >= CommitLimit(user, max))
=============================================================================
