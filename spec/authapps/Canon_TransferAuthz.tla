------------------------- MODULE Canon_TransferAuthz -------------------------
(***************************************************************************)
(* Always-run directed schedules for C36 (written once with JsonSerialize, *)
(* same shape as the walks of Sched_TransferAuthz).  The random walks hit   *)
(* the boundary situations below only with some probability; here every    *)
(* one of them is visited on every run, for a fixed family of grants:      *)
(*   - single / two allocations, one / two denominations per allocation,   *)
(*     bounded, absent (0) and unbounded (INF) limits MIXED inside one     *)
(*     allocation, equal limits on both channels, allow / memo lists of    *)
(*     every class;                                                        *)
(* and for every (channel, denomination) of the grant a TOUR computed from  *)
(* the specification's own state (Step):                                   *)
(*     1 partial spend (1 token, listed receiver, allowed memo)            *)
(*     2 the same to a receiver that is on no list                         *)
(*     3 the same with a memo that is on no list                           *)
(*     4 a two-transfer MsgExec that exceeds the remaining limit by one    *)
(*     5 EXACTLY the remaining limit (allocation / grant disappears, the   *)
(*       other allocation must stay)                                       *)
(*     6 the same request again (now against the exhausted limit)          *)
(*     7 the entire-balance sentinel against the bounded / absent limit    *)
(* followed by the sentinel on every limit that is still unbounded.        *)
(* The tour is a function of the grant: it is the class "spend up to the   *)
(* boundary, then try to go on", not a particular defect.                   *)
(***************************************************************************)
EXTENDS TransferAuthz, Json, SequencesExt

CONSTANT OutFile

VARIABLE x

Alloc(lx, ly, allow, memos) ==
    [on |-> TRUE, lim |-> [d \in Denoms |-> IF d = "x" THEN lx ELSE ly], allow |-> allow, memos |-> memos]
Grant(a0, a1, b) == [grant |-> TRUE, al |-> [c \in Chans |-> IF c = "c0" THEN a0 ELSE a1], bal |-> [d \in Denoms |-> b]]

BAL == 40

CanonGrants == <<
    Grant(Alloc(2, 0, {}, {}),                  Off,                                BAL),   \* one allocation, one denomination
    Grant(Alloc(2, 0, {"r1"}, {"m1"}),          Alloc(1, 0, {}, {}),                BAL),   \* exhausted while the other stays
    Grant(Alloc(2, INF, {"r1"}, {}),            Off,                                BAL),   \* bounded and unbounded mixed
    Grant(Alloc(INF, 2, {}, {"m1"}),            Alloc(INF, 0, {}, {}),              BAL),
    Grant(Alloc(3, 3, {"r1", "r2"}, {"*"}),     Alloc(2, 2, {"r1"}, {"m1"}),        BAL),
    Grant(Alloc(INF, 0, {"r1"}, {"m1sp"}),      Alloc(0, 1, {}, {}),                BAL),
    Grant(Alloc(1, 0, {}, {"ws"}),              Alloc(1, INF, {"r1"}, {}),          BAL),
    Grant(Alloc(3, 1, {}, {}),                  Alloc(3, 1, {}, {}),                BAL),   \* equal limits on both channels
    Grant(Off,                                  Alloc(2, 1, {"r2"}, {"m1", "m2"}),  BAL) >>

Rq(c, d, amt, rcv, memo) == [ch |-> c, denom |-> d, amt |-> amt, rcv |-> rcv, memo |-> memo]
Ex(rs) == [a |-> "Exec", reqs |-> rs]

GoodRcv(A)  == IF A.allow = {} THEN "r2" ELSE CHOOSE r \in A.allow : TRUE
GoodMemo(A) == IF A.memos = {} THEN ""
               ELSE IF A.memos = {"*"} THEN "m1"
               ELSE CHOOSE m \in A.memos : m # "*"

\* the tour of one (channel, denomination), from the specification state S0: [acts, S]
PairTour(S0, c, d) ==
    LET A    == S0.al[c]
        g    == GoodRcv(A)
        m    == GoodMemo(A)
        rem0 == A.lim[d]
        a1   == Ex(<<Rq(c, d, 1, g, m)>>)
        S1   == Step(S0, a1).S
        a2   == Ex(<<Rq(c, d, 1, "r3", m)>>)
        S2   == Step(S1, a2).S
        a3   == Ex(<<Rq(c, d, 1, g, "m2")>>)
        S3   == Step(S2, a3).S
        rem3 == S3.al[c].lim[d]
        k    == IF rem3 = INF \/ rem3 = 0 THEN 2 ELSE rem3
        a4   == Ex(<<Rq(c, d, 1, g, m), Rq(c, d, k, g, m)>>)
        S4   == Step(S3, a4).S
        a5   == Ex(<<Rq(c, d, k, g, m)>>)
        S5   == Step(S4, a5).S
        S6   == Step(S5, a5).S
        a7   == Ex(<<Rq(c, d, SENT, g, m)>>)
    IN IF ~A.on THEN [acts |-> <<a1>>, S |-> S1]                                   \* no allocation for this channel: one attempt
       ELSE IF rem0 = 0 THEN [acts |-> <<a1, a7>>, S |-> Step(S1, a7).S]             \* denomination absent from the limit
       ELSE IF rem0 = INF THEN [acts |-> <<a1, a2, a3, a4, a5, a5>>, S |-> S6]
       ELSE [acts |-> <<a1, a2, a3, a4, a5, a5, a7>>, S |-> Step(S6, a7).S]

Pairs == << <<"c0", "x">>, <<"c0", "y">>, <<"c1", "x">>, <<"c1", "y">> >>

RECURSIVE Tours(_, _)
Tours(S0, ps) == IF ps = <<>> THEN [acts |-> <<>>, S |-> S0]
                 ELSE LET t == PairTour(S0, Head(ps)[1], Head(ps)[2])
                          r == Tours(t.S, Tail(ps))
                      IN [acts |-> t.acts \o r.acts, S |-> r.S]

\* finally the sentinel on whatever is still unbounded (moves the whole balance, the limit stays)
RECURSIVE Drain(_, _)
Drain(S0, ps) == IF ps = <<>> THEN <<>>
                 ELSE LET c == Head(ps)[1]  d == Head(ps)[2]  A == S0.al[c] IN
                      IF A.on /\ A.lim[d] = INF
                      THEN LET a == Ex(<<Rq(c, d, SENT, GoodRcv(A), GoodMemo(A))>>) IN <<a>> \o Drain(Step(S0, a).S, Tail(ps))
                      ELSE Drain(S0, Tail(ps))

Schedule(g) == LET t == Tours(g, Pairs) IN
    [grant |-> [al |-> [c \in Chans |-> [on |-> g.al[c].on, lim |-> g.al[c].lim,
                                         allow |-> SetToSeq(g.al[c].allow), memos |-> SetToSeq(g.al[c].memos)]],
                bal |-> g.bal],
     acts |-> t.acts \o Drain(t.S, Pairs)]

Scheds == [i \in DOMAIN CanonGrants |-> Schedule(CanonGrants[i])]

\* the directed schedules must reach what they are for, according to the specification (vacuity)
RECURSIVE Outcomes(_, _, _)
Outcomes(g, S0, acts) == IF acts = <<>> THEN <<>>
                         ELSE LET r == Step(S0, Head(acts)) IN <<[g |-> g, pre |-> S0, a |-> Head(acts), r |-> r]>> \o Outcomes(g, r.S, Tail(acts))
AllOutcomes == UNION { LET os == Outcomes(CanonGrants[i], CanonGrants[i], Scheds[i].acts) IN { os[j] : j \in DOMAIN os } : i \in DOMAIN CanonGrants }
Reached ==
    /\ \E o \in AllOutcomes : o.r.res = "ok" /\ (\E c \in Chans : o.pre.al[c].on /\ ~o.r.S.al[c].on) /\ o.r.S.grant     \* exhausted, other stays
    /\ \E o \in AllOutcomes : o.r.res = "ok" /\ ~o.r.S.grant                                                          \* grant deleted
    /\ \E o \in AllOutcomes : o.r.res = "ok" /\ LET q == o.a.reqs[1] IN
            o.pre.al[q.ch].lim[q.denom] # INF /\ \E d \in Denoms : o.pre.al[q.ch].lim[d] = INF                        \* bounded spend next to an unbounded limit
    /\ \E o \in AllOutcomes : o.r.res = "err" /\ LET q == o.a.reqs[1] IN
            q.amt = SENT /\ o.pre.al[q.ch].on /\ o.pre.al[q.ch].lim[q.denom] = 0 /\ \E d \in Denoms : o.pre.al[q.ch].lim[d] = INF
    /\ \E o \in AllOutcomes : o.r.res = "err" /\ LET q == o.a.reqs[1] IN
            G_AllocExists(o.pre, q) /\ ~G_ReceiverAllowed(o.pre, q) /\ o.pre.al[q.ch].lim # o.g.al[q.ch].lim   \* outsider after a partial spend
    /\ \E o \in AllOutcomes : o.r.res = "err" /\ Len(o.a.reqs) = 2 /\ One(o.pre, o.a.reqs[1]).res = "ok"                \* batch reverted as a whole
    /\ \E o \in AllOutcomes : o.r.res = "ok" /\ o.a.reqs[1].amt = SENT

Init == /\ x = 0
        /\ Assert(Reached, "canonical schedules do not reach their targets")
        /\ JsonSerialize(OutFile, Scheds)
        /\ PrintT(<<"CANON", Len(Scheds), "ACTS", LET RECURSIVE Sum(_) Sum(i) == IF i = 0 THEN 0 ELSE Len(Scheds[i].acts) + Sum(i - 1) IN Sum(Len(Scheds))>>)
Next == UNCHANGED x
Spec == Init /\ [][Next]_x
=============================================================================
