------------------------- MODULE Trace_TransferAuthz -------------------------
(***************************************************************************)
(* Validation of traces recorded from the real x/authz + ICS-20 code       *)
(* (harness/authapps, TestDriveAuthz) against TransferAuthz.  Each line    *)
(* carries the MsgExec that was submitted (verbatim from the schedule), the *)
(* result class of the transaction and the projected state after it:       *)
(* the stored authorization (queried from the authz keeper) and the        *)
(* granter's bank balances (the oracle for "amount actually moved").       *)
(* Monitors are scoped to the statement of C36.  "X" = harness sanity,     *)
(* "CONF" = full conformance with Step (diagnostic).                       *)
(***************************************************************************)
EXTENDS TransferAuthz, Json, SequencesExt

CONSTANT TraceFile

Trace == ndJsonDeserialize(TraceFile)

VARIABLES l, S, init, moved

SetOf(arr) == { arr[i] : i \in DOMAIN arr }

AllocOf(j) == [on |-> j.on, lim |-> [d \in Denoms |-> j.lim[d]], allow |-> SetOf(j.allow), memos |-> SetOf(j.memos)]
StateOf(j) == [grant |-> j.grant, al |-> [c \in Chans |-> AllocOf(j.al[c])], bal |-> [d \in Denoms |-> j.bal[d]]]
WantOf(j)  == [grant |-> TRUE, al |-> [c \in Chans |-> AllocOf(j.al[c])], bal |-> [d \in Denoms |-> j.bal[d]]]

ReqsOf(a) == a.reqs
Idxs(a) == DOMAIN a.reqs

\* amount debited per denomination according to the bank
Debited(pre, post) == [d \in Denoms |-> pre.bal[d] - post.bal[d]]
\* amount the accepted requests name, per denomination (sentinel = whole balance at that point)
RECURSIVE Named(_, _)
Named(S0, reqs) == IF reqs = <<>> THEN [d \in Denoms |-> 0]
                   ELSE LET r == Head(reqs)  rest == Named(One(S0, r).S, Tail(reqs))
                        IN [rest EXCEPT ![r.denom] = @ + Actual(S0, r)]

Viol(pre, a, res, post, ini, mv) ==
  LET reqs == a.reqs
      E    == Step(pre, a)
      ok   == res = "ok"
      \* state before the i-th request inside the MsgExec, following the specification
      At(i) == Pre(pre, reqs, i)
      mv2  == IF ok THEN AddMoved(mv, MovedBy(pre, reqs)) ELSE mv
  IN
     { <<"C36", "accept-needs-existing-allocation">> : x \in
         IF ok /\ \E i \in Idxs(a) : ~(G_GrantExists(At(i)) /\ G_AllocExists(At(i), reqs[i])) THEN {1} ELSE {} }
  \cup { <<"C36", "accept-needs-allowed-receiver">> : x \in
         IF ok /\ \E i \in Idxs(a) : G_AllocExists(At(i), reqs[i]) /\ ~G_ReceiverAllowed(At(i), reqs[i]) THEN {1} ELSE {} }
  \cup { <<"C36", "accept-needs-allowed-memo">> : x \in
         IF ok /\ \E i \in Idxs(a) : G_AllocExists(At(i), reqs[i]) /\ ~G_MemoAllowed(At(i), reqs[i]) THEN {1} ELSE {} }
  \cup { <<"C36", "accept-within-remaining-limit">> : x \in
         IF ok /\ \E i \in Idxs(a) : reqs[i].amt # SENT /\ ~G_WithinLimit(At(i), reqs[i]) THEN {1} ELSE {} }
  \cup { <<"C36", "sentinel-never-against-bounded-limit">> : x \in
         IF ok /\ \E i \in Idxs(a) : ~G_SentinelOnlyUnbounded(At(i), reqs[i]) THEN {1} ELSE {} }
  \* effects on the stored authorization (only judged when the specification accepts as well: otherwise a
  \* guard clause above has fired already and there is no expected post-state)
  \cup { <<"C36", "remaining-decreases-exactly">> : x \in
         IF ok /\ E.res = "ok" /\ \E c \in Chans : post.al[c].on /\ E.S.al[c].on /\ post.al[c].lim # E.S.al[c].lim THEN {1} ELSE {} }
  \cup { <<"C36", "allocation-removed-exactly-when-exhausted">> : x \in
         IF ok /\ E.res = "ok" /\ \E c \in Chans : post.al[c].on # E.S.al[c].on THEN {1} ELSE {} }
  \cup { <<"C36", "grant-deleted-exactly-when-no-allocation">> : x \in
         IF ok /\ E.res = "ok" /\ post.grant # E.S.grant THEN {1} ELSE {} }
  \cup { <<"C36", "lists-unchanged">> : x \in
         IF \E c \in Chans : post.al[c].on /\ pre.al[c].on
                               /\ (post.al[c].allow # pre.al[c].allow \/ post.al[c].memos # pre.al[c].memos) THEN {1} ELSE {} }
  \cup { <<"C36", "no-allocation-appears">> : x \in
         IF \E c \in Chans : post.al[c].on /\ ~pre.al[c].on THEN {1} ELSE {} }
  \cup { <<"C36", "limits-never-grow">> : x \in
         IF \E c \in Chans : \E d \in Denoms :
               \/ (pre.al[c].lim[d] # INF /\ (post.al[c].lim[d] = INF \/ post.al[c].lim[d] > pre.al[c].lim[d]))
               \/ (pre.al[c].lim[d] = INF /\ post.al[c].on /\ post.al[c].lim[d] # INF) THEN {1} ELSE {} }
  \* the amount actually moved (bank oracle)
  \cup { <<"C36", "debited-equals-accepted-amounts">> : x \in
         IF ok /\ E.res = "ok" /\ Debited(pre, post) # Named(pre, reqs) THEN {1} ELSE {} }
  \cup { <<"C36", "moved-within-initial-limit">> : x \in
         IF \E c \in Chans : \E d \in Denoms :
               ini.al[c].lim[d] # INF /\ (ini.bal[d] - post.bal[d]) >
                    ini.al[c].lim[d] + (LET o == CHOOSE o \in Chans : o # c IN
                                         IF ini.al[o].lim[d] = INF THEN ini.bal[d] ELSE ini.al[o].lim[d])
         THEN {1} ELSE {} }
  \cup { <<"C36", "moved-per-allocation-within-initial-limit">> : x \in
         IF ok /\ E.res = "ok" /\ ~I_MovedWithinGrant(ini, mv2) THEN {1} ELSE {} }
  \cup { <<"C36", "remaining-plus-moved-is-initial">> : x \in
         IF ok /\ E.res = "ok" /\ ~I_Conserved(ini, post, mv2) THEN {1} ELSE {} }
  \cup { <<"C36", "rejected-request-changes-nothing">> : x \in
         IF ~ok /\ post # pre THEN {1} ELSE {} }
  \cup { <<"CONF", "Exec:" \o E.res \o "/" \o res>> : x \in IF E.res = res /\ E.S = post THEN {} ELSE {1} }

Report(ln, viol) == \A v \in viol : PrintT(<<"MONFAIL", ln.tr, ln.i, v>>)

Sanity0(ln) == { <<"X", "initial-grant-not-as-scheduled">> : x \in IF StateOf(ln.st) = WantOf(ln.a.want) THEN {} ELSE {1} }

OneLine == Len(Trace) = 1 => PrintT(<<"CONSUMED", 1>>)

TraceInit == /\ l = 1 /\ S = StateOf(Trace[1].st) /\ init = StateOf(Trace[1].st) /\ moved = ZeroMoved
             /\ Report(Trace[1], Sanity0(Trace[1])) /\ OneLine

TraceNext ==
    /\ l < Len(Trace)
    /\ LET ln == Trace[l + 1] IN
       IF ln.a.a = "Init"
       THEN /\ S' = StateOf(ln.st) /\ init' = StateOf(ln.st) /\ moved' = ZeroMoved /\ l' = l + 1
            /\ Report(ln, Sanity0(ln))
       ELSE LET post == StateOf(ln.st) IN
            /\ Report(ln, Viol(S, ln.a, ln.res, post, init, moved))
            /\ S' = post
            /\ init' = init
            /\ moved' = IF ln.res = "ok" /\ Step(S, ln.a).res = "ok" THEN AddMoved(moved, MovedBy(S, ln.a.reqs)) ELSE moved
            /\ l' = l + 1
    /\ (l + 1 = Len(Trace) => PrintT(<<"CONSUMED", l + 1>>))

TraceSpec == TraceInit /\ [][TraceNext]_<<l, S, init, moved>>
=============================================================================
