------------------------------ MODULE MC_Auth ------------------------------
(* Exhaustive exploration of Auth: the complete state graph (every          *)
(* configuration x every operation x every signer class), rejected          *)
(* attempts included as self-loops.                                         *)
EXTENDS Auth

CONSTANT TIER   \* unused (the graph is always explored completely); keeps the generated cfg uniform

VARIABLE S

OpSeq == <<"RecoverClient", "IBCSoftwareUpgrade", "UpdateClientParams", "UpdateConnectionParams", "TransferParams", "ICAHostParams",
           "ICAControllerParams", "RLAdd", "RLUpdate", "RLRemove", "RLReset", "CreateClient", "RegisterCounterparty",
           "DeleteClientCreator", "UpdateClientConfig", "UpdateClient", "RecvV2", "AckV2", "TimeoutV2">>
ASSUME { a.op : a \in Acts } = { OpSeq[i] : i \in DOMAIN OpSeq }
Idx(op) == CHOOSE i \in DOMAIN OpSeq : OpSeq[i] = op
N == Len(OpSeq)
\* registers 1..N: op taken ok, N+1..2N: op rejected, 2N+1..: special witnesses
W(i, name) == IF TLCGet(i) = 0 THEN TLCSet(i, 1) /\ PrintT(<<"WITNESS", name>>) ELSE TRUE
Witness(a, r) ==
    /\ (r.res = "ok"  => W(Idx(a.op), "ok_" \o a.op))
    /\ (r.res = "err" => W(N + Idx(a.op), "rej_" \o a.op))
    /\ (r.res = "ok" /\ a.op \in RelayOps /\ a.by = "relayer" /\ ListOf(S, a.tgt) => W(2 * N + 1, "listedRelayerRelays"))
    /\ (r.res = "err" /\ a.op \in RelayOps /\ a.by = "stranger" /\ ListOf(S, a.tgt) /\ S.allowed /\ (a.tgt = "cl" => S.cp)
            => W(2 * N + 2, "strangerBlockedByList"))
    /\ (r.res = "err" /\ a.op = "RegisterCounterparty" /\ a.by = "creator" /\ S.cp => W(2 * N + 3, "secondRegistrationRejected"))
    /\ (r.res = "ok" /\ a.op = "UpdateClientConfig" /\ a.by = "creator" => W(2 * N + 4, "creatorUpdatesConfig"))
    /\ (r.res = "err" /\ a.op = "UpdateClientConfig" /\ a.by = "creator" /\ a.tgt = "cl" => W(2 * N + 5, "formerCreatorRejected"))

Init == S = InitS /\ \A i \in 1..(2 * N + 5) : TLCSet(i, 0)
Next == \E a \in Acts : LET r == Step(S, a) IN S' = r.S /\ Witness(a, r)
Spec == Init /\ [][Next]_S

Inv == /\ S \in AllStates
       /\ PathsSound
\* no operation other than the five state-changing ones changes the configuration; authority is needed for all but client-scoped ones
OnlyAuthorizedChange == [][\A a \in Acts : (Step(S, a).S = S' /\ S' # S) => Authorized(S, a)]_S
CreatorNeverReturns == [][~S.creator => ~S'.creator]_S
CounterpartyIsForever == [][S.cp => S'.cp]_S
=============================================================================
