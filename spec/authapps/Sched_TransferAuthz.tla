------------------------- MODULE Sched_TransferAuthz -------------------------
(***************************************************************************)
(* Behaviour generation for C36 (tlc -simulate): each walk draws a grant   *)
(* (allocations, limits, allow list, memo list, granter balance) and then  *)
(* Depth MsgExec requests of the grantee.  OK_PCT % of the requests are    *)
(* drawn among those the specification accepts in the current state (so    *)
(* that limits get exhausted), the rest uniformly (mostly rejected).        *)
(* After every accepted request the same request is repeated once          *)
(* (adversarial suffix: it must now be judged against the reduced limit).  *)
(* Every random draw is bound once through a set binder.                   *)
(***************************************************************************)
EXTENDS TransferAuthz, Json, SequencesExt

CONSTANTS Depth, OutDir, OK_PCT, MAXLIM, MAXBAL, MAXAMT

LIMS == (0..MAXLIM) \cup {INF}
AMTS == (0..MAXAMT) \cup {SENT}
RCVS == {"r1", "r2", "r3"}
MEMOS == {"", "m1", "m2", "ws", "m1sp"}
ALLOWS == {{}, {"r1"}, {"r1", "r2"}}
MEMOLISTS == {{}, {"*"}, {"m1"}, {"m1", "m2"}, {"m1", "*"}, {"m1sp"}, {"ws"}}

VARIABLES S, sched, grant0, todo, started

R == Reqs(AMTS, RCVS, MEMOS)

\* (the dummy state-level parameter keeps TLC from caching the draw as a constant)
RandLim(z) == [d \in Denoms |-> RandomElement(LIMS)]
RandAlloc(pOn, z) ==
    { IF roll <= pOn /\ (\E d \in Denoms : l[d] # 0)
      THEN [on |-> TRUE, lim |-> l, allow |-> al, memos |-> ml] ELSE Off
      : roll \in {RandomElement(1..100)}, l \in {RandLim(z)}, al \in {RandomElement(ALLOWS)}, ml \in {RandomElement(MEMOLISTS)} }

RandGrant(z) ==
    { [grant |-> TRUE, al |-> [c \in Chans |-> IF c = "c0" THEN a0 ELSE a1], bal |-> b]
      : a0 \in RandAlloc(85, z), a1 \in RandAlloc(60, z), b \in { [d \in Denoms |-> RandomElement(0..MAXBAL)] } }

Valid(g) == \E c \in Chans : g.al[c].on

Empty == [grant |-> FALSE, al |-> [c \in Chans |-> Off], bal |-> [d \in Denoms |-> 0]]
Init == S = Empty /\ sched = <<>> /\ grant0 = Empty /\ todo = <<>> /\ started = FALSE

OkReqs(S0) == { r \in R : One(S0, r).res = "ok" }

PickOk(S0, ok, two) ==
    UNION { { IF two <= 25 /\ ok2 # {} THEN [a |-> "Exec", reqs |-> <<r1, RandomElement(ok2)>>] ELSE [a |-> "Exec", reqs |-> <<r1>>]
              : ok2 \in { IF two <= 25 THEN OkReqs(One(S0, r1).S) ELSE {} } }
            : r1 \in { RandomElement(ok) } }

PickAct(S0) ==
    UNION { IF roll <= OK_PCT /\ ok # {}
            THEN PickOk(S0, ok, two)
            ELSE { IF two <= 15 THEN [a |-> "Exec", reqs |-> <<rr, RandomElement(R)>>] ELSE [a |-> "Exec", reqs |-> <<rr>>] }
            : roll \in {RandomElement(1..100)}, two \in {RandomElement(1..100)}, ok \in {OkReqs(S0)}, rr \in {RandomElement(R)} }

Next ==
    IF ~started
    THEN \E g \in RandGrant(started) :
            /\ Valid(g)
            /\ S' = g /\ grant0' = g /\ sched' = <<>> /\ todo' = <<>> /\ started' = TRUE
    ELSE /\ Len(sched) < Depth
         /\ \E a \in (IF todo # <<>> THEN {Head(todo)} ELSE PickAct(S)) :
              LET r == Step(S, a) IN
              /\ S' = r.S
              /\ sched' = Append(sched, a)
              /\ grant0' = grant0 /\ started' = started
              /\ todo' = IF todo # <<>> THEN Tail(todo)
                         ELSE IF r.res = "ok" /\ Len(a.reqs) = 1 THEN <<a>> ELSE <<>>
              /\ (Len(sched') = Depth) =>
                    JsonSerialize(OutDir \o "/s" \o ToString(TLCGet("stats").traces) \o "_" \o ToString(RandomElement(1..1000000)) \o ".json",
                                  [grant |-> [al |-> [c \in Chans |-> [on |-> grant0.al[c].on, lim |-> grant0.al[c].lim,
                                                                       allow |-> SetToSeq(grant0.al[c].allow),
                                                                       memos |-> SetToSeq(grant0.al[c].memos)]],
                                              bal |-> grant0.bal],
                                   acts |-> sched'])

Spec == Init /\ [][Next]_<<S, sched, grant0, todo, started>>
=============================================================================
