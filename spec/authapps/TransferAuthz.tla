---------------------------- MODULE TransferAuthz ----------------------------
(***************************************************************************)
(* ICS-20 transfer authorizations (x/authz grant of a TransferAuthorization *)
(* from a GRANTER to a GRANTEE) of ibc-go:                                 *)
(*   modules/apps/transfer/types/transfer_authorization.go : Accept        *)
(*   modules/apps/transfer/keeper/msg_server.go : Transfer (the "entire    *)
(*   balance" sentinel amount 2^256-1 is expanded to the spendable balance)*)
(*   x/authz keeper DispatchActions: per message  Accept -> update/delete  *)
(*   the stored grant -> run the handler; any failure reverts the whole tx *)
(*                                                                         *)
(* Written as a function  Step(S, a) -> [res, S]  (see FRAMEWORK.md 2).    *)
(* One action = one MsgExec transaction signed by the grantee that wraps   *)
(* one or two MsgTransfer of the granter.                                  *)
(*                                                                         *)
(* State record S                                                          *)
(*   grant : BOOLEAN             a grant is stored for (granter, grantee)  *)
(*   al    : [Chans -> [on, lim, allow, memos]]   the allocations, keyed   *)
(*           by source channel (port is always "transfer"):                *)
(*             on    : the allocation exists                               *)
(*             lim   : [Denoms -> Int] remaining spend limit, 0 = the      *)
(*                     denomination is not in the limit, INF = unbounded   *)
(*                     (the 2^256-1 sentinel as a limit)                   *)
(*             allow : set of allowed receivers, {} = no allow list        *)
(*             memos : allowed packet data (memo) list                     *)
(*           an absent allocation is the canonical record Off              *)
(*   bal   : [Denoms -> Nat]     bank balance of the granter               *)
(***************************************************************************)
EXTENDS Integers, Sequences, FiniteSets, TLC

Chans  == {"c0", "c1"}
Denoms == {"x", "y"}

INF  == -1     \* unbounded spend limit (limit = 2^256-1)
SENT == -1     \* requested amount 2^256-1 : "send the entire balance"

Off == [on |-> FALSE, lim |-> [d \in Denoms |-> 0], allow |-> {}, memos |-> {}]

\* strings.TrimSpace on the memo classes used by the generators
\* ("ws" is a memo of blanks only, "m1sp" is " m1 ")
Trim(m) == IF m = "ws" THEN "" ELSE IF m = "m1sp" THEN "m1" ELSE m

(***************************************************************************)
(* Guards of TransferAuthorization.Accept in the order of the code, then   *)
(* of the transfer handler.  A request is [ch, denom, amt, rcv, memo].     *)
(***************************************************************************)
G_Positive(r)         == r.amt = SENT \/ r.amt > 0              \* MsgTransfer.ValidateBasic (inside MsgExec.ValidateBasic)
G_GrantExists(S)      == S.grant
G_AllocExists(S, r)   == r.ch \in Chans /\ S.al[r.ch].on
G_ReceiverAllowed(S, r) == LET A == S.al[r.ch] IN A.allow = {} \/ r.rcv \in A.allow
G_MemoAllowed(S, r)   == LET M == S.al[r.ch].memos IN
                            IF M = {} THEN Trim(r.memo) = ""
                            ELSE M = {"*"} \/ \E m \in M : Trim(m) = Trim(r.memo)
Remaining(S, r)       == S.al[r.ch].lim[r.denom]
G_WithinLimit(S, r)   == \/ Remaining(S, r) = INF
                         \/ (r.amt # SENT /\ r.amt <= Remaining(S, r))
\* the statement's last clause, on its own
G_SentinelOnlyUnbounded(S, r) == r.amt = SENT => Remaining(S, r) = INF

Accepts(S, r) == /\ G_GrantExists(S) /\ G_AllocExists(S, r) /\ G_ReceiverAllowed(S, r)
                 /\ G_MemoAllowed(S, r) /\ G_WithinLimit(S, r)

\* what the handler debits
Actual(S, r)      == IF r.amt = SENT THEN S.bal[r.denom] ELSE r.amt
G_Funds(S, r)     == Actual(S, r) > 0 /\ Actual(S, r) <= S.bal[r.denom]

(***************************************************************************)
(* Effects                                                                 *)
(***************************************************************************)
LimAfter(S, r) == [S.al[r.ch].lim EXCEPT ![r.denom] = IF @ = INF THEN INF ELSE @ - r.amt]
Exhausted(lim) == \A d \in Denoms : lim[d] = 0
AllocAfter(S, r) == IF Exhausted(LimAfter(S, r)) THEN Off ELSE [S.al[r.ch] EXCEPT !.lim = LimAfter(S, r)]
AlAfter(S, r)  == [S.al EXCEPT ![r.ch] = AllocAfter(S, r)]
GrantAfter(S, r) == \E c \in Chans : AlAfter(S, r)[c].on

\* one MsgTransfer under the authorization
One(S, r) ==
    IF G_Positive(r) /\ Accepts(S, r) /\ G_Funds(S, r)
    THEN [res |-> "ok",
          S |-> [grant |-> GrantAfter(S, r),
                 al    |-> IF GrantAfter(S, r) THEN AlAfter(S, r) ELSE [c \in Chans |-> Off],
                 bal   |-> [S.bal EXCEPT ![r.denom] = @ - Actual(S, r)]]]
    ELSE [res |-> "err", S |-> S]

\* one MsgExec with the requests a.reqs (a sequence of length >= 1): atomic
RECURSIVE Run(_, _)
Run(S, reqs) == IF reqs = <<>> THEN [res |-> "ok", S |-> S]
                ELSE LET r1 == One(S, Head(reqs)) IN
                     IF r1.res # "ok" THEN r1 ELSE Run(r1.S, Tail(reqs))

Step(S, a) == LET r == Run(S, a.reqs) IN IF r.res = "ok" THEN r ELSE [res |-> "err", S |-> S]

\* the states visited inside one MsgExec (before each request), for the monitors
RECURSIVE Pre(_, _, _)
Pre(S, reqs, i) == IF i = 1 THEN S ELSE Pre(One(S, Head(reqs)).S, Tail(reqs), i - 1)

(***************************************************************************)
(* Ghost: amount moved per (channel, denomination) since the grant.        *)
(***************************************************************************)
RECURSIVE MovedBy(_, _)
MovedBy(S, reqs) == IF reqs = <<>> THEN [c \in Chans |-> [d \in Denoms |-> 0]]
                    ELSE LET r == Head(reqs)
                             rest == MovedBy(One(S, r).S, Tail(reqs))
                         IN [rest EXCEPT ![r.ch][r.denom] = @ + Actual(S, r)]

ZeroMoved == [c \in Chans |-> [d \in Denoms |-> 0]]
AddMoved(m1, m2) == [c \in Chans |-> [d \in Denoms |-> m1[c][d] + m2[c][d]]]

\* C36 main invariant: for every bounded initial limit the amount moved never exceeds it,
\* and remaining + moved = initial (an allocation is only removed when all its limits are 0)
I_MovedWithinGrant(init, moved) ==
    \A c \in Chans : \A d \in Denoms :
        init.al[c].lim[d] # INF => moved[c][d] <= init.al[c].lim[d]
I_Conserved(init, S, moved) ==
    \A c \in Chans : \A d \in Denoms :
        init.al[c].lim[d] # INF => S.al[c].lim[d] + moved[c][d] = init.al[c].lim[d]

(***************************************************************************)
(* Generators shared by MC_ and Sched_                                     *)
(***************************************************************************)
Reqs(AMTS, RCVS, MEMOS) ==
    { [ch |-> c, denom |-> d, amt |-> m, rcv |-> r, memo |-> mm] :
        c \in Chans, d \in Denoms, m \in AMTS, r \in RCVS, mm \in MEMOS }
Exec1(R) == { [a |-> "Exec", reqs |-> <<r>>] : r \in R }
\* two transfers in one MsgExec; the second keeps receiver and memo of the first
Exec2(R) == UNION { { [a |-> "Exec", reqs |-> <<r1, r2>>] : r2 \in { q \in R : q.rcv = r1.rcv /\ q.memo = r1.memo } } : r1 \in R }

Allocs(LIMS, ALLOWS, MEMOLISTS) ==
    { [on |-> TRUE, lim |-> l, allow |-> al, memos |-> ml] :
        l \in { f \in [Denoms -> LIMS] : \E d \in Denoms : f[d] # 0 }, al \in ALLOWS, ml \in MEMOLISTS }
Grants(LIMS, ALLOWS, MEMOLISTS, BALS) ==
    { [grant |-> TRUE, al |-> f, bal |-> b] :
        f \in { g \in [Chans -> Allocs(LIMS, ALLOWS, MEMOLISTS) \cup {Off}] : \E c \in Chans : g[c].on },
        b \in [Denoms -> BALS] }
=============================================================================
