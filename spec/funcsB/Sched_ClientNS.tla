--------------------------- MODULE Sched_ClientNS ---------------------------
(***************************************************************************)
(* Behaviour generation for the namespace part of C16: random walks of     *)
(* ClientNS.tla (tlc -simulate), each written as one JSON schedule.  A     *)
(* step is an operation the model accepts (HONEST_PCT % of the steps) or   *)
(* any operation, including ones on unknown / frozen clients.              *)
(***************************************************************************)
EXTENDS ClientNS, Json, TLC

CONSTANTS Depth, OutDir, HONEST_PCT, MaxClients

VARIABLES S, sched

Init == S = InitNS(0) /\ sched = <<>>

Allowed(S0) == { a \in Actions(S0) : a.op = "create" => Len(S0.cl) < MaxClients }
Enabled(S0) == { a \in Allowed(S0) : Guard(S0, a) }
\* prefer operations other than plain creation once two clients exist, so that every kind is exercised
Interesting(S0) == IF Len(S0.cl) >= 2 THEN { a \in Enabled(S0) : a.op # "create" /\ a.op # "update" } ELSE {}

Next ==
    /\ Len(sched) < Depth
    /\ \E roll \in { RandomElement(1..100) } :
       \E a \in { IF roll <= HONEST_PCT
                  THEN (IF roll % 3 = 0 /\ Interesting(S) # {} THEN RandomElement(Interesting(S))
                        ELSE IF Enabled(S) # {} THEN RandomElement(Enabled(S)) ELSE RandomElement(Allowed(S)))
                  ELSE RandomElement(Allowed(S)) } :
          /\ S' = Step(S, a).S
          /\ sched' = Append(sched, a)
          /\ Len(sched') = Depth =>
                JsonSerialize(OutDir \o "/n" \o ToString(TLCGet("stats").traces) \o "_" \o ToString(RandomElement(1..1000000)) \o ".json",
                              [acts |-> sched'])

Spec == Init /\ [][Next]_<<S, sched>>
=============================================================================
