---------------------------- MODULE Trace_Router ----------------------------
(***************************************************************************)
(* Validation of what the REAL routers did (harness/funcsB, TestRouter)    *)
(* against Router.tla.  One ndjson line = one case (a set of registrations)*)
(* with one run per registration order (and per fresh process in the       *)
(* thorough tier):                                                         *)
(*   [tr, regs, runs : Seq([p, order, steps, res])]                        *)
(* order = the registrations in the order they were attempted, steps[j] =  *)
(* "ok" | "panic" of attempt j, res[k] = the distinct modules (index into  *)
(* regs, 0 = no route) that port PortSeq[k] resolved to over the repeated  *)
(* Route calls of that run.                                                *)
(* C48 clauses assert only what the property states; CONF compares with    *)
(* the specification's full behaviour (diagnostic).                        *)
(***************************************************************************)
EXTENDS Router, SequencesExt, Json, TLC

CONSTANT TraceFile

Trace == ndJsonDeserialize(TraceFile)

VARIABLE l

PortSeq == SetToSortSeq(Ports, LexLess)

\* the router contents implied by the real accept / refuse results of the first j attempts of a run
AccAfter(run, j) == SplitOf({ run.order[i] : i \in { x \in 1..j : run.steps[x] = "ok" } })

IdxOf(regs, r) == IF \E i \in DOMAIN regs : regs[i] = r THEN CHOOSE i \in DOMAIN regs : regs[i] = r ELSE 0

SpecSteps(order) ==
    LET F[i \in 0..Len(order)] ==
            IF i = 0 THEN [S |-> EmptyRouter, out |-> <<>>]
            ELSE LET a == Add(F[i - 1].S, order[i]) IN [S |-> a.S, out |-> Append(F[i - 1].out, a.res)]
    IN F[Len(order)].out

RunViol(ln, k) ==
    LET run == ln.runs[k]
        n   == Len(run.order)
        acc == AccAfter(run, n)
        \* the first run of this case that ended with the same accepted set
        ref == CHOOSE k2 \in 1..k : /\ AccAfter(ln.runs[k2], Len(ln.runs[k2].order)) = acc
                                    /\ \A k3 \in 1..(k2 - 1) : AccAfter(ln.runs[k3], Len(ln.runs[k3].order)) # acc
    IN
       { <<"X", "bad-run-shape">> : x \in
            IF n = Len(ln.regs) /\ { run.order[i] : i \in 1..n } = { ln.regs[i] : i \in 1..n } /\ Len(run.steps) = n
               /\ Len(run.res) = Len(PortSeq) THEN {} ELSE {1} }
  \cup { <<"C48", "ambiguous-refused">> : x \in
            IF VERSION = "v2" /\ \E j \in 1..n : WouldBeAmbiguous(AccAfter(run, j - 1), run.order[j]) /\ run.steps[j] = "ok"
            THEN {1} ELSE {} }
  \cup { <<"C48", "one-match-per-port">> : x \in
            IF VERSION = "v2" /\ \E p \in Ports : Cardinality(Matches(acc, p)) > 1 THEN {1} ELSE {} }
  \cup { <<"C48", "stable-lookup">> : x \in
            IF \E q \in DOMAIN run.res : Len(run.res[q]) # 1 THEN {1} ELSE {} }
  \cup { <<"C48", "order-independent">> : x \in
            IF run.res # ln.runs[ref].res THEN {1} ELSE {} }
  \cup { <<"CONF", "steps">> : x \in IF run.steps = SpecSteps(run.order) THEN {} ELSE {1} }
  \cup { <<"CONF", "resolution">> : x \in
            IF \A q \in DOMAIN run.res : run.res[q] = <<IdxOf(ln.regs, Route(acc, PortSeq[q]))>> THEN {} ELSE {1} }

Report(ln, k, viol) == \A v \in viol : PrintT(<<"MONFAIL", ln.tr, k, v>>)

Init == l = 0

Next == /\ l < Len(Trace)
        /\ LET ln == Trace[l + 1] IN \A k \in DOMAIN ln.runs : Report(ln, k, RunViol(ln, k))
        /\ l' = l + 1
        /\ (l + 1 = Len(Trace) => PrintT(<<"CONSUMED", l + 1>>))

TraceSpec == Init /\ [][Next]_l
=============================================================================
