---------------------------- MODULE Trace_Router ----------------------------
(***************************************************************************)
(* Validation of what the REAL routers did (harness/funcsB, TestRouter)    *)
(* against Router.tla.  One ndjson line = one case (a set of registrations)*)
(* with one run per registration order (and per fresh process in the       *)
(* thorough tier):   [tr, regs, runs : Seq([p, o, s, r, u])]               *)
(*   o  the order, as indices into regs                                    *)
(*   s  per attempt 1 = accepted, 0 = refused (panic)                      *)
(*   r  per port of PortSeq the module the first lookup resolved to (index *)
(*      into regs of the registration that installed it, 0 = no route)     *)
(*   u  the ports whose repeated lookups disagreed                         *)
(* C48 clauses assert only what the property states; CONF compares with    *)
(* the specification's full behaviour (diagnostic).                        *)
(***************************************************************************)
EXTENDS Router, SequencesExt, Json, TLC

CONSTANT TraceFile

Trace == ndJsonDeserialize(TraceFile)

VARIABLE l

PortSeq == SetToSortSeq(Ports, LexLess)

OrderOf(ln, run) == [i \in DOMAIN run.o |-> ln.regs[run.o[i]]]

\* the router contents implied by the real accept / refuse results of the first j attempts of a run
AccAfter(ln, run, j) == SplitOf({ ln.regs[run.o[i]] : i \in { x \in 1..j : run.s[x] = 1 } })

IdxOf(regs, r) == IF \E i \in DOMAIN regs : regs[i] = r THEN CHOOSE i \in DOMAIN regs : regs[i] = r ELSE 0

SpecSteps(order) ==
    LET F[i \in 0..Len(order)] ==
            IF i = 0 THEN [S |-> EmptyRouter, out |-> <<>>]
            ELSE LET a == Add(F[i - 1].S, order[i]) IN [S |-> a.S, out |-> Append(F[i - 1].out, IF a.res = "ok" THEN 1 ELSE 0)]
    IN F[Len(order)].out

WellShaped(ln, run) ==
    /\ Len(run.o) = Len(ln.regs) /\ Len(run.s) = Len(ln.regs) /\ Len(run.r) = Len(PortSeq)
    /\ { run.o[i] : i \in DOMAIN run.o } = DOMAIN ln.regs

\* monitors of run k; accs[k2] = accepted router of run k2, first[k] = the first run with the same accepted router
RunViol(ln, k, accs, first) ==
    LET run == ln.runs[k]
        n   == Len(run.o)
        acc == accs[k]
    IN
       { <<"C48", "ambiguous-refused">> : x \in
            IF VERSION = "v2" /\ \E j \in 1..n : WouldBeAmbiguous(AccAfter(ln, run, j - 1), ln.regs[run.o[j]]) /\ run.s[j] = 1
            THEN {1} ELSE {} }
  \cup { <<"C48", "one-match-per-port">> : x \in
            IF VERSION = "v2" /\ \E p \in Ports : Cardinality(Matches(acc, p)) > 1 THEN {1} ELSE {} }
  \cup { <<"C48", "stable-lookup">> : x \in IF run.u # <<>> THEN {1} ELSE {} }
  \cup { <<"C48", "order-independent">> : x \in IF run.r # ln.runs[first[k]].r THEN {1} ELSE {} }
  \cup { <<"CONF", "steps">> : x \in IF run.s = SpecSteps(OrderOf(ln, run)) THEN {} ELSE {1} }
  \cup { <<"CONF", "resolution">> : x \in
            IF \A q \in DOMAIN run.r : run.r[q] = IdxOf(ln.regs, Route(acc, PortSeq[q])) THEN {} ELSE {1} }

\* every value that is needed more than once is bound once through a set binder
LineViol(ln) ==
    IF \E k \in DOMAIN ln.runs : ~WellShaped(ln, ln.runs[k])
    THEN { <<1, <<"X", "bad-run-shape">>>> }
    ELSE UNION { UNION { UNION { { <<k, v>> : v \in RunViol(ln, k, accs, first) } : k \in DOMAIN ln.runs }
                         : first \in { [k \in DOMAIN ln.runs |->
                                          CHOOSE k2 \in 1..k : accs[k2] = accs[k] /\ \A k3 \in 1..(k2 - 1) : accs[k3] # accs[k]] } }
                 : accs \in { [k \in DOMAIN ln.runs |-> AccAfter(ln, ln.runs[k], Len(ln.runs[k].o))] } }

Init == l = 0

Next == /\ l < Len(Trace)
        /\ LET ln == Trace[l + 1] IN \A kv \in LineViol(ln) : PrintT(<<"MONFAIL", ln.tr, kv[1], kv[2]>>)
        /\ l' = l + 1
        /\ (l + 1 = Len(Trace) => PrintT(<<"CONSUMED", l + 1>>))

TraceSpec == Init /\ [][Next]_l
=============================================================================
