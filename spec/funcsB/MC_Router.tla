----------------------------- MODULE MC_Router -----------------------------
(***************************************************************************)
(* Exhaustive model check of Router.tla: every subset of at most MaxRegs   *)
(* registrations in every order.  A state is (router, set of registrations *)
(* attempted so far); all orders of one set end in states with the same    *)
(* `tried`, so an invariant over (S, tried) is a statement about all       *)
(* permutations.  The same module serialises the case table for the        *)
(* conformance run (OutFile # "").                                         *)
(***************************************************************************)
EXTENDS Router, SequencesExt, Json, TLC

CONSTANT OutFile

VARIABLES S, tried

\* ---- case table for the Go harness ----------------------------------------------------
PortSeq == SetToSortSeq(Ports, LexLess)

\* all sets of 1..MaxRegs registrations, built by size (SUBSET Regs would be 2^28 sets for the larger alphabets)
SetsUpTo[i \in 0..MaxRegs] == IF i = 0 THEN { {} } ELSE SetsUpTo[i - 1] \cup { T \cup {x} : T \in SetsUpTo[i - 1], x \in Regs }
CaseSets == SetsUpTo[MaxRegs] \ { {} }

CaseOf(T) == [regs |-> SetToSeq(T), perms |-> SetToSeq(SetToSeqs(T))]

CaseDoc == [version |-> VERSION, ports |-> PortSeq, cases |-> SetToSeq({ CaseOf(T) : T \in CaseSets })]

\* ---- vacuity witnesses ----------------------------------------------------------------
WNames == <<"RouteRefusedByPrefix", "PrefixRefusedByRoute", "PrefixRefusedByPrefix", "DuplicateRefused",
            "NonAlnumRefused", "RouteAndPrefixCoexist", "TwoKeysContained", "FullSetAccepted">>
WIdx(name) == CHOOSE i \in DOMAIN WNames : WNames[i] = name
Witness(name, cond) == IF cond /\ TLCGet(WIdx(name)) = 0 THEN TLCSet(WIdx(name), 1) /\ PrintT(<<"WITNESS", name>>) ELSE TRUE

Witnesses(S0, r, S1, T1) ==
    /\ Witness("RouteRefusedByPrefix", r.m = "route" /\ GR_Alnum(r) /\ GR_NotDuplicate(S0, r) /\ ~GR_NoPrefixCovers(S0, r))
    /\ Witness("PrefixRefusedByRoute", r.m = "prefix" /\ GP_Alnum(r) /\ ~GP_NotPrefixOfRoute(S0, r))
    /\ Witness("PrefixRefusedByPrefix", r.m = "prefix" /\ GP_Alnum(r) /\ GP_NotPrefixOfRoute(S0, r) /\ ~GP_NoPrefixOverlap(S0, r))
    /\ Witness("DuplicateRefused", r.m = "v1" /\ G1_Alnum(r) /\ ~G1_NotDuplicate(S0, r))
    /\ Witness("NonAlnumRefused", ~IsAlnum(r.n))
    /\ Witness("RouteAndPrefixCoexist", S1.routes # {} /\ S1.prefixes # {})
    /\ Witness("TwoKeysContained", VERSION = "v1" /\ \E p \in Ports : p \notin S1.routes /\ Cardinality(ContainedKeys(S1, p)) > 1)
    /\ Witness("FullSetAccepted", Cardinality(T1) = MaxRegs /\ S1 = SplitOf(T1))

Init == /\ S = EmptyRouter /\ tried = {}
        /\ \A i \in DOMAIN WNames : TLCSet(i, 0)
        /\ (OutFile = "" \/ JsonSerialize(OutFile, CaseDoc))

Next == \E r \in Regs \ tried :
            /\ Cardinality(tried) < MaxRegs
            /\ tried' = tried \cup {r}
            /\ S' = Add(S, r).S
            /\ Witnesses(S, r, S', tried')

Spec == Init /\ [][Next]_<<S, tried>>

\* ---- invariants (hold in every reachable state = for every registration order) ---------
\* at most one registered route / prefix claims any port identifier (v2)
Inv_AtMostOneMatch == VERSION = "v2" => \A p \in Ports : Cardinality(Matches(S, p)) <= 1
\* the resolution is a function of the SET of registrations: a compatible set is accepted in full in every order,
\* so every order ends in the same router and Route(S, .) is the same function
Inv_SetFunction == Compatible(tried) => S = SplitOf(tried)
\* an ambiguous (or otherwise unacceptable) set is never accepted in full, whatever the order
Inv_AmbiguousRefused == ~Compatible(tried) => S # SplitOf(tried)
\* the structural characterisation of ambiguity agrees with its definition over the bounded ports
Inv_AmbiguityCharacterised == VERSION = "v2" => (AmbiguousSet(S) <=> AmbiguousOn(S, Ports))
\* the resolved module is one of the claimants, and none only if nobody claims the port
Inv_RouteIsClaimant == \A p \in Ports :
    IF VERSION = "v2"
    THEN (Matches(S, p) = {} /\ Route(S, p) = NoneReg) \/ Route(S, p) \in Matches(S, p)
    ELSE (ContainedKeys(S, p) = {} /\ Route(S, p) = NoneReg) \/ Route(S, p).n \in ContainedKeys(S, p)

Inv == Inv_AtMostOneMatch /\ Inv_SetFunction /\ Inv_AmbiguousRefused /\ Inv_AmbiguityCharacterised /\ Inv_RouteIsClaimant

\* refusal never changes the router; acceptance only adds
OnlyGrows == [][S.routes \subseteq S'.routes /\ S.prefixes \subseteq S'.prefixes]_<<S, tried>>
\* every refusal of the v2 router is justified by ambiguity or by the name not being alphanumeric
RefusalJustified == [][\A r \in tried' \ tried :
                          (VERSION = "v2" /\ S' = S) => (WouldBeAmbiguous(S, r) \/ ~IsAlnum(r.n))]_<<S, tried>>
\* and every registration that would make the router ambiguous is refused
AmbiguousNeverAccepted == [][\A r \in tried' \ tried : (VERSION = "v2" /\ WouldBeAmbiguous(S, r)) => S' = S]_<<S, tried>>
=============================================================================
