---------------------------- MODULE MC_ClientNS ----------------------------
(***************************************************************************)
(* Exhaustive model check of ClientNS.tla: every interleaving of client    *)
(* operations over at most MaxClients clients, starting from counters that *)
(* cross the digit boundaries of the generated identifiers (..-9 / ..-10,  *)
(* ..-99 / ..-100).  `store` remembers who wrote which key.                *)
(***************************************************************************)
EXTENDS ClientNS, TLC

CONSTANTS MaxClients, STARTS, MaxClock

VARIABLES S, store

WNames == <<"create", "update", "misbehaviour", "upgrade", "recover", "rejected", "TwoDigitId", "ThreeDigitId">>
WIdx(name) == CHOOSE i \in DOMAIN WNames : WNames[i] = name
Witness(name, cond) == IF cond /\ TLCGet(WIdx(name)) = 0 THEN TLCSet(WIdx(name), 1) /\ PrintT(<<"WITNESS", name>>) ELSE TRUE

Init == /\ \E n0 \in STARTS : S = InitNS(n0)
        /\ store = {}
        /\ \A i \in DOMAIN WNames : TLCSet(i, 0)

Next == \E a \in Actions(S) :
            /\ a.op = "create" => Len(S.cl) < MaxClients
            /\ S.clock < MaxClock
            /\ (a.op = "update" /\ Known(S, a.c)) => S.cl[a.c].h <= MaxClock + 1
            /\ LET r == Step(S, a) IN
               /\ S' = r.S
               /\ store' = store \cup { <<Target(S, a), k>> : k \in r.writes \ {L_nextClientSequence} }
               \* what the property says of each step (of the model)
               /\ Assert(WritesConfined(S, a, r.writes) /\ SubstituteUntouched(S, a, r.writes), <<"step not confined", a>>)
               /\ Witness(a.op, r.res = "ok")
               /\ Witness("rejected", r.res = "err")
               /\ Witness("TwoDigitId", r.res = "ok" /\ a.op = "create" /\ S.next >= 10 /\ S.next < 100)
               /\ Witness("ThreeDigitId", r.res = "ok" /\ a.op = "create" /\ S.next >= 100)

Spec == Init /\ [][Next]_<<S, store>>

\* every key ever written lies in the namespace of the client the writing operation targeted, and in no other
\* client's namespace
Inv_Ownership == \A w \in store : /\ InNamespace(w[1], w[2])
                                  /\ \A c \in DOMAIN S.cl : S.cl[c].id # w[1] => ~InNamespace(S.cl[c].id, w[2])
Inv == NamespacesDisjoint(S) /\ Inv_Ownership
=============================================================================
