------------------------------ MODULE ClientNS ------------------------------
(***************************************************************************)
(* C16 (namespace part)  Client operations write only inside the namespace *)
(* of the client they target; recovery never writes the substitute's.      *)
(*                                                                         *)
(* The 02-client keeper as a state machine: clients are created with       *)
(* generated identifiers <type>-<n> (n = nextClientSequence), and every    *)
(* client operation (create / update / misbehaviour / upgrade / recover)   *)
(* writes keys of the IBC store.  Namespace(id) = keys with the prefix     *)
(* "clients/<id>/" (ClientStorePrefix of StoreKeys.tla).  A step is total: *)
(* Step(S, a) = [res, S, writes].                                          *)
(***************************************************************************)
EXTENDS StoreKeys

TM   == <<"0","7","-","t","e","n","d","e","r","m","i","n","t">>
SOLO == <<"0","6","-","s","o","l","o","m","a","c","h","i","n","e">>
TypeOf(ty) == IF ty = "tm" THEN TM ELSE SOLO

DigitSeq == <<"0","1","2","3","4","5","6","7","8","9">>
Dig(n) == DigitSeq[n + 1]
Dec(n) == IF n < 10 THEN <<Dig(n)>>
          ELSE IF n < 100 THEN <<Dig(n \div 10), Dig(n % 10)>>
          ELSE <<Dig(n \div 100), Dig((n \div 10) % 10), Dig(n % 10)>>

\* clienttypes.FormatClientIdentifier
FormatClientId(ty, n) == TypeOf(ty) \o DSH \o Dec(n)

IsPrefixSeq(p, s) == Len(p) <= Len(s) /\ SubSeq(s, 1, Len(p)) = p
InNamespace(id, key) == IsPrefixSeq(ClientStorePrefix(id), key)

(***************************************************************************)
(* State: next = nextClientSequence, cl = the clients in creation order.   *)
(* status: "active" | "frozen" | "upgraded" (a tendermint client that      *)
(* followed an upgrade the counterparty never performed: Active, but no    *)
(* later header of the old chain verifies).                                *)
(***************************************************************************)
\* h: how far the client has followed its counterparty (recovery needs a substitute that is ahead of the subject):
\* a solo machine starts at sequence 1 and advances by one per update, a tendermint client takes the next value of a
\* logical clock on creation and on every update; an upgrade moves to the next revision (far ahead).
InitNS(n0) == [next |-> n0, clock |-> 0, cl |-> <<>>]

Known(S, c) == c \in DOMAIN S.cl
UnknownId   == FormatClientId("tm", 999)
IdOf(S, c)  == IF Known(S, c) THEN S.cl[c].id ELSE UnknownId

\* the client an action targets (create: the identifier about to be generated)
Target(S, a) == IF a.op = "create" THEN FormatClientId(a.ty, S.next) ELSE IdOf(S, a.c)

\* ---- guards (in the order of 02-client/keeper/client.go) -----------------------------------
G_Exists(S, c)      == Known(S, c)
G_Active(S, c)      == Known(S, c) /\ S.cl[c].status = "active"
G_SubjectNotActive(S, c) == Known(S, c) /\ S.cl[c].status \in {"frozen", "upgraded"}
G_SubstituteAhead(S, c, s) == Known(S, c) /\ Known(S, s) /\ S.cl[s].h > S.cl[c].h
G_SameType(S, c, s) == Known(S, c) /\ Known(S, s) /\ S.cl[c].ty = S.cl[s].ty
G_Distinct(c, s)    == c # s
G_Upgradable(S, c)  == Known(S, c) /\ S.cl[c].ty = "tm"

Guard(S, a) ==
    CASE a.op = "create"       -> TRUE
      [] a.op = "update"       -> G_Active(S, a.c)
      [] a.op = "misbehaviour" -> G_Active(S, a.c)
      [] a.op = "upgrade"      -> G_Active(S, a.c) /\ G_Upgradable(S, a.c)
      [] a.op = "recover"      -> /\ G_Distinct(a.c, a.s) /\ G_SubjectNotActive(S, a.c) /\ G_Active(S, a.s)
                                  /\ G_SameType(S, a.c, a.s) /\ G_SubstituteAhead(S, a.c, a.s)

\* abstract names of the keys an accepted operation writes, relative to the target's namespace
Suffixes(a) ==
    CASE a.op = "create"       -> {L_clientState, L_consensusStates, L_creator}
      [] a.op = "update"       -> {L_clientState, L_consensusStates}
      [] a.op = "misbehaviour" -> {L_clientState}
      [] a.op = "upgrade"      -> {L_clientState, L_consensusStates}
      [] a.op = "recover"      -> {L_clientState, L_consensusStates}

Writes(S, a) == { FullClientKey(Target(S, a), sfx) : sfx \in Suffixes(a) }
                \cup (IF a.op = "create" THEN {L_nextClientSequence} ELSE {})

\* effect on the model state, given that the operation was accepted
Effect(S, a) ==
    CASE a.op = "create"       -> [next |-> S.next + 1,
                                   clock |-> IF a.ty = "tm" THEN S.clock + 1 ELSE S.clock,
                                   cl |-> Append(S.cl, [id |-> FormatClientId(a.ty, S.next), ty |-> a.ty, status |-> "active",
                                                        h |-> IF a.ty = "tm" THEN S.clock + 1 ELSE 1])]
      [] a.op = "update"       -> IF S.cl[a.c].ty = "tm"
                                  THEN [S EXCEPT !.clock = @ + 1, !.cl[a.c].h = S.clock + 1]
                                  ELSE [S EXCEPT !.cl[a.c].h = @ + 1]
      [] a.op = "misbehaviour" -> [S EXCEPT !.cl[a.c].status = "frozen"]
      [] a.op = "upgrade"      -> [S EXCEPT !.cl[a.c].status = "upgraded", !.cl[a.c].h = @ + 1000]
      [] a.op = "recover"      -> [S EXCEPT !.cl[a.c].status = "active", !.cl[a.c].h = S.cl[a.s].h]

Step(S, a) == IF Guard(S, a) THEN [res |-> "ok", S |-> Effect(S, a), writes |-> Writes(S, a)]
              ELSE [res |-> "err", S |-> S, writes |-> {}]

\* the state the model is in after the real code reported `res` (trace validation follows the real result)
Follow(S, a, res) == IF res = "ok" /\ (a.op = "create" \/ (Known(S, a.c) /\ (a.op = "recover" => Known(S, a.s))))
                     THEN Effect(S, a) ELSE S

(***************************************************************************)
(* The property on one step                                                *)
(***************************************************************************)
\* every written key lies in the target's namespace (creation also advances the global counter)
WritesConfined(S, a, keys) ==
    \A k \in keys : InNamespace(Target(S, a), k) \/ (a.op = "create" /\ k = L_nextClientSequence)
\* recovery leaves the substitute's namespace alone
SubstituteUntouched(S, a, keys) ==
    a.op = "recover" /\ Known(S, a.s) /\ a.s # a.c => \A k \in keys : ~InNamespace(IdOf(S, a.s), k)

\* namespaces of distinct clients do not overlap
NamespacesDisjoint(S) ==
    \A c1, c2 \in DOMAIN S.cl : c1 # c2 =>
        ~IsPrefixSeq(ClientStorePrefix(S.cl[c1].id), ClientStorePrefix(S.cl[c2].id))

\* actions over the clients that exist plus one that does not
Ops == {"update", "misbehaviour", "upgrade"}
Actions(S) ==
       { [op |-> "create", ty |-> ty, c |-> 0, s |-> 0] : ty \in {"tm", "solo"} }
  \cup { [op |-> op, ty |-> "", c |-> c, s |-> 0] : op \in Ops, c \in 1..(Len(S.cl) + 1) }
  \cup { [op |-> "recover", ty |-> "", c |-> c, s |-> s] : c \in 1..(Len(S.cl) + 1), s \in 1..(Len(S.cl) + 1) }
=============================================================================
