--------------------------- MODULE Trace_ClientNS ---------------------------
(***************************************************************************)
(* Judges the store writes of REAL client operations (harness/funcsB,      *)
(* TestNamespace) against ClientNS.tla.  One line per executed operation:  *)
(*   [tr, i, a, res, diff, created]                                        *)
(* a = the action (i = 0: "init" resets the model), diff = every key of    *)
(* the IBC store whose value the operation added, changed or deleted (as   *)
(* symbols), created = identifier reported by a successful creation.       *)
(* The model state follows the REAL result (Follow), so the monitors are   *)
(* evaluated on the real history.                                          *)
(*   C16  writes-in-namespace, substitute-untouched                        *)
(*   CONF result, created-id        X  harness sanity                      *)
(***************************************************************************)
EXTENDS ClientNS, SequencesExt, Json, TLC

CONSTANT TraceFile

Trace == ndJsonDeserialize(TraceFile)

VARIABLES l, S

SetOf(arr) == { arr[i] : i \in DOMAIN arr }

Viol(S0, ln) ==
    LET a == ln.a
        keys == SetOf(ln.diff)
        E == Step(S0, a)
    IN
       { <<"X", "created-id-missing">> : x \in IF a.op = "create" /\ ln.res = "ok" /\ ln.created = <<>> THEN {1} ELSE {} }
  \cup { <<"C16", "writes-in-namespace">> : x \in IF WritesConfined(S0, a, keys) THEN {} ELSE {1} }
  \cup { <<"C16", "substitute-untouched">> : x \in IF SubstituteUntouched(S0, a, keys) THEN {} ELSE {1} }
  \cup { <<"C16", "namespaces-disjoint">> : x \in IF NamespacesDisjoint(Follow(S0, a, ln.res)) THEN {} ELSE {1} }
  \cup { <<"CONF", "result">> : x \in IF (E.res = "ok") = (ln.res = "ok") THEN {} ELSE {1} }
  \cup { <<"CONF", "created-id">> : x \in IF a.op = "create" /\ ln.res = "ok" /\ ln.created # Target(S0, a) THEN {1} ELSE {} }
  \cup { <<"CONF", "rejected-but-wrote">> : x \in IF ln.res # "ok" /\ keys # {} THEN {1} ELSE {} }

Init == l = 0 /\ S = InitNS(0)

Next == /\ l < Len(Trace)
        /\ LET ln == Trace[l + 1] IN
           IF ln.a.op = "init"
           THEN S' = InitNS(0)
           ELSE /\ \A v \in Viol(S, ln) : PrintT(<<"MONFAIL", ln.tr, ln.i, v>>)
                /\ S' = Follow(S, ln.a, ln.res)
        /\ l' = l + 1
        /\ (l + 1 = Len(Trace) => PrintT(<<"CONSUMED", l + 1>>))

TraceSpec == Init /\ [][Next]_<<l, S>>
=============================================================================
