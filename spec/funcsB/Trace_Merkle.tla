---------------------------- MODULE Trace_Merkle ----------------------------
(***************************************************************************)
(* Judges what the REAL verifiers did (harness/funcsB, TestMerkle) on the  *)
(* requests enumerated from Merkle.tla.  Lines:                            *)
(*   ty = "req": [vals, req, applied, rd, rt]  vals = the committed store  *)
(*        content, req = the request, applied = the mutation changed the   *)
(*        arguments / proof bytes, rd = result class of                    *)
(*        commitmenttypes.MerkleProof.Verify(Non)Membership, rt = of the   *)
(*        07-tendermint light client reached through the 02-client keeper  *)
(*        ("na": not executed, e.g. the root cannot be altered there).     *)
(*   ty = "bmp": BuildMerklePath case: prefix before / after, both results *)
(* C18 asserts the property's direction only: a verification that SUCCEEDS *)
(* must be of an unaltered request whose statement is true of the          *)
(* committed store.  CONF compares the whole verdict with VerifyOK.        *)
(***************************************************************************)
EXTENDS Merkle, SequencesExt, Json, TLC

CONSTANT TraceFile

Trace == ndJsonDeserialize(TraceFile)

VARIABLE l

ContentOf(vals) == [k \in UKeys |-> vals[k - 1]]

AllMuts == {NoMut} \cup MemMuts \cup NonMemMuts
WellFormed(q) == q.kind \in {"mem", "nonmem"} /\ q.key \in QKeys /\ q.pkey \in QKeys /\ q.mut \in AllMuts
                 /\ q.val \in Values \cup {Absent}

Sound(S, q, res) == res = "ok" => (Claim(S, q) /\ q.mut = NoMut)

ReqViol(ln) ==
    LET S == ContentOf(ln.vals)
        q == ln.req
    IN
       { <<"X", "request-not-enumerated">> : x \in IF WellFormed(q) THEN {} ELSE {1} }
  \cup { <<"X", "unmutated-not-executed">> : x \in IF q.mut = NoMut /\ (ln.rd = "na" \/ ln.rt = "na") THEN {1} ELSE {} }
  \cup { <<"C18", "sound-23-commitment">> : x \in IF ln.applied /\ ~Sound(S, q, ln.rd) THEN {1} ELSE {} }
  \cup { <<"C18", "sound-07-tendermint">> : x \in IF ln.applied /\ ~Sound(S, q, ln.rt) THEN {1} ELSE {} }
  \cup { <<"CONF", "verdict-23-commitment">> : x \in
           IF ln.applied /\ ln.rd # "na" /\ ((ln.rd = "ok") # VerifyOK(S, q)) THEN {1} ELSE {} }
  \cup { <<"CONF", "verdict-07-tendermint">> : x \in
           IF ln.applied /\ ln.rt # "na" /\ ((ln.rt = "ok") # VerifyOK(S, q)) THEN {1} ELSE {} }
  \cup { <<"CONF", "verifier-panicked">> : x \in IF ln.rd = "panic" \/ ln.rt = "panic" THEN {1} ELSE {} }

BmpViol(ln) ==
       { <<"X", "bmp-case-not-enumerated">> : x \in IF ln.c \in BMPCases /\ Len(ln.before) = ln.c.n THEN {} ELSE {1} }
  \cup { <<"C18", "bmp-prefix-unchanged">> : x \in IF ln.after = ln.before THEN {} ELSE {1} }
  \cup { <<"CONF", "bmp-result">> : x \in
           IF ln.res = "ok" /\ ln.r1 = BuildMerklePath(ln.before, ln.p1) /\ ln.r2 = BuildMerklePath(ln.before, ln.p2) THEN {} ELSE {1} }
  \cup { <<"CONF", "bmp-results-independent">> : x \in IF ln.res = "ok" /\ ln.r1after = ln.r1 THEN {} ELSE {1} }
  \cup { <<"CONF", "bmp-spare-capacity-written">> : x \in IF ln.spareWritten THEN {1} ELSE {} }

Viol(ln) == IF ln.ty = "req" THEN ReqViol(ln) ELSE BmpViol(ln)

Init == l = 0

Next == /\ l < Len(Trace)
        /\ LET ln == Trace[l + 1] IN \A v \in Viol(ln) : PrintT(<<"MONFAIL", ln.tr, ln.i, v>>)
        /\ l' = l + 1
        /\ (l + 1 = Len(Trace) => PrintT(<<"CONSUMED", l + 1>>))

TraceSpec == Init /\ [][Next]_l
=============================================================================
