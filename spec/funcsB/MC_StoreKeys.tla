--------------------------- MODULE MC_StoreKeys ---------------------------
(***************************************************************************)
(* Exhaustive check of the specification's own key table (TraceFile = ""): *)
(* every tuple of StoreKeys.tla for one WORLD.  The model is faithful to   *)
(* the code, including the constructors without a separator, so what TLC   *)
(* establishes here is                                                     *)
(*   - keys of VALID tuples collide, and prefix iterations capture foreign *)
(*     entries, ONLY through a constructor of NoSeparatorKinds;            *)
(*   - which collisions of that class / of invalid identifiers exist       *)
(*     (printed as witnesses, reported in the evidence).                   *)
(* The property itself is judged on the real keys by Trace_StoreKeys.      *)
(***************************************************************************)
EXTENDS KeyTrie

WNames == <<"NoSeparatorCollision", "NoSeparatorPrefixCapture", "InvalidIdCollision", "PrefixOwnsEntries", "V1V2SharedPrefix">>
WIdx(name) == CHOOSE i \in DOMAIN WNames : WNames[i] = name
Witness(name, cond) == IF cond /\ TLCGet(WIdx(name)) = 0 THEN TLCSet(WIdx(name), 1) /\ PrintT(<<"WITNESS", name>>) ELSE TRUE

Init == /\ TrieInit
        /\ \A i \in DOMAIN WNames : TLCSet(i, 0)
        /\ (OutFile = "" \/ JsonSerialize(OutFile, CaseDoc))
        /\ PrintT(<<"TABLE", N>>)

Spec == Init /\ [][TrieNext]_<<d, live>>

Inv == LET V == NodeViol(d, live) IN
       /\ \A v \in V : InvolvesNoSeparator(v)
       /\ Witness("NoSeparatorCollision", \E v \in V : v[1] # "prefix-iteration")
       /\ Witness("NoSeparatorPrefixCapture", \E v \in V : v[1] = "prefix-iteration")
       /\ Witness("InvalidIdCollision", InvalidOnlyCollision(d, live))
       /\ Witness("PrefixOwnsEntries", \E p \in Term(d, live) : /\ Table[p].pfx /\ Table[p].valid
                                          /\ Cardinality({ j \in live : Owns(TupOf(p), TupOf(j)) }) >= 2
                                          /\ \A v \in V : v[2] # p)
       /\ Witness("V1V2SharedPrefix", d >= 1 /\ (\E i \in live : IsV2(TupOf(i))) /\ (\E i \in live : ~IsV2(TupOf(i))))
=============================================================================
