------------------------------- MODULE Merkle -------------------------------
(***************************************************************************)
(* C18  Merkle proofs verify exactly the committed key/value under the     *)
(* root.                                                                   *)
(*                                                                         *)
(* A two-level store (multistore -> "ibc" substore) over a small universe. *)
(* The substore holds the universe keys K1 < .. < Kn (each absent or bound *)
(* to one of two values) between a block of other entries that is always   *)
(* there (KM, standing for the protocol's own keys) and nothing above;     *)
(* K0 < KM and Kmax > Kn are never stored (left-most / right-most          *)
(* non-existence proofs).  Keys are numbers: 0 = K0, 1 = KM, 2..n+1 the    *)
(* universe keys, n+2 = Kmax.                                              *)
(*                                                                         *)
(* A verification request names the committed store the proof was queried  *)
(* from, the statement to verify (kind, key, value), the key the proof was *)
(* generated for, and ONE mutation of the arguments or of the proof.       *)
(* VerifyOK is written from the property: it verifies only if nothing was  *)
(* altered and the statement is true of the committed store.               *)
(***************************************************************************)
EXTENDS Naturals, Sequences, FiniteSets

CONSTANTS NK,       \* number of universe keys (2 or 3)
          MaxOp     \* inner-op positions 0..MaxOp are mutated

UKeys   == 2..(NK + 1)
K0      == 0
KM      == 1
KMax    == NK + 2
QKeys   == {K0} \cup UKeys \cup {KMax}            \* keys a request may name
Values  == {"v1", "v2"}
Absent  == ""

Contents == [UKeys -> Values \cup {Absent}]

Present(S, k) == k = KM \/ (k \in UKeys /\ S[k] # Absent)
ValueOf(S, k) == IF k \in UKeys THEN S[k] ELSE Absent

\* neighbours of an absent key among the stored keys (0 = none)
LeftNb(S, k)  == LET c == { j \in {KM} \cup UKeys : j < k /\ Present(S, j) } IN
                 IF c = {} THEN 0 ELSE CHOOSE j \in c : \A o \in c : o <= j
RightNb(S, k) == LET c == { j \in {KM} \cup UKeys : j > k /\ Present(S, j) } IN
                 IF c = {} THEN 0 ELSE CHOOSE j \in c : \A o \in c : o >= j

(***************************************************************************)
(* Mutations.  [m, lvl, side, op]: lvl 0 = substore (IAVL) proof, 1 =      *)
(* multistore proof; side "l"/"r" = neighbour proof inside a non-existence *)
(* proof ("x" otherwise); op = position of the inner op.                   *)
(***************************************************************************)
Mut(m, lvl, side, op) == [m |-> m, lvl |-> lvl, side |-> side, op |-> op]
NoMut == Mut("none", 0, "x", 0)

ArgMuts ==
    { Mut(m, 0, "x", 0) : m \in {"root-flip", "root-trunc", "root-empty", "root-other",
                                 "path-store", "path-swap", "path-short", "path-long",
                                 "specs-short", "specs-long", "specs-swap",
                                 "proofs-swap", "proofs-drop0", "proofs-drop1", "proofs-dup", "proofs-none", "kind-swap"} }
    \cup { Mut(m, l, "x", 0) : m \in {"specs-nil", "proofs-nil"}, l \in {0, 1} }
\* The key element of a NON-membership request is part of the statement, not of the proof: a non-existence proof
\* shows a whole gap of the store empty, so another absent key of the same gap (e.g. the empty key) verifies
\* with it -- truthfully.  Those alterations are enumerated as requests with pkey # key (Covers), and only the
\* membership request, whose proof binds the key, has key mutations that must fail.
MemOnlyMuts == { Mut(m, 0, "x", 0) : m \in {"path-key", "path-key-empty", "val-flip", "val-extra", "val-trunc", "val-empty"} }
LeafMuts(l, sd)  == { Mut(m, l, sd, 0) : m \in {"leaf-prefix", "leaf-hashop", "leaf-lengthop", "ex-key", "ex-value"} }
InnerMuts(l, sd) == { Mut(m, l, sd, o) : m \in {"inner-prefix", "inner-suffix", "inner-hashop", "inner-drop", "inner-dup", "inner-swap"},
                                        o \in 0..MaxOp }
StepMuts(l, sd)  == LeafMuts(l, sd) \cup InnerMuts(l, sd)
NonexistMuts == { Mut(m, 0, "x", 0) : m \in {"drop-left", "drop-right", "swap-left-right"} }

MemMuts    == ArgMuts \cup MemOnlyMuts \cup StepMuts(0, "x") \cup StepMuts(1, "x")
NonMemMuts == ArgMuts \cup StepMuts(0, "l") \cup StepMuts(0, "r") \cup StepMuts(1, "x") \cup NonexistMuts

(***************************************************************************)
(* Requests                                                                *)
(***************************************************************************)
Req(kind, key, val, pkey, mut) == [kind |-> kind, key |-> key, val |-> val, pkey |-> pkey, mut |-> mut]

\* the statement of the request is true of the committed store
Claim(S, r) == IF r.kind = "mem" THEN r.val # Absent /\ Present(S, r.key) /\ r.key \in UKeys /\ ValueOf(S, r.key) = r.val
               ELSE ~Present(S, r.key)

\* the (unmutated) proof generated for pkey is a proof of the statement about key
Covers(S, r) == IF r.kind = "mem" THEN r.pkey = r.key /\ Present(S, r.pkey)
                ELSE /\ ~Present(S, r.pkey)
                     /\ LeftNb(S, r.pkey) = LeftNb(S, r.key) /\ RightNb(S, r.pkey) = RightNb(S, r.key)

VerifyOK(S, r) == r.mut = NoMut /\ Claim(S, r) /\ Covers(S, r)

\* unmutated requests: every statement about every key, with the proof of every key
BaseRequests(S) ==
       { Req("mem", k, v, pk, NoMut) : k \in UKeys, v \in Values, pk \in UKeys }
  \cup { Req("nonmem", k, Absent, pk, NoMut) : k \in QKeys, pk \in QKeys }
\* every single mutation of every request that verifies
MutatedRequests(S) ==
       { Req("mem", r.key, r.val, r.pkey, m) : r \in { x \in BaseRequests(S) : x.kind = "mem" /\ VerifyOK(S, x) }, m \in MemMuts }
  \cup { Req("nonmem", r.key, r.val, r.pkey, m) : r \in { x \in BaseRequests(S) : x.kind = "nonmem" /\ VerifyOK(S, x) }, m \in NonMemMuts }
Requests(S) == BaseRequests(S) \cup MutatedRequests(S)

(***************************************************************************)
(* BuildMerklePath(prefix, path)  (04-channel/v2/types/merkle.go):         *)
(* result = prefix with path appended to its LAST element; the caller's    *)
(* prefix is left as it was.  Elements are sequences of byte symbols.      *)
(***************************************************************************)
BuildMerklePath(prefix, path) == [i \in DOMAIN prefix |-> IF i = Len(prefix) THEN prefix[i] \o path ELSE prefix[i]]

\* cases: prefix of 1..2 elements, last element empty or not, with or without spare capacity, two successive paths
BMPCases == [n : {1, 2}, lastEmpty : BOOLEAN, spare : {0, 4, 64}, p1 : {1, 3}, p2 : {1, 3, 5}]
=============================================================================
