----------------------------- MODULE MC_Merkle -----------------------------
(***************************************************************************)
(* Exhaustive enumeration of Merkle.tla: every store content, and for each *)
(* every request (statement x proof-of-key x single mutation).  A state is *)
(* (store content, request); the same module serialises the case table.    *)
(***************************************************************************)
EXTENDS Merkle, SequencesExt, Json, TLC

CONSTANT OutFile

VARIABLES S, r

NoReq == Req("init", 0, Absent, 0, NoMut)

ContentDoc(C) == [vals |-> [i \in 1..NK |-> C[i + 1]], reqs |-> SetToSeq(Requests(C))]
CaseDoc == [nk |-> NK, contents |-> SetToSeq({ ContentDoc(C) : C \in Contents }), bmp |-> SetToSeq(BMPCases)]

WNames == <<"MemOK", "NonMemOK", "NeighbourProofCovers", "WrongValueRejected", "LeftMostNonMem", "RightMostNonMem",
            "MemOfAbsentRejected", "NonMemOfPresentRejected", "MutationRejected">>
WIdx(name) == CHOOSE i \in DOMAIN WNames : WNames[i] = name
Witness(name, cond) == IF cond /\ TLCGet(WIdx(name)) = 0 THEN TLCSet(WIdx(name), 1) /\ PrintT(<<"WITNESS", name>>) ELSE TRUE

Witnesses(C, q) ==
    /\ Witness("MemOK", q.kind = "mem" /\ VerifyOK(C, q))
    /\ Witness("NonMemOK", q.kind = "nonmem" /\ VerifyOK(C, q))
    /\ Witness("NeighbourProofCovers", q.kind = "nonmem" /\ q.pkey # q.key /\ VerifyOK(C, q))
    /\ Witness("WrongValueRejected", q.kind = "mem" /\ q.mut = NoMut /\ Present(C, q.key) /\ q.pkey = q.key /\ ~VerifyOK(C, q))
    /\ Witness("LeftMostNonMem", q.kind = "nonmem" /\ q.key = K0 /\ VerifyOK(C, q))
    /\ Witness("RightMostNonMem", q.kind = "nonmem" /\ q.key = KMax /\ VerifyOK(C, q))
    /\ Witness("MemOfAbsentRejected", q.kind = "mem" /\ q.mut = NoMut /\ ~Present(C, q.key) /\ ~VerifyOK(C, q))
    /\ Witness("NonMemOfPresentRejected", q.kind = "nonmem" /\ q.mut = NoMut /\ Present(C, q.key) /\ ~VerifyOK(C, q))
    /\ Witness("MutationRejected", q.mut # NoMut /\ ~VerifyOK(C, q))

Init == /\ S \in Contents /\ r = NoReq
        /\ \A i \in DOMAIN WNames : TLCSet(i, 0)
        /\ (OutFile = "" \/ JsonSerialize(OutFile, CaseDoc))

Next == /\ r = NoReq
        /\ \E q \in Requests(S) : r' = q /\ Witnesses(S, q)
        /\ UNCHANGED S

Spec == Init /\ [][Next]_<<S, r>>

\* ---- what the definition of VerifyOK entails (checked on every content) ------------------
\* the honest proof of every true statement verifies
Inv_HonestVerifies ==
    /\ \A k \in UKeys : Present(S, k) => VerifyOK(S, Req("mem", k, ValueOf(S, k), k, NoMut))
    /\ \A k \in QKeys : ~Present(S, k) => VerifyOK(S, Req("nonmem", k, Absent, k, NoMut))
\* a key never has two verifying values, nor a verifying membership and non-membership
Inv_Exclusive ==
    \A k \in QKeys : \A q1, q2 \in { q \in BaseRequests(S) : q.key = k /\ VerifyOK(S, q) } :
        q1.kind = q2.kind /\ q1.val = q2.val
\* a request that verifies states something true and is unaltered
Inv_Sound == (r # NoReq /\ VerifyOK(S, r)) => (Claim(S, r) /\ r.mut = NoMut)
Inv == (r = NoReq => (Inv_HonestVerifies /\ Inv_Exclusive)) /\ Inv_Sound
=============================================================================
