-------------------------- MODULE Trace_StoreKeys --------------------------
(***************************************************************************)
(* Judges the keys the REAL constructors produced (harness/funcsB,         *)
(* TestKeys).  The harness log has                                         *)
(*   ty = "key" : [i, t, key, sdec, hdec]  the tuple (echoed), the symbols *)
(*                of the real key, and the decimal rendering (computed by  *)
(*                Go from the big-endian bytes) of the sequence / height   *)
(*   ty = "iter": [i, via, res, got]  a real prefix iteration over a store *)
(*                populated with every key of the table: i = row of the    *)
(*                prefix tuple, got = rows of the entries returned         *)
(* The key table is explored as a trie (KeyTrie.tla) exactly like the      *)
(* specification's own table in MC_StoreKeys, so collisions and foreign    *)
(* entries under a prefix are found on the real keys themselves.           *)
(*   C16  injective-v1-v1 / -v2-v2 / -v1-v2, prefix-iteration (trie),      *)
(*        prefix-iteration-store (real iterator / keeper getters)          *)
(*   CONF key-layout (real key = Key(t) of StoreKeys.tla)                  *)
(*   X    harness sanity                                                   *)
(***************************************************************************)
EXTENDS KeyTrie

Id(i, j) == "K" \o ToString(WORLD) \o "-" \o ToString(i) \o "-" \o ToString(j)

TupleUniverse == Tuples \cup PrefixTuples

IterRows == SelectSeq(Trace, LAMBDA ln : ln.ty = "iter")

RowViol(i) ==
    LET ln == KeyRows[i] IN
       { <<"X", "row-order">> : x \in IF ln.i = i THEN {} ELSE {1} }
  \cup { <<"X", "seq-dec-be-mismatch">> : x \in IF ln.sdec = ln.t.s.dec /\ ln.hdec = <<ln.t.h.rev.dec, ln.t.h.ht.dec>> THEN {} ELSE {1} }
  \cup { <<"X", "tuple-not-in-case-table">> : x \in IF ln.t \in TupleUniverse THEN {} ELSE {1} }
  \cup { <<"CONF", "key-layout">> : x \in IF ln.key = Key(ln.t) THEN {} ELSE {1} }

IterViol(ln) ==
    LET p == ln.i IN
       { <<"X", "iter-row">> : x \in IF p \in 1..N /\ Table[p].pfx /\ \A q \in DOMAIN ln.got : ln.got[q] \in 0..N THEN {} ELSE {1} }
  \cup { <<"C16", "prefix-iteration-store">> : x \in
           IF /\ p \in 1..N /\ Table[p].pfx /\ Table[p].valid /\ ln.res = "ok"
              /\ \E q \in DOMAIN ln.got : LET j == ln.got[q] IN j \in 1..N /\ Table[j].valid /\ ~Owns(TupOf(p), TupOf(j))
           THEN {1} ELSE {} }
  \cup { <<"CONF", "iteration-panicked">> : x \in IF ln.res = "ok" THEN {} ELSE {1} }

FirstForeign(ln) ==
    LET p == ln.i
        bad == { q \in DOMAIN ln.got : LET j == ln.got[q] IN j \in 1..N /\ Table[j].valid /\ ~Owns(TupOf(p), TupOf(j)) }
    IN IF bad = {} \/ ~(p \in 1..N) THEN 0 ELSE ln.got[MinOfSet(bad)]

Init == /\ TrieInit
        /\ \A i \in DOMAIN KeyRows : \A v \in RowViol(i) : PrintT(<<"MONFAIL", Id(i, 0), 0, v>>)
        /\ \A q \in DOMAIN IterRows : \A v \in IterViol(IterRows[q]) :
               PrintT(<<"MONFAIL", Id(IterRows[q].i, FirstForeign(IterRows[q])), 0, v>>)
        /\ (Cardinality({ KeyRows[i].t : i \in DOMAIN KeyRows }) = Cardinality(TupleUniverse)
              \/ PrintT(<<"MONFAIL", Id(0, 0), 0, <<"X", "table-incomplete">>>>))
        /\ PrintT(<<"CONSUMED", Len(Trace)>>)

\* monitors of the trie node just reached
Judge == \A v \in NodeViol(d', live') : PrintT(<<"MONFAIL", Id(v[2], v[3]), d', <<"C16", v[1]>>>>)

Next == TrieNext /\ Judge

TraceSpec == Init /\ [][Next]_<<d, live>>
=============================================================================
