------------------------------- MODULE Router -------------------------------
(***************************************************************************)
(* C48  Port routing is unambiguous and order-independent.                 *)
(*                                                                         *)
(* Two routers of ibc-go are modelled as functions over explicit state     *)
(* records:                                                                *)
(*   v1   modules/core/05-port/types/router.go  (AddRoute, Seal, Keys) and *)
(*        modules/core/05-port/keeper/keeper.go (Route: exact match, else  *)
(*        the first key IN SORTED ORDER that is a substring of the port)   *)
(*   v2   modules/core/api/router.go (AddRoute / AddPrefixRoute refusal    *)
(*        rules, Route = direct route first, else the matching prefix)     *)
(* Names and port identifiers are sequences of one-character strings.      *)
(* A registration is a record [m |-> "v1" | "route" | "prefix", n |-> name]*)
(* and doubles as the identity of the module registered with it.           *)
(***************************************************************************)
EXTENDS Naturals, Sequences, FiniteSets

CONSTANTS CHARS,     \* alphabet of names and ports: a set of one-character strings out of Alphabet
          MaxName,   \* names have 1..MaxName characters
          MaxPort,   \* queried port identifiers have 0..MaxPort characters
          MaxRegs,   \* a configuration registers at most MaxRegs names
          ODD,       \* TRUE: the empty name and a non-alphanumeric name are attempted as well
          VERSION    \* "v1" | "v2"

\* the characters in ASCII order ("-" is the only non-alphanumeric one)
Alphabet == <<"-", "0", "1", "a", "b", "c", "r", "t", "x">>
Ord(c)   == CHOOSE i \in DOMAIN Alphabet : Alphabet[i] = c

SeqsUpTo(A, n) == UNION { [1..k -> A] : k \in 0..n }

OddNames == IF ODD THEN { <<>>, <<"a", "-">> } ELSE {}
Names    == (SeqsUpTo(CHARS, MaxName) \ { <<>> }) \cup OddNames
Ports    == SeqsUpTo(CHARS, MaxPort)
Modes    == IF VERSION = "v1" THEN {"v1"} ELSE {"route", "prefix"}
Regs     == [m : Modes, n : Names]

NoneReg  == [m |-> "none", n |-> <<>>]

MinOf(a, b) == IF a < b THEN a ELSE b

IsAlnum(n) == n # <<>> /\ \A i \in DOMAIN n : n[i] # "-"

IsPrefixOf(p, s) == Len(p) <= Len(s) /\ SubSeq(s, 1, Len(p)) = p

\* strings.Contains(s, sub)
Contains(s, sub) == \E k \in 0..(Len(s) - Len(sub)) : Len(sub) <= Len(s) /\ SubSeq(s, k + 1, k + Len(sub)) = sub

\* bytewise lexicographic order of Go strings (slices.Sort)
LexLess(a, b) ==
    \E i \in 1..(MinOf(Len(a), Len(b)) + 1) :
        /\ \A j \in 1..(i - 1) : a[j] = b[j]
        /\ IF i > Len(a) THEN i <= Len(b)
           ELSE IF i > Len(b) THEN FALSE ELSE Ord(a[i]) < Ord(b[i])

(***************************************************************************)
(* State: the two maps of the router (their key sets; the value of a key   *)
(* is the registration itself).                                            *)
(***************************************************************************)
EmptyRouter == [routes |-> {}, prefixes |-> {}, sealed |-> FALSE]

\* ---- v1: 05-port/types/router.go:AddRoute, guards in code order ----------------------
G1_NotSealed(S)     == ~S.sealed
G1_Alnum(r)         == IsAlnum(r.n)
G1_NotDuplicate(S, r) == r.n \notin S.routes

\* ---- v2: api/router.go:AddRoute -----------------------------------------------------
GR_Alnum(r)            == IsAlnum(r.n)
GR_NotDuplicate(S, r)  == r.n \notin S.routes
GR_NoPrefixCovers(S, r) == \A p \in S.prefixes : ~IsPrefixOf(p, r.n)

\* ---- v2: api/router.go:AddPrefixRoute -----------------------------------------------
GP_Alnum(r)               == IsAlnum(r.n)
GP_NotPrefixOfRoute(S, r) == \A q \in S.routes : ~IsPrefixOf(r.n, q)
GP_NoPrefixOverlap(S, r)  == \A p \in S.prefixes : ~IsPrefixOf(p, r.n) /\ ~IsPrefixOf(r.n, p)

Guard(S, r) ==
    CASE r.m = "v1"     -> G1_NotSealed(S) /\ G1_Alnum(r) /\ G1_NotDuplicate(S, r)
      [] r.m = "route"  -> GR_Alnum(r) /\ GR_NotDuplicate(S, r) /\ GR_NoPrefixCovers(S, r)
      [] r.m = "prefix" -> GP_Alnum(r) /\ GP_NotPrefixOfRoute(S, r) /\ GP_NoPrefixOverlap(S, r)

\* total: a refused registration panics and leaves the router unchanged
Add(S, r) ==
    IF Guard(S, r)
    THEN [res |-> "ok",
          S   |-> IF r.m = "prefix" THEN [S EXCEPT !.prefixes = @ \cup {r.n}] ELSE [S EXCEPT !.routes = @ \cup {r.n}]]
    ELSE [res |-> "panic", S |-> S]

AddAll(S, rs) ==
    LET F[i \in 0..Len(rs)] == IF i = 0 THEN S ELSE Add(F[i - 1], rs[i]).S IN F[Len(rs)]

\* what the whole set would be if nothing were refused
SplitOf(T) == [routes   |-> { r.n : r \in { x \in T : x.m # "prefix" } },
               prefixes |-> { r.n : r \in { x \in T : x.m = "prefix" } },
               sealed   |-> FALSE]

(***************************************************************************)
(* Resolution                                                              *)
(***************************************************************************)
\* every registered entry that claims the port (v2)
Matches(S, port) == { [m |-> "route", n |-> q] : q \in S.routes \cap {port} }
               \cup { [m |-> "prefix", n |-> p] : p \in { x \in S.prefixes : IsPrefixOf(x, port) } }

\* api/router.go:getRoute -- direct routes first, then the prefix route that matches
RouteV2(S, port) ==
    IF port \in S.routes THEN [m |-> "route", n |-> port]
    ELSE LET c == { p \in S.prefixes : IsPrefixOf(p, port) }
         IN IF c = {} THEN NoneReg ELSE [m |-> "prefix", n |-> CHOOSE p \in c : TRUE]

\* 05-port/keeper/keeper.go:Route -- exact, else the first sorted key contained in the port
ContainedKeys(S, port) == { k \in S.routes : Contains(port, k) }
RouteV1(S, port) ==
    IF port \in S.routes THEN [m |-> "v1", n |-> port]
    ELSE LET c == ContainedKeys(S, port)
         IN IF c = {} THEN NoneReg
            ELSE [m |-> "v1", n |-> CHOOSE k \in c : \A o \in c \ {k} : LexLess(k, o)]

Route(S, port) == IF VERSION = "v1" THEN RouteV1(S, port) ELSE RouteV2(S, port)

(***************************************************************************)
(* Ambiguity (v2).  A configuration is ambiguous when some port identifier *)
(* is claimed by two registered entries.  Structurally that is: a prefix   *)
(* that is a prefix of a direct route (the route itself is such a port) or *)
(* of another prefix.                                                      *)
(***************************************************************************)
AmbiguousSet(S) == \/ \E p \in S.prefixes : \E q \in S.routes : IsPrefixOf(p, q)
                   \/ \E p \in S.prefixes : \E q \in S.prefixes \ {p} : IsPrefixOf(p, q)

AmbiguousOn(S, ports) == \E port \in ports : Cardinality(Matches(S, port)) > 1

\* would accepting r (in whatever way) make the configuration ambiguous, or register a name twice?
WouldBeAmbiguous(S, r) ==
    \/ r.m = "route"  /\ (r.n \in S.routes \/ AmbiguousSet([S EXCEPT !.routes = @ \cup {r.n}]))
    \/ r.m = "prefix" /\ (r.n \in S.prefixes \/ AmbiguousSet([S EXCEPT !.prefixes = @ \cup {r.n}]))

\* a whole set of registrations that can be accepted in full
Compatible(T) == /\ \A r \in T : IsAlnum(r.n)
                 /\ VERSION = "v2" => ~AmbiguousSet(SplitOf(T))
=============================================================================
