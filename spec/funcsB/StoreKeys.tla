----------------------------- MODULE StoreKeys -----------------------------
(***************************************************************************)
(* C16 (function part)  Store key spaces never collide.                    *)
(*                                                                         *)
(* Every key constructor of the IBC store is written down as a function    *)
(* from an abstract tuple (kind, identifiers, sequence / height) to the    *)
(* key, a sequence of SYMBOLS: a printable ASCII byte is the one-character *)
(* string, any other byte b is the three-character string "xHH".           *)
(*   modules/core/24-host       channel / packet / connection / client keys*)
(*   modules/core/24-host/v2    clientID || kind-byte || big-endian seq    *)
(*   04-channel/v2/types/keys.go  AsyncPacketKey, AsyncPacketPrefixKey,    *)
(*                                AliasKey (identifier || literal)         *)
(*   02-client keeper           prefix store "clients/<id>/" and the keys  *)
(*                              the light clients put inside it            *)
(* Identifiers are built from TOKENS (generic filler, digits, and the      *)
(* literals that occur in keys, because the only way a collision can arise *)
(* is an identifier or a raw sequence byte spelling a literal).  WORLD     *)
(* selects the concrete representatives of the generic tokens (punctuation,*)
(* case, maximal length).                                                  *)
(***************************************************************************)
EXTENDS Naturals, Sequences, FiniteSets

CONSTANT WORLD   \* 0..3

(***************************************************************************)
(* Literals                                                                *)
(***************************************************************************)
L_ports == <<"p","o","r","t","s">>
L_channels == <<"c","h","a","n","n","e","l","s">>
L_channelEnds == <<"c","h","a","n","n","e","l","E","n","d","s">>
L_sequences == <<"s","e","q","u","e","n","c","e","s">>
L_nextSequenceSend == <<"n","e","x","t","S","e","q","u","e","n","c","e","S","e","n","d">>
L_nextSequenceRecv == <<"n","e","x","t","S","e","q","u","e","n","c","e","R","e","c","v">>
L_nextSequenceAck == <<"n","e","x","t","S","e","q","u","e","n","c","e","A","c","k">>
L_commitments == <<"c","o","m","m","i","t","m","e","n","t","s">>
L_acks == <<"a","c","k","s">>
L_receipts == <<"r","e","c","e","i","p","t","s">>
L_recvStartSequence == <<"r","e","c","v","S","t","a","r","t","S","e","q","u","e","n","c","e">>
L_clients == <<"c","l","i","e","n","t","s">>
L_clientState == <<"c","l","i","e","n","t","S","t","a","t","e">>
L_consensusStates == <<"c","o","n","s","e","n","s","u","s","S","t","a","t","e","s">>
L_connections == <<"c","o","n","n","e","c","t","i","o","n","s">>
L_creator == <<"c","r","e","a","t","o","r">>
L_counterparty == <<"c","o","u","n","t","e","r","p","a","r","t","y">>
L_config == <<"c","o","n","f","i","g">>
L_processedTime == <<"p","r","o","c","e","s","s","e","d","T","i","m","e">>
L_processedHeight == <<"p","r","o","c","e","s","s","e","d","H","e","i","g","h","t">>
L_iterateConsensusStates == <<"i","t","e","r","a","t","e","C","o","n","s","e","n","s","u","s","S","t","a","t","e","s">>
L_nextClientSequence == <<"n","e","x","t","C","l","i","e","n","t","S","e","q","u","e","n","c","e">>
L_nextConnectionSequence == <<"n","e","x","t","C","o","n","n","e","c","t","i","o","n","S","e","q","u","e","n","c","e">>
L_nextChannelSequence == <<"n","e","x","t","C","h","a","n","n","e","l","S","e","q","u","e","n","c","e">>
L_clientParams == <<"c","l","i","e","n","t","P","a","r","a","m","s">>
L_connectionParams == <<"c","o","n","n","e","c","t","i","o","n","P","a","r","a","m","s">>
L_async_packet == <<"a","s","y","n","c","_","p","a","c","k","e","t">>
L_alias == <<"a","l","i","a","s">>

SL  == <<"/">>
DSH == <<"-">>

(***************************************************************************)
(* Identifier validity (modules/core/24-host/validate.go)                  *)
(***************************************************************************)
Lower == {"a","b","c","d","e","f","g","h","i","j","k","l","m","n","o","p","q","r","s","t","u","v","w","x","y","z"}
Upper == {"A","B","C","D","E","F","G","H","I","J","K","L","M","N","O","P","Q","R","S","T","U","V","W","X","Y","Z"}
Digit == {"0","1","2","3","4","5","6","7","8","9"}
Punct == {".", "_", "+", "-", "#", "[", "]", "<", ">"}
IdChars == Lower \cup Upper \cup Digit \cup Punct

\* defaultIdentifierValidator(id, min, max): not blank, no "/", length within bounds, only IdChars
ValidId(id, min, max) == Len(id) >= min /\ Len(id) <= max /\ \A i \in DOMAIN id : id[i] \in IdChars

ValidClient(id)     == ValidId(id, 4, 64)
ValidConnection(id) == ValidId(id, 10, 64)
ValidChannel(id)    == ValidId(id, 8, 64)
ValidPort(id)       == ValidId(id, 2, 128)

(***************************************************************************)
(* Tokens.  The generic ones depend on WORLD.                              *)
(***************************************************************************)
\* generic filler of a minimal client identifier (4 characters), or a long one that brings
\* F \o "async_packet" \o X3 \o ... close to the 64-character limit
F == CASE WORLD = 0 -> <<"a","b","c","d">>
       [] WORLD = 1 -> <<"A",".","b","_">>
       [] WORLD = 2 -> <<"-","#","[","]">>
       [] WORLD = 3 -> <<"a","b","c","d","e","f","g","h","i","j","k","l","m","n","o","p","q","r","s","t","u","v","w","x","y","z",
                         "A","B","C","D","E","F","G","H","I","J","K","L","M","N","O","P","Q","R","S","<",">","+","9">>
\* three generic identifier characters (they are also the three leading bytes of the sequence SeqAlias)
X3 == CASE WORLD = 0 -> <<"a","a","a">>
        [] WORLD = 1 -> <<"A",".","b">>
        [] WORLD = 2 -> <<"-","#","[">>
        [] WORLD = 3 -> <<"<",">","Z">>
D1 == <<"1">>
D0 == <<"0">>
\* generic 2-character port, 8-character channel filler, 10-character connection filler
P2  == CASE WORLD = 1 -> <<"T","+">> [] WORLD = 2 -> <<"<",">">> [] OTHER -> <<"a","b">>
C8  == CASE WORLD = 1 -> <<"C","h","a","N","n","e","l","_">>
         [] WORLD = 2 -> <<"c","h",".","n","[","e","]","#">>
         [] OTHER     -> <<"c","h","a","n","n","e","l","-">>
N10 == <<"c","o","n","n","e","c","t","i","o","n","-">>
\* a port of the maximal length 128 (WORLD 3 only): P2 followed by 126 characters
Rep(s, n) == LET R[i \in 0..n] == IF i = 0 THEN <<>> ELSE R[i - 1] \o s IN R[n]
LongPort == P2 \o Rep(<<"q","_","7",".","Z","+">>, 21)
LongChan == C8 \o Rep(<<"w","-","3","#","Y","]","[">>, 8)

B(hh) == <<"x" \o hh>>     \* raw non-printable byte as one symbol, hh = two hex digits

Concat(ts) == LET R[i \in 0..Len(ts)] == IF i = 0 THEN <<>> ELSE R[i - 1] \o ts[i] IN R[Len(ts)]
SeqsUpTo(A, n) == UNION { [1..k -> A] : k \in 0..n }

\* ---- identifier universes ---------------------------------------------------------------
\* v2 identifiers (clients, aliases = v1 channel ids): ALL concatenations of at most 3 tokens
V2Tokens == {F, L_async_packet, L_alias, X3, D1}
V2Ids    == { Concat(ts) : ts \in SeqsUpTo(V2Tokens, 3) \ {<<>>} }
\* identifiers no validator accepts (kept to document collisions that need them)
BadIds   == { F \o B("01"), F \o SL \o F, <<"a","b","c">>, F \o <<" ">> }

ClientIds == { id \in V2Ids : ValidClient(id) } \cup BadIds
AliasIds  == { id \in V2Ids : ValidChannel(id) } \cup {C8 \o D1, C8 \o D1 \o D0} \cup BadIds

\* v1 identifiers: separated by "/" everywhere, so the adversarial ones are the key literals and digit suffixes
Ports    == {P2, L_ports, L_channels, P2 \o D1} \cup (IF WORLD = 3 THEN {LongPort} ELSE {})
Channels == {C8 \o D1, C8 \o D1 \o D1, C8 \o D1 \o D0, L_sequences, L_channels, F \o L_async_packet \o X3}
            \cup (IF WORLD = 3 THEN {LongChan} ELSE {})
\* pairs with a "/" inside an identifier (rejected by the validators): ChannelPath is ambiguous for them
BadPairs == { <<P2 \o SL \o L_channels \o SL \o C8, C8 \o D1>>, <<P2, C8 \o SL \o L_channels \o SL \o C8 \o D1>> }
PortChans == (Ports \X Channels) \cup BadPairs
ConnIds  == {N10 \o D0, N10 \o D1, N10 \o D1 \o D0}
\* clients whose prefix store and inner keys are enumerated
StoreClients == {F, F \o D1, F \o D1 \o D1, F \o L_async_packet, L_clients, L_clientState, F \o SL \o F}

(***************************************************************************)
(* Sequences and heights: a 64-bit value is given by its 8 big-endian      *)
(* bytes (symbols) and its decimal digits (TLC integers are 32 bit; the    *)
(* harness checks that be and dec denote the same number).                 *)
(***************************************************************************)
Z7 == Rep(B("00"), 7)
AliasDec == CASE WORLD = 0 -> <<"7","0","1","6","9","9","6","7","6","5","4","7","8","5","1","0","9","6","3">>
              [] WORLD = 1 -> <<"4","6","9","6","7","9","9","6","3","1","9","6","4","2","0","1","3","3","1">>
              [] WORLD = 2 -> <<"3","2","5","2","5","4","3","8","2","9","8","8","0","4","3","0","9","6","3">>
              [] WORLD = 3 -> <<"4","3","4","1","0","0","6","4","6","5","3","0","8","9","0","9","9","3","9">>
Seq1     == [be |-> Z7 \o B("01"), dec |-> <<"1">>]
Seq10    == [be |-> Z7 \o B("0a"), dec |-> <<"1","0">>]
Seq11    == [be |-> Z7 \o B("0b"), dec |-> <<"1","1">>]
SeqSlash == [be |-> Z7 \o SL, dec |-> <<"4","7">>]                       \* last byte is "/"
SeqAlias == [be |-> X3 \o L_alias, dec |-> AliasDec]                     \* bytes spell X3 "alias"
SeqKinds == [be |-> B("01") \o B("02") \o B("03") \o B("01") \o B("02") \o B("03") \o B("01") \o B("02"),
             dec |-> <<"7","2","6","2","3","8","4","6","8","5","4","9","5","1","1","7","0">>]
SeqMax   == [be |-> Rep(B("ff"), 8), dec |-> <<"1","8","4","4","6","7","4","4","0","7","3","7","0","9","5","5","1","6","1","5">>]
NoSeq    == [be |-> <<>>, dec |-> <<>>]
Seqs     == {Seq1, Seq10, Seq11, SeqSlash, SeqAlias, SeqKinds, SeqMax}

\* heights: revision and height as sequences (be, dec)
H_0_1  == [rev |-> [be |-> Rep(B("00"), 8), dec |-> <<"0">>], ht |-> Seq1]
H_1_1  == [rev |-> Seq1, ht |-> Seq1]
H_1_10 == [rev |-> Seq1, ht |-> Seq10]
H_11_0 == [rev |-> Seq11, ht |-> [be |-> Rep(B("00"), 8), dec |-> <<"0">>]]
NoHeight == [rev |-> NoSeq, ht |-> NoSeq]
Heights == {H_0_1, H_1_1, H_1_10, H_11_0}
HeightStr(h) == h.rev.dec \o DSH \o h.ht.dec           \* clienttypes.Height.String()

(***************************************************************************)
(* Key constructors                                                        *)
(***************************************************************************)
\* ---- 24-host (v1) -----------------------------------------------------------------------
ChannelPath(p, c)        == L_ports \o SL \o p \o SL \o L_channels \o SL \o c
ChannelKey(p, c)         == L_channelEnds \o SL \o ChannelPath(p, c)
NextSequenceRecvKey(p, c) == L_nextSequenceRecv \o SL \o ChannelPath(p, c)
NextSequenceAckKey(p, c) == L_nextSequenceAck \o SL \o ChannelPath(p, c)
RecvStartSequenceKey(p, c) == L_recvStartSequence \o SL \o ChannelPath(p, c)
PacketCommitmentPrefixKeyV1(p, c) == L_commitments \o SL \o ChannelPath(p, c) \o SL \o L_sequences
PacketCommitmentKeyV1(p, c, s)    == PacketCommitmentPrefixKeyV1(p, c) \o SL \o s.dec
PacketAckPrefixKeyV1(p, c)        == L_acks \o SL \o ChannelPath(p, c) \o SL \o L_sequences
PacketAckKeyV1(p, c, s)           == PacketAckPrefixKeyV1(p, c) \o SL \o s.dec
PacketReceiptKeyV1(p, c, s)       == L_receipts \o SL \o ChannelPath(p, c) \o SL \o L_sequences \o SL \o s.dec
ConnectionKey(id)        == L_connections \o SL \o id
ClientStorePrefix(cl)    == L_clients \o SL \o cl \o SL            \* 02-client keeper ClientStore
FullClientKey(cl, path)  == L_clients \o SL \o cl \o SL \o path
ConsensusStateKey(h)     == L_consensusStates \o SL \o HeightStr(h)
\* ---- 07-tendermint keys inside the client store -------------------------------------------
ProcessedTimeKey(h)      == ConsensusStateKey(h) \o SL \o L_processedTime
ProcessedHeightKey(h)    == ConsensusStateKey(h) \o SL \o L_processedHeight
IterationKey(h)          == L_iterateConsensusStates \o h.rev.be \o h.ht.be
\* ---- 24-host/v2 ---------------------------------------------------------------------------
PacketCommitmentPrefixKeyV2(cl) == cl \o B("01")
PacketReceiptPrefixKeyV2(cl)    == cl \o B("02")
PacketAckPrefixKeyV2(cl)        == cl \o B("03")
NextSequenceSendKey(id)  == L_nextSequenceSend \o SL \o SL \o id       \* the prefix constant ends in "/" and "%s/%s" adds one
\* ---- 04-channel/v2/types/keys.go ----------------------------------------------------------
AsyncPacketPrefixKey(cl) == cl \o L_async_packet                       \* no separator
AsyncPacketKey(cl, s)    == AsyncPacketPrefixKey(cl) \o s.be
AliasKey(al)             == al \o L_alias                              \* no separator

(***************************************************************************)
(* Tuples: [k, a, b, s, h]; unused fields are empty.                       *)
(***************************************************************************)
T(k, a, b, s, h) == [k |-> k, a |-> a, b |-> b, s |-> s, h |-> h]

PairKinds   == {"chanEnd", "nextRecv", "nextAck", "recvStart"}
PacketKinds == {"commitV1", "ackV1", "receiptV1"}
V2PacketKinds == {"commitV2", "receiptV2", "ackV2", "asyncV2"}
ClientPlainKinds == {"clientState", "clientConns", "creator", "counterparty", "config"}
ClientHeightKinds == {"consState", "procTime", "procHeight", "iterKey"}
ClientKinds == ClientPlainKinds \cup ClientHeightKinds
GlobalKinds == {"nextClientSeq", "nextConnSeq", "nextChanSeq", "clientParams", "connParams"}
V1Kinds == PairKinds \cup PacketKinds \cup {"conn"} \cup ClientKinds \cup GlobalKinds
V2Kinds == V2PacketKinds \cup {"aliasV2", "nextSend"}
\* pseudo tuples: the prefix keys used for prefix iteration over one channel / client
PrefixKinds == {"PFX-commitV1", "PFX-ackV1", "PFX-commitV2", "PFX-receiptV2", "PFX-ackV2", "PFX-asyncV2", "PFX-clientStore"}

Tuples ==
       { T(k, pc[1], pc[2], NoSeq, NoHeight) : k \in PairKinds, pc \in PortChans }
  \cup { T(k, pc[1], pc[2], s, NoHeight) : k \in PacketKinds, pc \in PortChans, s \in Seqs }
  \cup { T("conn", id, <<>>, NoSeq, NoHeight) : id \in ConnIds }
  \cup { T(k, cl, <<>>, NoSeq, NoHeight) : k \in ClientPlainKinds, cl \in StoreClients }
  \cup { T(k, cl, <<>>, NoSeq, h) : k \in ClientHeightKinds, cl \in StoreClients, h \in Heights }
  \cup { T(k, <<>>, <<>>, NoSeq, NoHeight) : k \in GlobalKinds }
  \cup { T(k, cl, <<>>, s, NoHeight) : k \in V2PacketKinds, cl \in ClientIds, s \in Seqs }
  \cup { T("aliasV2", al, <<>>, NoSeq, NoHeight) : al \in AliasIds }
  \cup { T("nextSend", id, <<>>, NoSeq, NoHeight) : id \in ClientIds \cup AliasIds }

PrefixTuples ==
       { T(k, pc[1], pc[2], NoSeq, NoHeight) : k \in {"PFX-commitV1", "PFX-ackV1"}, pc \in PortChans }
  \cup { T(k, cl, <<>>, NoSeq, NoHeight) : k \in {"PFX-commitV2", "PFX-receiptV2", "PFX-ackV2", "PFX-asyncV2"}, cl \in ClientIds }
  \cup { T("PFX-clientStore", cl, <<>>, NoSeq, NoHeight) : cl \in StoreClients }

Key(t) ==
    CASE t.k = "chanEnd"    -> ChannelKey(t.a, t.b)
      [] t.k = "nextRecv"   -> NextSequenceRecvKey(t.a, t.b)
      [] t.k = "nextAck"    -> NextSequenceAckKey(t.a, t.b)
      [] t.k = "recvStart"  -> RecvStartSequenceKey(t.a, t.b)
      [] t.k = "commitV1"   -> PacketCommitmentKeyV1(t.a, t.b, t.s)
      [] t.k = "ackV1"      -> PacketAckKeyV1(t.a, t.b, t.s)
      [] t.k = "receiptV1"  -> PacketReceiptKeyV1(t.a, t.b, t.s)
      [] t.k = "conn"       -> ConnectionKey(t.a)
      [] t.k = "clientState" -> FullClientKey(t.a, L_clientState)
      [] t.k = "clientConns" -> FullClientKey(t.a, L_connections)
      [] t.k = "creator"    -> FullClientKey(t.a, L_creator)
      [] t.k = "counterparty" -> FullClientKey(t.a, L_counterparty)
      [] t.k = "config"     -> FullClientKey(t.a, L_config)
      [] t.k = "consState"  -> FullClientKey(t.a, ConsensusStateKey(t.h))
      [] t.k = "procTime"   -> FullClientKey(t.a, ProcessedTimeKey(t.h))
      [] t.k = "procHeight" -> FullClientKey(t.a, ProcessedHeightKey(t.h))
      [] t.k = "iterKey"    -> FullClientKey(t.a, IterationKey(t.h))
      [] t.k = "nextClientSeq" -> L_nextClientSequence
      [] t.k = "nextConnSeq"   -> L_nextConnectionSequence
      [] t.k = "nextChanSeq"   -> L_nextChannelSequence
      [] t.k = "clientParams"  -> L_clientParams
      [] t.k = "connParams"    -> L_connectionParams
      [] t.k = "commitV2"   -> PacketCommitmentPrefixKeyV2(t.a) \o t.s.be
      [] t.k = "receiptV2"  -> PacketReceiptPrefixKeyV2(t.a) \o t.s.be
      [] t.k = "ackV2"      -> PacketAckPrefixKeyV2(t.a) \o t.s.be
      [] t.k = "asyncV2"    -> AsyncPacketKey(t.a, t.s)
      [] t.k = "aliasV2"    -> AliasKey(t.a)
      [] t.k = "nextSend"   -> NextSequenceSendKey(t.a)
      [] t.k = "PFX-commitV1"   -> PacketCommitmentPrefixKeyV1(t.a, t.b)
      [] t.k = "PFX-ackV1"      -> PacketAckPrefixKeyV1(t.a, t.b)
      [] t.k = "PFX-commitV2"   -> PacketCommitmentPrefixKeyV2(t.a)
      [] t.k = "PFX-receiptV2"  -> PacketReceiptPrefixKeyV2(t.a)
      [] t.k = "PFX-ackV2"      -> PacketAckPrefixKeyV2(t.a)
      [] t.k = "PFX-asyncV2"    -> AsyncPacketPrefixKey(t.a)
      [] t.k = "PFX-clientStore" -> ClientStorePrefix(t.a)

\* are the identifiers of the tuple accepted by the validator of their role?
ValidTuple(t) ==
    CASE t.k \in PairKinds \cup PacketKinds \cup {"PFX-commitV1", "PFX-ackV1"} -> ValidPort(t.a) /\ ValidChannel(t.b)
      [] t.k = "conn"     -> ValidConnection(t.a)
      [] t.k \in ClientKinds \cup V2PacketKinds \cup {"PFX-commitV2", "PFX-receiptV2", "PFX-ackV2", "PFX-asyncV2", "PFX-clientStore"}
                          -> ValidClient(t.a)
      [] t.k = "aliasV2"  -> ValidChannel(t.a)
      [] t.k = "nextSend" -> ValidClient(t.a)          \* a channel identifier is a client identifier too (8 >= 4)
      [] OTHER            -> TRUE

IsPrefixTuple(t) == t.k \in PrefixKinds

\* the entries a prefix iteration is meant to return
Owns(p, t) ==
    CASE p.k = "PFX-commitV1"    -> t.k = "commitV1" /\ t.a = p.a /\ t.b = p.b
      [] p.k = "PFX-ackV1"       -> t.k = "ackV1" /\ t.a = p.a /\ t.b = p.b
      [] p.k = "PFX-commitV2"    -> t.k = "commitV2" /\ t.a = p.a
      [] p.k = "PFX-receiptV2"   -> t.k = "receiptV2" /\ t.a = p.a
      [] p.k = "PFX-ackV2"       -> t.k = "ackV2" /\ t.a = p.a
      [] p.k = "PFX-asyncV2"     -> t.k = "asyncV2" /\ t.a = p.a
      [] p.k = "PFX-clientStore" -> t.k \in ClientKinds /\ t.a = p.a
      [] OTHER -> FALSE

\* The constructors that join an identifier and a literal of identifier characters WITHOUT a separator.
NoSeparatorKinds == {"asyncV2", "aliasV2", "PFX-asyncV2"}
=============================================================================
