------------------------------ MODULE KeyTrie ------------------------------
(***************************************************************************)
(* Exhaustive exploration of a KEY TABLE (tuple |-> key) as a trie: a      *)
(* state is a node of the trie (depth d, the set `live` of table rows      *)
(* whose key has the node's prefix), a transition appends one symbol.      *)
(*   - two rows that END in the same node have the same key (collision);   *)
(*   - the rows below the node of a prefix key are exactly what a prefix   *)
(*     iteration with that key returns.                                    *)
(* The table is either the specification's own (TraceFile = "": Key(t) of  *)
(* StoreKeys.tla for every enumerated tuple -- MC_StoreKeys) or the keys   *)
(* the REAL constructors produced for the same tuples, as logged by the Go *)
(* harness (TraceFile # "" -- Trace_StoreKeys).                            *)
(***************************************************************************)
EXTENDS StoreKeys, SequencesExt, Json, TLC

CONSTANTS TraceFile, OutFile

AllTuples == SetToSeq(Tuples \cup PrefixTuples)

\* serialised once for the harness (OutFile # "")
CaseDoc == [world |-> WORLD, tuples |-> AllTuples]

Trace == IF TraceFile = "" THEN <<>> ELSE ndJsonDeserialize(TraceFile)
\* rows of kind "key" come first in the harness log, one per tuple, in the order of the case table
KeyRows == IF TraceFile = "" THEN <<>> ELSE SelectSeq(Trace, LAMBDA ln : ln.ty = "key")

\* validity and role of a tuple are evaluated once per row
Row(t, key) == [t |-> t, key |-> key, len |-> Len(key), pfx |-> IsPrefixTuple(t), valid |-> ValidTuple(t)]

Table == IF TraceFile = ""
         THEN [i \in DOMAIN AllTuples |-> Row(AllTuples[i], Key(AllTuples[i]))]
         ELSE [i \in DOMAIN KeyRows |-> Row(KeyRows[i].t, KeyRows[i].key)]

N == Len(Table)
KeyOf(i) == Table[i].key
TupOf(i) == Table[i].t

VARIABLES d, live

MinOfSet(X) == CHOOSE x \in X : \A y \in X : x <= y

IsV2(t) == t.k \in V2Kinds \cup {"PFX-commitV2", "PFX-receiptV2", "PFX-ackV2", "PFX-asyncV2"}

\* rows whose key ends exactly here
Term(dd, lv) == { i \in lv : Table[i].len = dd }

\* violations visible at this node: <<clause, i, j>>
NodeViol(dd, lv) ==
    LET term  == Term(dd, lv)
        real  == { i \in term : ~Table[i].pfx /\ Table[i].valid }
        pfx   == { i \in term : Table[i].pfx /\ Table[i].valid }
        vlive == { j \in lv : ~Table[j].pfx /\ Table[j].valid }
    IN
       { <<IF IsV2(TupOf(ij[1])) /\ IsV2(TupOf(ij[2])) THEN "injective-v2-v2"
           ELSE IF ~IsV2(TupOf(ij[1])) /\ ~IsV2(TupOf(ij[2])) THEN "injective-v1-v1" ELSE "injective-v1-v2",
           ij[1], ij[2]>> :
           ij \in IF Cardinality(real) >= 2
                  THEN { <<MinOfSet(real), MinOfSet(real \ {MinOfSet(real)})>> } ELSE {} }
  \cup { <<"prefix-iteration", p, MinOfSet({ j \in vlive : ~Owns(TupOf(p), TupOf(j)) })>> :
           p \in { q \in pfx : \E j \in vlive : ~Owns(TupOf(q), TupOf(j)) } }

\* collisions that exist only for identifiers no validator accepts (documentation)
InvalidOnlyCollision(dd, lv) ==
    LET term == { i \in Term(dd, lv) : ~Table[i].pfx }
    IN Cardinality(term) >= 2 /\ Cardinality({ i \in term : Table[i].valid }) <= 1

InvolvesNoSeparator(v) == TupOf(v[2]).k \in NoSeparatorKinds \/ TupOf(v[3]).k \in NoSeparatorKinds

TrieInit == d = 0 /\ live = 1..N

TrieNext == \E s \in { KeyOf(i)[d + 1] : i \in { j \in live : Table[j].len > d } } :
                /\ live' = { i \in live : Table[i].len > d /\ KeyOf(i)[d + 1] = s }
                /\ d' = d + 1
=============================================================================
