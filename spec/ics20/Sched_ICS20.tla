---------------------------- MODULE Sched_ICS20 ----------------------------
(***************************************************************************)
(* Behaviour generation (2.1b of DESIGN.md): random walks of ICS20, run    *)
(* with  tlc -simulate.  Each walk is written as one JSON schedule and     *)
(* later executed on three real chains.  A step is either the next action  *)
(* of a goal-directed macro (send -> relay -> ack; send -> timeout; return *)
(* a voucher; forward a voucher another hop; provoke an error              *)
(* acknowledgement; late receive), a successful honest action, or an       *)
(* adversarial attempt (wrong signer, overdraft, unknown denomination,     *)
(* duplicate / competing / premature relay by any account, relay of a      *)
(* packet never sent, gift to an escrow account).  After every successful  *)
(* relay the relayer re-submits it and submits the competing terminal      *)
(* message (3.3 of DESIGN.md).                                             *)
(***************************************************************************)
EXTENDS ICS20Actions, Json

CONSTANTS Depth, OutDir, MACRO_PCT, HONEST_PCT,
          NAT_A, NAT_B, NAT_C,  \* native base denominations issued on the three chains
          FUND                  \* amount issued to u1 and to u2

VARIABLES S, sched, todo

Natives(c) == IF c = "A" THEN NAT_A ELSE IF c = "B" THEN NAT_B ELSE NAT_C

\* a sequence enumerating a finite set (order irrelevant)
RECURSIVE SeqOf(_)
SeqOf(X) == IF X = {} THEN <<>> ELSE LET x == CHOOSE y \in X : TRUE IN <<x>> \o SeqOf(X \ {x})

FundPrefix == SeqOf(UNION { { [a |-> "Fund", c |-> c, acct |-> u, base |-> b, amt |-> FUND, valid |-> TRUE]
                               : u \in {"u1", "u2"}, b \in Natives(c) } : c \in Chains })

\* every walk starts with the three ways of moving somebody else's tokens (C49): MsgTransfer over v1 and over the
\* alias signed by a key other than Sender, and a v2 MsgSendPacket whose ICS-20 payload names another sender
PlainBase == CHOOSE b \in NAT_A : b \notin SLASH
ForeignSends == [i \in 1..3 |->
    [a |-> "Transfer", c |-> "A", e |-> IF i = 2 THEN "CA.A" ELSE "AB.A", proto |-> << "v1", "alias", "v2" >>[i],
     sender |-> "u1", signer |-> "u2", receiver |-> "u2", denom |-> Dn(<<>>, PlainBase), amt |-> i,   \* (u2 holds the token too)
     to |-> "t", slash |-> FALSE]]

Init == S = InitState /\ sched = <<>> /\ todo = FundPrefix \o ForeignSends

\* every walk ends with a genesis export / import of the ibc and transfer modules on each chain (C44: identity)
ExportTail == << [a |-> "ExportImport", c |-> "A"], [a |-> "ExportImport", c |-> "B"], [a |-> "ExportImport", c |-> "C"] >>

Rl(n) == IF n = 1 THEN "rly" ELSE IF n = 2 THEN "u1" ELSE IF n = 3 THEN "u2" ELSE "u3"

Relay(name, e, seq, rl) == [a |-> name, c |-> IF name = "Recv" THEN EndChain(Peer(e)) ELSE EndChain(e), e |-> e, seq |-> seq, rl |-> rl]

OkActs(S0, pool) == { a \in pool : Step(S0, a).res = "ok" }

(***************************************************************************)
(* One randomly drawn transfer of a flavour ("ret" returns a voucher over  *)
(* the end it came through, "fwd" sends a voucher on over the other end,   *)
(* "new" sends a native token, "any").  Sampling, not enumeration: the     *)
(* result is a set with at most one action.  Every random draw is bound    *)
(* exactly once through a set binder.                                      *)
(***************************************************************************)
AllHoldings(S0) == UNION { { <<c, k>> : k \in Holdings(S0, c) } : c \in Chains }
FlavourOk(fl, D) == CASE fl = "ret" -> D.tr # <<>>
                      [] fl = "fwd" -> D.tr # <<>> /\ Len(D.tr) < MaxHops
                      [] fl = "new" -> D.tr = <<>>
                      [] OTHER -> TRUE
EndsFor(fl, c, D) == CASE fl = "ret" -> { D.tr[1] }
                       [] fl = "fwd" -> EndsOf(c) \ { D.tr[1] }
                       [] OTHER -> { e \in EndsOf(c) : Returning(D, e) \/ Len(D.tr) < MaxHops }

OneTransfer(S0, fl) ==
    LET H == { h \in AllHoldings(S0) : FlavourOk(fl, h[2][2]) /\ EndsFor(fl, h[1], h[2][2]) # {} } IN
    IF H = {} THEN {} ELSE
    UNION { UNION { UNION { UNION { UNION { UNION {
        { [a |-> "Transfer", c |-> h[1], e |-> e, proto |-> pr, sender |-> h[2][1], signer |-> h[2][1], receiver |-> r,
           denom |-> h[2][2], amt |-> n, to |-> to, slash |-> (h[2][2].base \in SLASH)] }
        : to \in { IF pr = "v1" THEN RandomElement(TOS) ELSE "t" } }
        : pr \in { IF h[2][2].base \in SLASH /\ RandomElement(1..4) # 1 THEN "v1" ELSE RandomElement(PROTOS) } }
        : r  \in { IF RCVS \ Receivable # {} /\ RandomElement(1..5) = 1
                   THEN RandomElement(RCVS \ Receivable) ELSE RandomElement(RCVS \cap Receivable) } }
        : n  \in { RandomElement({ m \in AMTS : m <= S0.bal[h[1]][h[2]] }) } }
        : e  \in { RandomElement(EndsFor(fl, h[1], h[2][2])) } }
        : h  \in { RandomElement(H) } }

(***************************************************************************)
(* Macros                                                                  *)
(***************************************************************************)
\* the same transfer over the other end of the sending chain, with the next protocol (bases with '/' stay on v1)
OtherEnd(e) == CHOOSE x \in EndsOf(EndChain(e)) : x # e
NextProto(pr) == IF pr = "v1" THEN "alias" ELSE IF pr = "alias" THEN "v2" ELSE "v1"
Twin(a) == [a EXCEPT !.e = OtherEnd(a.e), !.proto = IF a.slash THEN a.proto ELSE NextProto(a.proto), !.to = "t"]

MacroOf(S0, a, kind, rl) ==
    LET k == S0.ns[a.e]  d == EndChain(Peer(a.e)) IN
    CASE kind = "relay"   -> << a, Relay("Recv", a.e, k, rl), Relay("Ack", a.e, k, rl) >>
      [] kind = "timeout" -> IF a.to = "t" THEN << a, [a |-> "Tick"], Relay("Timeout", a.e, k, rl) >>
                             ELSE << a, Relay("Recv", a.e, k, rl), Relay("Timeout", a.e, k, rl) >>
      [] kind = "errack"  -> << [a |-> "Params", c |-> d, send |-> TRUE, recv |-> FALSE], a,
                                Relay("Recv", a.e, k, rl), [a |-> "Params", c |-> d, send |-> TRUE, recv |-> TRUE],
                                Relay("Ack", a.e, k, rl) >>
      [] kind = "sendoff" -> << [a |-> "Params", c |-> a.c, send |-> FALSE, recv |-> TRUE], a,
                                [a |-> "Params", c |-> a.c, send |-> TRUE, recv |-> TRUE] >>
      [] kind = "latercv" -> << a, [a |-> "Tick"], Relay("Recv", a.e, k, rl), Relay("Timeout", a.e, k, rl) >>
      \* twins: the same denomination leaves the chain over BOTH of its ends (two protocols) and both packets fail, so that
      \* every refund has a second escrow account holding the same denomination next to the right one
      [] kind = "twinto"  -> << a, Twin(a), [a |-> "Tick"], Relay("Timeout", a.e, k, rl), Relay("Timeout", Twin(a).e, S0.ns[Twin(a).e], rl) >>
      [] kind = "twinerr" -> << [a EXCEPT !.receiver = "blk"], [Twin(a) EXCEPT !.receiver = "blk"],
                                Relay("Recv", a.e, k, rl), Relay("Recv", Twin(a).e, S0.ns[Twin(a).e], rl),
                                Relay("Ack", a.e, k, rl), Relay("Ack", Twin(a).e, S0.ns[Twin(a).e], rl) >>

Kinds == << "relay", "relay", "relay", "relay", "relay", "relay", "timeout", "timeout", "errack", "sendoff", "latercv",
            "twinto", "twinerr" >>

Flavour(roll) == IF roll <= 40 THEN "ret" ELSE IF roll <= 65 THEN "fwd" ELSE "new"

\* a transfer of the drawn flavour if there is one, else of any flavour
MacroSeed(S0, roll) == \* set with at most one transfer
    UNION { IF t1 # {} THEN t1 ELSE OneTransfer(S0, "any") : t1 \in { OneTransfer(S0, Flavour(roll)) } }

(***************************************************************************)
(* Adversarial attempts (each from one drawn transfer / the packet set)    *)
(***************************************************************************)
Adversarial(S0, pick, T) ==
    CASE pick = 1 -> \* somebody else signs
                     UNION { { [a EXCEPT !.signer = s] : s \in (Users \ {a.sender}) } : a \in T }
      [] pick = 2 -> \* overdraft and zero amount
                     UNION { { [a EXCEPT !.amt = n] : n \in {0, S0.bal[a.c][<<a.sender, a.denom>>] + 1} } : a \in T }
      [] pick = 3 -> \* a voucher the sender does not hold / that does not exist on this chain
                     { [a EXCEPT !.denom = Prefixed(a.e, a.denom), !.amt = 1] : a \in T }
      [] pick = 4 -> \* every relay message for every packet, by every relayer (duplicates, competing, premature)
                     { Relay(n, k[1], k[2], rl) : n \in {"Recv", "Ack", "Timeout"}, k \in DOMAIN S0.pk, rl \in Relayers }
      [] pick = 5 -> \* gifts to escrow accounts by plain bank transfers
                     UNION { { [a |-> "BankSend", c |-> a.c, from |-> a.sender, to |-> x, denom |-> a.denom, amt |-> 1]
                               : x \in EscAccts(a.c) } : a \in T }
      [] pick = 6 -> \* relay messages for packets that were never sent
                     { Relay(n, e, S0.ns[e], "rly") : n \in {"Recv", "Ack", "Timeout"}, e \in Ends }
      [] pick = 7 -> \* wrong channel end for the chain
                     { [a EXCEPT !.e = Peer(a.e)] : a \in T }

Follow(S0, a, r) ==
    IF r.res = "ok" /\ a.a \in {"Recv", "Ack", "Timeout"} /\ "fu" \notin DOMAIN a
    THEN LET f == IF a.a = "Recv" THEN << a, Relay("Timeout", a.e, a.seq, a.rl) >>
                  ELSE IF a.a = "Ack" THEN << a, Relay("Timeout", a.e, a.seq, a.rl) >>
                  ELSE << a, Relay("Ack", a.e, a.seq, a.rl), Relay("Recv", a.e, a.seq, a.rl) >>
         IN [i \in DOMAIN f |-> [x \in (DOMAIN f[i]) \cup {"fu"} |-> IF x = "fu" THEN TRUE ELSE f[i][x]]]
    ELSE <<>>

Next ==
    /\ Len(sched) < Depth
    /\ \E roll \in { RandomElement(1..100) } : \E r2 \in { RandomElement(1..100) } : \E kd \in { RandomElement(1..Len(Kinds)) } :
       \E rl \in { Rl(RandomElement(1..4)) } : \E ap \in { RandomElement(1..7) } :
       \E seed \in { IF todo = <<>> THEN MacroSeed(S, r2) ELSE {} } :
       \E hon \in { IF todo = <<>> /\ roll > MACRO_PCT /\ roll <= MACRO_PCT + HONEST_PCT
                    THEN OkActs(S, seed \cup RelayActs(S) \cup EnvActs(S)) ELSE {} } :
       \E adv \in { IF todo = <<>> /\ roll > MACRO_PCT + HONEST_PCT THEN Adversarial(S, ap, seed) ELSE {} } :
       \E plan \in { IF todo # <<>> THEN todo
                     ELSE IF roll <= MACRO_PCT /\ seed # {} THEN MacroOf(S, RandomElement(seed), Kinds[kd], rl)
                     ELSE IF hon # {} THEN << RandomElement(hon) >>
                     ELSE IF adv # {} THEN << RandomElement(adv) >>
                     ELSE IF seed # {} THEN MacroOf(S, RandomElement(seed), "relay", rl)
                     ELSE << [a |-> "Tick"] >> } :
       \E r \in { Step(S, Head(plan)) } :
          /\ S' = r.S
          /\ sched' = Append(sched, Head(plan))
          /\ todo' = Follow(S, Head(plan), r) \o Tail(plan)
          /\ Len(sched') = Depth =>
                JsonSerialize(OutDir \o "/s" \o ToString(TLCGet("stats").traces) \o "_" \o ToString(RandomElement(1..1000000)) \o ".json",
                              [kind |-> "walk", uniq |-> (roll % 2 = 0), acts |-> sched' \o ExportTail])

Spec == Init /\ [][Next]_<<S, sched, todo>>
=============================================================================
