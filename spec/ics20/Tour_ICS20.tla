----------------------------- MODULE Tour_ICS20 -----------------------------
(***************************************************************************)
(* Directed boundary schedules ("tours") of ICS20, built by TLC by folding *)
(* ICS20!Step (so that the sequence numbers they name and the outcome of   *)
(* every step are the ones the specification predicts) and serialised      *)
(* once, from an ASSUME.  They always run, in worlds whose channel         *)
(* identifiers are ASYMMETRIC (the two ends of a channel differ), CROSSED  *)
(* (the other channel of a chain carries the counterparty's identifier)    *)
(* and PREFIX-RELATED (channel-1 / channel-10 on one chain).               *)
(*                                                                         *)
(* A tour has a focus chain X with its two ends e1 (clockwise, towards Y)  *)
(* and e2 (counter-clockwise, towards Z) and exercises, with the three     *)
(* protocols rotated over the roles:                                       *)
(*   1. the same native token escrowed under BOTH ends of X, and a plain   *)
(*      bank gift to one of the two escrow accounts;                       *)
(*   2. twin sends that time out  (refund out of each end's own escrow);   *)
(*   3. twin sends answered by error acknowledgements;                     *)
(*   4. a height timeout (v1);                                             *)
(*   5. the vouchers forwarded on by Y and by Z over their OTHER end       *)
(*      (received over the longer identifier and sent over the shorter     *)
(*      one, and the converse);                                            *)
(*   6. a forward and a return that time out (refund of an escrowed        *)
(*      voucher, refund by minting while the other escrow holds the same   *)
(*      denomination);                                                     *)
(*   7. the same with error acknowledgements, roles swapped;               *)
(*   8. everything returned home hop by hop.                               *)
(* The specification says which steps succeed; the tour is only emitted if *)
(* every step has the intended outcome and the final state is the funded   *)
(* one (vacuity guard at the level of the specification).                  *)
(***************************************************************************)
EXTENDS ICS20, Json, SequencesExt

CONSTANTS OutDir,
          Rot,      \* rotation offset (from the seed of the run)
          NTours,   \* number of tours: focus chain = i mod 3, protocol rotation = (i div 3 + i + Rot) mod 3
          Base      \* native base denomination (no '/')

CW(c)  == CASE c = "A" -> "AB.A" [] c = "B" -> "BC.B" [] OTHER -> "CA.C"
CCW(c) == CASE c = "A" -> "CA.A" [] c = "B" -> "AB.B" [] OTHER -> "BC.C"
ChainSeq == << "A", "B", "C" >>
ProtoSeq == << "v1", "alias", "v2" >>
P(i)  == ProtoSeq[(i % 3) + 1]
Rl(n) == << "rly", "u1", "u2", "u3" >>[(n % 4) + 1]

T(c, e, pr, from, to, Dm, n, tmo) ==
    [a |-> "Transfer", c |-> c, e |-> e, proto |-> pr, sender |-> from, signer |-> from, receiver |-> to,
     denom |-> Dm, amt |-> n, to |-> tmo, slash |-> FALSE]
R(name, e, seq, rl) == [a |-> name, c |-> IF name = "Recv" THEN EndChain(Peer(e)) ELSE EndChain(e), e |-> e, seq |-> seq, rl |-> rl]

\* two sends in the state S0 followed by the given relay names for each (sequence numbers read from S0)
Twin(S0, t1, t2, names, rl) ==
    << t1, t2 >> \o [i \in 1..(2 * Len(names)) |->
                        IF i % 2 = 1 THEN R(names[(i + 1) \div 2], t1.e, S0.ns[t1.e], rl)
                        ELSE R(names[i \div 2], t2.e, S0.ns[t2.e], rl)]
TwinTimeout(S0, t1, t2, rl) ==
    << t1, t2, [a |-> "Tick"], R("Timeout", t1.e, S0.ns[t1.e], rl), R("Timeout", t2.e, S0.ns[t2.e], rl) >>

NStages == 9

StageActs(S0, X, v, st) ==
    LET e1 == CW(X)    f1 == Peer(e1)   Y == EndChain(f1)   g1 == CW(Y)
        e2 == CCW(X)   f2 == Peer(e2)   Z == EndChain(f2)   g2 == CCW(Z)
        D0  == Dn(<<>>, Base)
        DY  == Dn(<<f1>>, Base)          \* on Y
        DZ  == Dn(<<f2>>, Base)          \* on Z
        DYZ == Dn(<<g2, f1>>, Base)      \* on Z, forwarded by Y over g1
        DZY == Dn(<<g1, f2>>, Base)      \* on Y, forwarded by Z over g2
        rl  == Rl(v + st)
    IN CASE st = 1 -> << [a |-> "Fund", c |-> X, acct |-> "u1", base |-> Base, amt |-> 13, valid |-> TRUE] >>
         \* (and a plain bank gift to one of the two escrow accounts: it stays there for ever)
         [] st = 2 -> Twin(S0, T(X, e1, P(v), "u1", "u2", D0, 3, "t"), T(X, e2, P(v + 1), "u1", "u2", D0, 3, "t"), << "Recv", "Ack" >>, rl)
                      \o << [a |-> "BankSend", c |-> X, from |-> "u1", to |-> EscAcct(IF v % 2 = 0 THEN e2 ELSE e1), denom |-> D0, amt |-> 1] >>
         [] st = 3 -> TwinTimeout(S0, T(X, e1, P(v + 1), "u1", "u2", D0, 1, "t"), T(X, e2, P(v + 2), "u1", "u2", D0, 2, "t"), rl)
         [] st = 4 -> Twin(S0, T(X, e1, P(v + 2), "u1", "blk", D0, 2, "t"), T(X, e2, P(v), "u1", "blk", D0, 1, "t"), << "Recv", "Ack" >>, rl)
         [] st = 5 -> LET e == IF v % 2 = 0 THEN e1 ELSE e2 IN
                      << T(X, e, "v1", "u1", "u2", D0, 1, "h"), [xf |-> TRUE] @@ R("Recv", e, S0.ns[e], rl), R("Timeout", e, S0.ns[e], rl) >>
         [] st = 6 -> Twin(S0, T(Y, g1, P(v), "u2", "u3", DY, 2, "t"), T(Z, g2, P(v + 1), "u2", "u3", DZ, 2, "t"), << "Recv", "Ack" >>, rl)
         [] st = 7 -> TwinTimeout(S0, T(Y, g1, P(v + 2), "u2", "u3", DY, 1, "t"), T(Z, f2, P(v + 2), "u2", "u1", DZ, 1, "t"), rl)
         [] st = 8 -> Twin(S0, T(Y, f1, P(v), "u2", "blk", DY, 1, "t"), T(Z, g2, P(v + 1), "u2", "blk", DZ, 1, "t"), << "Recv", "Ack" >>, rl)
         [] OTHER  -> Twin(S0, T(Z, g2, P(v + 1), "u3", "u2", DYZ, 2, "t"), T(Y, g1, P(v + 2), "u3", "u2", DZY, 2, "t"), << "Recv", "Ack" >>, rl)

\* the last stage needs the state after the hop-by-hop returns of stage 9
HomeActs(S0, X, v) ==
    LET e1 == CW(X)  f1 == Peer(e1)  Y == EndChain(f1)  e2 == CCW(X)  f2 == Peer(e2)  Z == EndChain(f2) IN
    Twin(S0, T(Y, f1, P(v), "u2", "u1", Dn(<<f1>>, Base), 3, "t"), T(Z, f2, P(v + 1), "u2", "u1", Dn(<<f2>>, Base), 3, "t"),
         << "Recv", "Ack" >>, Rl(v))

\* fold: [S, acts, ok]  (ok: every step had result "ok" in the specification, those marked xf -- expected failure -- "err")
RECURSIVE Run(_, _, _)
Run(acc, acts, i) ==
    IF i > Len(acts) THEN acc
    ELSE CHOOSE x \in { Run([S |-> r.S, acts |-> Append(acc.acts, acts[i]), ok |-> acc.ok /\ r.res = (IF "xf" \in DOMAIN acts[i] THEN "err" ELSE "ok")], acts, i + 1)
                        : r \in { Step(acc.S, acts[i]) } } : TRUE

RECURSIVE Stages(_, _, _, _)
Stages(acc, X, v, st) ==
    IF st > NStages THEN CHOOSE x \in { Run(a2, HomeActs(a2.S, X, v), 1) : a2 \in { acc } } : TRUE
    ELSE CHOOSE x \in { Stages(a2, X, v, st + 1) : a2 \in { Run(acc, StageActs(acc.S, X, v, st), 1) } } : TRUE

TourOf(i) ==
    LET X == ChainSeq[(i % 3) + 1]   v == ((i \div 3) + i + Rot) % 3 IN
    CHOOSE x \in { [kind |-> "tour", uniq |-> FALSE, focus |-> X, rot |-> v, acts |-> r.acts,
                    ok |-> r.ok, home |-> (Bal(r.S, X, "u1", Dn(<<>>, Base)) = 12 /\ InFlightKeys(r.S) = {}
                                           /\ (\A c \in Chains : \A k \in DOMAIN r.S.bal[c] : k[1] \in EscAccts(c) => r.S.bal[c][k] = Get(r.S.don[c], k))
                                           /\ StateInvariants(r.S))]
                   : r \in { Stages([S |-> InitState, acts |-> <<>>, ok |-> TRUE], X, v, 1) } } : TRUE

Tours == [i \in 1..NTours |-> TourOf(i - 1)]

ASSUME \A i \in 1..NTours : Assert(Tours[i].ok /\ Tours[i].home, <<"tour does not behave as intended in the specification", i>>)
ASSUME JsonSerialize(OutDir \o "/tours.json", Tours)
ASSUME PrintT(<<"TOURS", NTours, Len(Tours[1].acts)>>)
=============================================================================
