------------------------------- MODULE Denom -------------------------------
(***************************************************************************)
(* ICS-20 denomination paths (modules/apps/transfer/types/denom.go) as a   *)
(* function specification over an abstract string alphabet.                *)
(*                                                                         *)
(* A path is a sequence of '/'-separated SEGMENTS; a segment is abstracted *)
(* to one of eight CLASSES.  The harness instantiates every class with     *)
(* several concrete strings (length extremes, the punctuation the          *)
(* identifier grammar allows, numeric overflow of the sequence part).      *)
(*   "w"    plain word: no identifier format, usable as a port id          *)
(*   "c1"   one character (too short for a port id)                        *)
(*   "port" the transfer port "transfer"                                   *)
(*   "chan" ibc-go channel identifier  channel-N                           *)
(*   "sch"  identifier-formatted  {x}-N  but shorter than a channel id     *)
(*          may be (8 characters)                                          *)
(*   "cli"  client-identifier-formatted {type}-N of 8..64 characters       *)
(*   "ibc"  the voucher prefix "ibc"                                       *)
(*   "e"    the empty segment (leading, trailing or doubled '/')           *)
(*                                                                         *)
(* Documented semantics (ICS-20 + ADR 001 + the comments in denom.go):     *)
(* path = (port "/" channel "/")* base.  Because the base itself may hold  *)
(* '/', ibc-go splits with a heuristic: reading pairs from the left, a     *)
(* pair is a hop iff its second segment has the channel- or client-        *)
(* identifier format, the path has more than two segments and the pair is  *)
(* complete; everything from the first non-hop pair on is the base.        *)
(***************************************************************************)
EXTENDS Integers, Sequences, FiniteSets, TLC

Classes == {"w", "c1", "port", "chan", "sch", "cli", "ibc", "e"}

IsId(x)   == x \in {"chan", "sch", "cli"}                 \* IsValidChannelID or IsValidClientID
PortOK(x) == x \in {"w", "port", "chan", "sch", "cli", "ibc"}   \* 2..128 characters of the identifier alphabet
ChanOK(x) == x \in {"chan", "cli"}                        \* 8..64 characters (only asked for identifier-formatted segments)

RECURSIVE NHops(_, _)
NHops(segs, p) == IF p < Len(segs) /\ Len(segs) > 2 /\ IsId(segs[p + 1]) THEN 1 + NHops(segs, p + 2) ELSE 0

\* number of hops and the base segments of a path
HopCount(segs) == NHops(segs, 1)
BaseSegs(segs) == SubSeq(segs, 2 * HopCount(segs) + 1, Len(segs))

\* Denom.Validate: non-blank base, every hop a valid (port, channel) identifier pair
BlankBase(rest) == rest = <<>> \/ rest = <<"e">>
Valid(segs) == /\ ~BlankBase(BaseSegs(segs))
               /\ \A j \in 1..HopCount(segs) : PortOK(segs[2 * j - 1]) /\ ChanOK(segs[2 * j])

\* all paths of at most n segments
RECURSIVE SeqsUpTo(_)
SeqsOfLen(n) == [1..n -> Classes]
SeqsUpTo(n)  == IF n = 0 THEN {} ELSE SeqsOfLen(n) \cup SeqsUpTo(n - 1)

(***************************************************************************)
(* Base denominations of NATIVE tokens (C33).  A native token travels      *)
(* under its raw name, so on the next chain its name is parsed behind the  *)
(* real hop pair(s): the base is split wrongly iff its own second segment  *)
(* is identifier-formatted.                                                *)
(***************************************************************************)
HopShaped(bs) == Len(bs) >= 2 /\ IsId(bs[2])
HasSlash(bs)  == Len(bs) > 1
\* accepted by the bank / transfer message validation of the origin chain (sdk coin denom grammar:
\* a letter first, 3..128 characters; "ibc/..." must be a voucher hash)
SdkValid(bs)  == /\ bs # <<>> /\ bs[1] \notin {"e", "ibc"}
                 /\ bs # <<"c1">> /\ bs # <<"c1", "e">>
=============================================================================
