------------------------------ MODULE MC_ICS20 ------------------------------
(* Exhaustive model check of the ICS-20 design (2.1a of DESIGN.md) on the abstract packet layer. *)
(* Rejected and no-op messages leave the state unchanged, so only successful actions are expanded; *)
(* the rejected candidates are still evaluated in every state for the enabledness property (C33)  *)
(* and for "a rejected message moves nothing".                                                     *)
EXTENDS ICS20Actions

CONSTANTS NAT_A, NAT_B, NAT_C,   \* native base denominations of the three chains (issued to u1)
          FUND                   \* amount issued of each

VARIABLE S

Natives(c) == IF c = "A" THEN NAT_A ELSE IF c = "B" THEN NAT_B ELSE NAT_C

Funded == [InitState EXCEPT
             !.bal = [c \in Chains |-> [k \in { <<"u1", Dn(<<>>, b)>> : b \in Natives(c) } |-> FUND]],
             !.sup = [c \in Chains |-> [D \in { Dn(<<>>, b) : b \in Natives(c) } |-> FUND]]]

\* Vacuity witnesses (TLC registers, see MC_Packet.tla)
Kinds == <<"send-v1", "send-alias", "send-v2", "send-return", "recv-mint", "recv-mint-2hops", "recv-mint-3hops",
           "recv-release-native", "recv-release-voucher", "recv-error-ack", "ack-success", "refund-errack-escrow",
           "refund-errack-mint", "refund-timeout-escrow", "refund-timeout-mint", "timeout-height", "tick", "params",
           "round-trip-complete">>
Idx(name) == CHOOSE i \in DOMAIN Kinds : Kinds[i] = name
Mark(name) == IF TLCGet(Idx(name)) = 0 THEN TLCSet(Idx(name), 1) /\ PrintT(<<"WITNESS", name>>) ELSE TRUE
MarkIf(cond, name) == IF cond THEN Mark(name) ELSE TRUE

Witness(S0, a, S2) ==
    CASE a.a = "Transfer" ->
            /\ MarkIf(a.proto = "v1", "send-v1") /\ MarkIf(a.proto = "alias", "send-alias") /\ MarkIf(a.proto = "v2", "send-v2")
            /\ MarkIf(Returning(a.denom, a.e), "send-return")
      [] a.a = "Recv" ->
            LET p == S0.pk[PKey(a)]  ack == S2.pk[PKey(a)].ack IN
            /\ MarkIf(ack = "err", "recv-error-ack")
            /\ MarkIf(ack = "ok" /\ ~Returning(p.denom, p.e), "recv-mint")
            /\ MarkIf(ack = "ok" /\ ~Returning(p.denom, p.e) /\ Len(p.denom.tr) = 1, "recv-mint-2hops")
            /\ MarkIf(ack = "ok" /\ ~Returning(p.denom, p.e) /\ Len(p.denom.tr) = 2, "recv-mint-3hops")
            /\ MarkIf(ack = "ok" /\ Returning(p.denom, p.e) /\ Len(p.denom.tr) = 1, "recv-release-native")
            /\ MarkIf(ack = "ok" /\ Returning(p.denom, p.e) /\ Len(p.denom.tr) > 1, "recv-release-voucher")
            /\ MarkIf(ack = "ok" /\ Returning(p.denom, p.e) /\ Len(p.denom.tr) = 1
                      /\ Sup(S2, EndChain(p.e), p.denom) = 0, "round-trip-complete")
      [] a.a = "Ack" ->
            LET p == S0.pk[PKey(a)] IN
            /\ MarkIf(p.ack = "ok", "ack-success")
            /\ MarkIf(p.ack = "err" /\ ~Returning(p.denom, p.e), "refund-errack-escrow")
            /\ MarkIf(p.ack = "err" /\ Returning(p.denom, p.e), "refund-errack-mint")
      [] a.a = "Timeout" ->
            LET p == S0.pk[PKey(a)] IN
            /\ MarkIf(~Returning(p.denom, p.e), "refund-timeout-escrow")
            /\ MarkIf(Returning(p.denom, p.e), "refund-timeout-mint")
            /\ MarkIf(p.to = "h", "timeout-height")
      [] a.a = "Tick" -> Mark("tick")
      [] a.a = "Params" -> Mark("params")
      [] OTHER -> TRUE

StepProps(S0, a, res, S2) == C30_Step(S0, a, res, S2) /\ C32_Step(S0, a, res, S2) /\ C33_Step(S0, a, res, S2) /\ C49_Step(S0, a, res, S2)

Init == S = Funded /\ \A i \in DOMAIN Kinds : TLCSet(i, 0)
\* (the result of Step is bound through a set binder: a LET would be re-evaluated at every reference)
Next == \E a \in Honest(S) : \E r \in { Step(S, a) } :
          /\ Assert(StepProps(S, a, r.res, r.S), <<"step property violated in the design", a, r.res>>)
          /\ r.res = "ok" /\ S' = r.S /\ Witness(S, a, r.S)
Spec == Init /\ [][Next]_S

\* adversarial candidates that must be rejected without effect: wrong signer, unknown packet, zero amount
BadCandidates(S0) ==
    { [a EXCEPT !.signer = "u3"] : a \in { x \in TransferActs(S0) : x.sender # "u3" } }
    \cup { [a EXCEPT !.amt = 0] : a \in TransferActs(S0) }
RejectedMoveNothing(S0) == \A a \in BadCandidates(S0) : \A r \in { Step(S0, a) } : r.res = "err" /\ StepProps(S0, a, r.res, r.S)

Inv == StateInvariants(S) /\ RejectedMoveNothing(S)

\* the ghost fields do not influence behaviour: two states that differ only there are the same state
View == [bal |-> S.bal, sup |-> S.sup, esc |-> S.esc, reg |-> S.reg, par |-> S.par, ns |-> S.ns, pk |-> S.pk, ep |-> S.ep,
         gesc |-> S.gesc, sd |-> S.sd]
=============================================================================
