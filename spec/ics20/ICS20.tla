------------------------------- MODULE ICS20 -------------------------------
(***************************************************************************)
(* ICS-20 fungible token transfer of ibc-go (modules/apps/transfer) on     *)
(* three chains A, B, C joined by three transfer channels AB, BC, CA       *)
(* (IBC v1 UNORDERED channels that are also used through their IBC v2      *)
(* alias).  The module sits on the ABSTRACT PACKET LAYER established by    *)
(* the packet family (C01-C06): every sent packet is received at most      *)
(* once and gets at most one of acknowledgement / timeout, a timeout only  *)
(* if it was not received; the adversary (relayer) picks order, repeats    *)
(* messages and submits competing terminal messages.                       *)
(*                                                                         *)
(* The semantics is a FUNCTION  Step(S, a) = [res, S']  over an explicit   *)
(* state record, shared by MC_ICS20 (exhaustive), Sched_ICS20 (behaviour   *)
(* generation) and Trace_ICS20 (validation of real executions).            *)
(*                                                                         *)
(* A denomination is  [tr |-> <<e1,...,en>>, base |-> string]: e1 is the   *)
(* channel END of the holding chain through which the token arrived, e2    *)
(* the end of the previous chain, ...; tr = <<>> is a native token.  The   *)
(* base is opaque: whatever its name looks like, a return over e1 must     *)
(* give back exactly [tr |-> <<e2..en>>, base |-> base]  (C33).            *)
(***************************************************************************)
EXTENDS Integers, Sequences, FiniteSets, TLC

Chains == {"A", "B", "C"}
Ends   == {"AB.A", "AB.B", "BC.B", "BC.C", "CA.C", "CA.A"}

EndChain(e) == CASE e = "AB.A" -> "A" [] e = "AB.B" -> "B" [] e = "BC.B" -> "B"
                 [] e = "BC.C" -> "C" [] e = "CA.C" -> "C" [] e = "CA.A" -> "A" [] OTHER -> "?"
Peer(e)     == CASE e = "AB.A" -> "AB.B" [] e = "AB.B" -> "AB.A" [] e = "BC.B" -> "BC.C"
                 [] e = "BC.C" -> "BC.B" [] e = "CA.C" -> "CA.A" [] e = "CA.A" -> "CA.C" [] OTHER -> "?"
EndsOf(c)   == { e \in Ends : EndChain(e) = c }
EscAcct(e)  == "esc:" \o e
EscAccts(c) == { EscAcct(e) : e \in EndsOf(c) }

Users     == {"u1", "u2", "u3"}
Relayers  == Users \cup {"rly"}
\* accounts that can hold received funds; "blk" is a blocked module account, "bad" a malformed address
Receivable == Users \cup {"rly"}
\* every account whose balances are tracked on a chain ("mod" = transfer module account, "rest" = all other
\* genesis accounts together)
AcctsOf(c) == Users \cup {"rly", "rest", "mod", "blk"} \cup EscAccts(c)

(***************************************************************************)
(* Sparse maps: functions with a finite domain; absent key = 0.            *)
(***************************************************************************)
EmptyMap == [x \in {} |-> 0]
Get(m, k)    == IF k \in DOMAIN m THEN m[k] ELSE 0
Put(m, k, v) == IF v = 0 THEN [x \in (DOMAIN m) \ {k} |-> m[x]]
                ELSE [x \in (DOMAIN m) \cup {k} |-> IF x = k THEN v ELSE m[x]]
Add(m, k, d) == Put(m, k, Get(m, k) + d)
\* pointwise difference m2 - m1 (sparse)
Diff(m2, m1) == LET K == { k \in (DOMAIN m1) \cup (DOMAIN m2) : Get(m2, k) # Get(m1, k) }
                IN [k \in K |-> Get(m2, k) - Get(m1, k)]
Neg(m) == [k \in DOMAIN m |-> 0 - m[k]]

RECURSIVE SumOver(_, _)
SumOver(f, K) == IF K = {} THEN 0
                 ELSE LET k == CHOOSE x \in K : TRUE IN f[k] + SumOver(f, K \ {k})

(***************************************************************************)
(* Denominations                                                           *)
(***************************************************************************)
Dn(tr, base)    == [tr |-> tr, base |-> base]
IsNative(D)     == D.tr = <<>>
\* the token, held on the chain of end e, was received through e: sending it over e returns it
Returning(D, e) == D.tr # <<>> /\ D.tr[1] = e
Unwound(D)      == [tr |-> Tail(D.tr), base |-> D.base]
Prefixed(e, D)  == [tr |-> <<e>> \o D.tr, base |-> D.base]

(***************************************************************************)
(* State                                                                   *)
(*   bal  [chain -> sparse map <<account, denom>> -> amount]               *)
(*   sup  [chain -> sparse map denom -> total supply]                      *)
(*   esc  [chain -> sparse map denom -> tracked total escrow]              *)
(*   reg  [chain -> set of voucher denominations recorded by the chain]    *)
(*   par  [chain -> [send, recv]]   transfer params                        *)
(*   ns   [end -> next sequence]    (shared by v1 and the v2 alias)        *)
(*   pk   sparse map <<end, seq>> -> packet                                *)
(*   ep   epoch (packets with a timestamp timeout expire when it ends)     *)
(* ghost (never read by a guard):                                          *)
(*   gesc [chain -> sparse map denom -> escrowed - released]       (C31)   *)
(*   don  [chain -> sparse map <<escrow account, denom>> -> amount sent to *)
(*         an escrow account by plain bank transfers]               (C30)  *)
(*   sd   sparse map <<end, seq>> -> [bal, sup] change of the sending      *)
(*        chain's bank state caused by the send                     (C32)  *)
(* packet = [e, seq, proto, denom, amt, sender, receiver, ep, to,          *)
(*           com (commitment still stored), rcv (received), ack]           *)
(*   proto "v1" | "v2" ; to "t" (timestamp = end of epoch ep) | "h"        *)
(*   (height already reached when any relay can happen: never receivable)  *)
(*   ack "none" | "ok" | "err"                                             *)
(***************************************************************************)
InitState == [bal  |-> [c \in Chains |-> EmptyMap],
              sup  |-> [c \in Chains |-> EmptyMap],
              esc  |-> [c \in Chains |-> EmptyMap],
              reg  |-> [c \in Chains |-> {}],
              par  |-> [c \in Chains |-> [send |-> TRUE, recv |-> TRUE]],
              ns   |-> [e \in Ends |-> 1],
              pk   |-> EmptyMap,
              ep   |-> 0,
              gesc |-> [c \in Chains |-> EmptyMap],
              don  |-> [c \in Chains |-> EmptyMap],
              sd   |-> EmptyMap]

Bal(S, c, acct, D) == Get(S.bal[c], <<acct, D>>)
Sup(S, c, D)       == Get(S.sup[c], D)

\* move n of D from account x to account y on chain c (bank send)
Move(bal, x, y, D, n) == Add(Add(bal, <<x, D>>, 0 - n), <<y, D>>, n)

HasPk(S, k) == k \in DOMAIN S.pk
InFlight(p) == p.com /\ p.ack # "ok"
Expired(S, p) == p.to = "h" \/ p.ep < S.ep

(***************************************************************************)
(* Ghost bookkeeping, a function of the pre-state, the action, the result  *)
(* class and the post values of bal / sup / pk.  Step uses it, and so does *)
(* the trace validator with the values observed on the real chains.        *)
(***************************************************************************)
PKey(a) == <<a.e, a.seq>>

RefundStep(S, a, res) ==
    /\ a.a \in {"Ack", "Timeout"} /\ res = "ok" /\ HasPk(S, PKey(a))
    /\ (a.a = "Timeout" \/ S.pk[PKey(a)].ack = "err")

NextGesc(S, a, res, pk2) ==
    IF res # "ok" THEN S.gesc
    ELSE IF a.a = "Transfer" THEN
         IF Returning(a.denom, a.e) THEN S.gesc
         ELSE [S.gesc EXCEPT ![a.c] = Add(@, a.denom, a.amt)]
    ELSE IF a.a = "Recv" /\ HasPk(S, PKey(a)) /\ PKey(a) \in DOMAIN pk2 THEN
         LET p == S.pk[PKey(a)] IN
         IF pk2[PKey(a)].ack = "ok" /\ Returning(p.denom, p.e)
         THEN [S.gesc EXCEPT ![a.c] = Add(@, Unwound(p.denom), 0 - p.amt)] ELSE S.gesc
    ELSE IF RefundStep(S, a, res) THEN
         LET p == S.pk[PKey(a)] IN
         IF Returning(p.denom, p.e) THEN S.gesc
         ELSE [S.gesc EXCEPT ![a.c] = Add(@, p.denom, 0 - p.amt)]
    ELSE S.gesc

NextDon(S, a, res) ==
    IF res = "ok" /\ a.a = "BankSend" /\ a.to \in EscAccts(a.c)
    THEN [S.don EXCEPT ![a.c] = Add(@, <<a.to, a.denom>>, a.amt)] ELSE S.don

NextSd(S, a, res, bal2, sup2, pk2) ==
    IF res = "ok" /\ a.a = "Transfer"
    THEN LET new == (DOMAIN pk2) \ (DOMAIN S.pk)
             d   == [bal |-> Diff(bal2[a.c], S.bal[a.c]), sup |-> Diff(sup2[a.c], S.sup[a.c])]
         IN [k \in (DOMAIN S.sd) \cup new |-> IF k \in new THEN d ELSE S.sd[k]]
    ELSE S.sd

\* O2: record with the post values of all observable fields
Finish(S, a, res, O2) ==
    [bal |-> O2.bal, sup |-> O2.sup, esc |-> O2.esc, reg |-> O2.reg, par |-> O2.par, ns |-> O2.ns,
     pk |-> O2.pk, ep |-> O2.ep,
     gesc |-> NextGesc(S, a, res, O2.pk),
     don  |-> NextDon(S, a, res),
     sd   |-> NextSd(S, a, res, O2.bal, O2.sup, O2.pk)]

Ok(S, a, O2) == [res |-> "ok",   S |-> Finish(S, a, "ok", O2)]
Err(S, a)    == [res |-> "err",  S |-> Finish(S, a, "err", S)]
Noop(S, a)   == [res |-> "noop", S |-> Finish(S, a, "noop", S)]

(***************************************************************************)
(* Environment: native issuance, plain bank transfers, parameters, time    *)
(***************************************************************************)
DoFund(S, a) ==      \* a native token of chain a.c is issued to a.acct (not an IBC action)
    IF ~(a.amt > 0 /\ a.valid) THEN Err(S, a)
    ELSE LET D == Dn(<<>>, a.base) IN
         Ok(S, a, [S EXCEPT !.bal[a.c] = Add(@, <<a.acct, D>>, a.amt), !.sup[a.c] = Add(@, D, a.amt)])

DoBankSend(S, a) ==
    IF ~(a.amt > 0 /\ Bal(S, a.c, a.from, a.denom) >= a.amt /\ a.from # a.to) THEN Err(S, a)
    ELSE Ok(S, a, [S EXCEPT !.bal[a.c] = Move(@, a.from, a.to, a.denom, a.amt)])

DoParams(S, a) == Ok(S, a, [S EXCEPT !.par[a.c] = [send |-> a.send, recv |-> a.recv]])

DoTick(S, a) == Ok(S, a, [S EXCEPT !.ep = @ + 1])

\* genesis export of the ibc and transfer modules of chain a.c, wipe of their stores, import of the export (C44):
\* the identity on everything this specification talks about
DoExportImport(S, a) == Ok(S, a, S)

(***************************************************************************)
(* Transfer: MsgTransfer (proto "v1"), MsgTransfer with UseAliasing        *)
(* ("alias") and MsgSendPacket carrying a transfer payload ("v2"), on the  *)
(* channel end a.e of chain a.c.  a.signer signs the transaction.          *)
(***************************************************************************)
G_SignerIsSender(a)  == a.signer = a.sender
G_AmountPositive(a)  == a.amt > 0
G_SendEnabled(S, a)  == S.par[a.c].send
\* a voucher can only be named in a message through the chain's record of it
G_DenomKnown(S, a)   == IsNative(a.denom) \/ a.denom \in S.reg[a.c]
\* IBC v2 payloads refuse base denominations containing '/'
G_V2BaseNoSlash(a)   == a.proto = "v1" \/ ~a.slash
G_Funds(S, a)        == Bal(S, a.c, a.sender, a.denom) >= a.amt
G_TimeoutKind(a)     == a.to = "t" \/ a.proto = "v1"
G_EndOfChain(a)      == a.e \in EndsOf(a.c)
G_ReceiverNonBlank(a) == a.receiver # ""

TransferGuard(S, a) ==
    /\ G_EndOfChain(a) /\ G_SignerIsSender(a) /\ G_AmountPositive(a) /\ G_ReceiverNonBlank(a)
    /\ G_SendEnabled(S, a) /\ G_DenomKnown(S, a) /\ G_V2BaseNoSlash(a) /\ G_TimeoutKind(a) /\ G_Funds(S, a)

NewPacket(S, a) ==
    [e |-> a.e, seq |-> S.ns[a.e], proto |-> IF a.proto = "v1" THEN "v1" ELSE "v2",
     denom |-> a.denom, amt |-> a.amt, sender |-> a.sender, receiver |-> a.receiver,
     ep |-> S.ep, to |-> a.to, com |-> TRUE, rcv |-> FALSE, ack |-> "none"]

TransferEffect(S, a) ==
    LET c == a.c  D == a.denom  n == a.amt  P == NewPacket(S, a)
        S1 == IF Returning(D, a.e)
              THEN \* sink: the voucher is burnt
                   [S EXCEPT !.bal[c] = Add(@, <<a.sender, D>>, 0 - n), !.sup[c] = Add(@, D, 0 - n)]
              ELSE \* source: escrowed under the channel end's escrow account, tracker incremented
                   [S EXCEPT !.bal[c] = Move(@, a.sender, EscAcct(a.e), D, n), !.esc[c] = Add(@, D, n)]
    IN [S1 EXCEPT !.ns[a.e] = @ + 1, !.pk = (<<a.e, P.seq>> :> P) @@ @]

DoTransfer(S, a) == IF TransferGuard(S, a) THEN Ok(S, a, TransferEffect(S, a)) ELSE Err(S, a)

(***************************************************************************)
(* Receive on chain a.c = chain of Peer(a.e) of packet <<a.e, a.seq>>.     *)
(***************************************************************************)
G_RecvEnabled(S, c)   == S.par[c].recv
G_ReceiverValid(p)    == p.receiver \in Receivable
G_EscrowCovers(S, c, p) == Returning(p.denom, p.e) =>
                              Bal(S, c, EscAcct(Peer(p.e)), Unwound(p.denom)) >= p.amt
RecvAppOk(S, c, p) == G_RecvEnabled(S, c) /\ G_ReceiverValid(p) /\ G_EscrowCovers(S, c, p)

RecvEffect(S, c, p) ==     \* application effect of a successful receive
    LET n == p.amt  de == Peer(p.e) IN
    IF Returning(p.denom, p.e)
    THEN \* the token comes home: released from this end's escrow as the ORIGINAL denomination
         LET D == Unwound(p.denom) IN
         [S EXCEPT !.bal[c] = Move(@, EscAcct(de), p.receiver, D, n), !.esc[c] = Add(@, D, 0 - n)]
    ELSE \* voucher minted under the receiving end's prefix and recorded
         LET V == Prefixed(de, p.denom) IN
         [S EXCEPT !.bal[c] = Add(@, <<p.receiver, V>>, n), !.sup[c] = Add(@, V, n), !.reg[c] = @ \cup {V}]

DoRecv(S, a) ==
    LET k == PKey(a) IN
    IF ~(HasPk(S, k) /\ EndChain(Peer(a.e)) = a.c) THEN Err(S, a)
    ELSE LET p == S.pk[k]  c == a.c IN
         IF p.rcv THEN (IF p.com \/ p.proto = "v2" THEN Noop(S, a) ELSE Err(S, a))
         ELSE IF ~p.com \/ Expired(S, p) THEN Err(S, a)
         ELSE IF RecvAppOk(S, c, p)
              THEN Ok(S, a, [RecvEffect(S, c, p) EXCEPT !.pk[k].rcv = TRUE, !.pk[k].ack = "ok"])
              ELSE \* the application state is discarded, receipt and error acknowledgement are kept
                   Ok(S, a, [S EXCEPT !.pk[k].rcv = TRUE, !.pk[k].ack = "err"])

(***************************************************************************)
(* Acknowledgement / timeout on the sending chain a.c = chain of a.e       *)
(***************************************************************************)
RefundEffect(S, c, p) ==
    LET n == p.amt  D == p.denom IN
    IF Returning(D, p.e)
    THEN \* the voucher was burnt at send: minted again
         [S EXCEPT !.bal[c] = Add(@, <<p.sender, D>>, n), !.sup[c] = Add(@, D, n)]
    ELSE [S EXCEPT !.bal[c] = Move(@, EscAcct(p.e), p.sender, D, n), !.esc[c] = Add(@, D, 0 - n)]

DoAck(S, a) ==
    LET k == PKey(a) IN
    IF ~(HasPk(S, k) /\ EndChain(a.e) = a.c) THEN Err(S, a)
    ELSE LET p == S.pk[k] IN
         IF ~p.com THEN Noop(S, a)
         ELSE IF p.ack = "none" THEN Err(S, a)
         ELSE IF p.ack = "ok" THEN Ok(S, a, [S EXCEPT !.pk[k].com = FALSE])
         ELSE Ok(S, a, [RefundEffect(S, a.c, p) EXCEPT !.pk[k].com = FALSE])

DoTimeout(S, a) ==
    LET k == PKey(a) IN
    IF ~(HasPk(S, k) /\ EndChain(a.e) = a.c) THEN Err(S, a)
    ELSE LET p == S.pk[k] IN
         \* (packet layer order: the timeout must have elapsed, then a missing commitment is a no-op, then non-receipt)
         IF ~Expired(S, p) THEN Err(S, a)
         ELSE IF ~p.com THEN Noop(S, a)
         ELSE IF p.rcv THEN Err(S, a)
         ELSE Ok(S, a, [RefundEffect(S, a.c, p) EXCEPT !.pk[k].com = FALSE])

Step(S, a) ==
    CASE a.a = "Fund"     -> DoFund(S, a)
      [] a.a = "BankSend" -> DoBankSend(S, a)
      [] a.a = "Params"   -> DoParams(S, a)
      [] a.a = "Tick"     -> DoTick(S, a)
      [] a.a = "ExportImport" -> DoExportImport(S, a)
      [] a.a = "Transfer" -> DoTransfer(S, a)
      [] a.a = "Recv"     -> DoRecv(S, a)
      [] a.a = "Ack"      -> DoAck(S, a)
      [] a.a = "Timeout"  -> DoTimeout(S, a)

(***************************************************************************)
(* Properties (state invariants)                                           *)
(***************************************************************************)
\* every denomination mentioned anywhere, closed under unwinding
RECURSIVE Unwinds(_)
Unwinds(D) == IF D.tr = <<>> THEN {D} ELSE {D} \cup Unwinds(Unwound(D))

DenomsOf(S) ==
    UNION ( { { k[2] : k \in DOMAIN S.bal[c] } : c \in Chains }
            \cup { DOMAIN S.sup[c] : c \in Chains } \cup { DOMAIN S.esc[c] : c \in Chains }
            \cup { DOMAIN S.gesc[c] : c \in Chains } \cup { S.reg[c] : c \in Chains }
            \cup { { S.pk[k].denom : k \in DOMAIN S.pk } } )
Universe(S) == UNION { Unwinds(D) : D \in { X \in DenomsOf(S) : "?" \notin { X.tr[i] : i \in DOMAIN X.tr } } }

\* keys of the packets whose tokens are neither delivered nor refunded yet
InFlightKeys(S) == { k \in DOMAIN S.pk : InFlight(S.pk[k]) }
AmtInFlightF(S, F, e, D) ==
    LET K == { k \in F : S.pk[k].e = e /\ S.pk[k].denom = D }
    IN SumOver([k \in K |-> S.pk[k].amt], K)
AmtInFlight(S, e, D) == AmtInFlightF(S, InFlightKeys(S), e, D)

\* C30 (Appendix B.3 of DESIGN.md), for the end e of chain X, its peer e2 on chain Y and any denomination D on X:
\*   escrow(e, D) = vouchers of D via e circulating on Y + in flight X->Y + in flight Y->X + plain bank gifts
ConservationAtF(S, F, e, D) ==
    LET X == EndChain(e)  e2 == Peer(e)  Y == EndChain(Peer(e))  V == Prefixed(e2, D) IN
    Bal(S, X, EscAcct(e), D) = Sup(S, Y, V)
                               + (IF Returning(D, e) THEN 0 ELSE AmtInFlightF(S, F, e, D))   \* a returning token is burnt, not escrowed
                               + AmtInFlightF(S, F, e2, V)
                               + Get(S.don[X], <<EscAcct(e), D>>)
ConservationAt(S, e, D) == ConservationAtF(S, InFlightKeys(S), e, D)

\* (the in-flight set and the universe are bound once through set binders)
I_Conservation(S) == \A F \in { InFlightKeys(S) } : \A U \in { Universe(S) } : \A e \in Ends : \A D \in U : ConservationAtF(S, F, e, D)

\* every unit of supply is in an account the model knows
SumBal(S, c, D) == LET K == { k \in DOMAIN S.bal[c] : k[2] = D } IN SumOver([k \in K |-> S.bal[c][k]], K)
I_SupplyIsSum(S) == \A c \in Chains : \A D \in DenomsOf(S) : SumBal(S, c, D) = Sup(S, c, D)

\* C31
EscrowBalance(S, c, D) == LET K == EscAccts(c) IN SumOver([x \in K |-> Bal(S, c, x, D)], K)
I_TrackerIsNet(S)     == \A c \in Chains : \A D \in DenomsOf(S) : Get(S.esc[c], D) = Get(S.gesc[c], D)
I_TrackerBounded(S)   == \A c \in Chains : \A D \in DenomsOf(S) :
                              Get(S.esc[c], D) >= 0 /\ Get(S.esc[c], D) <= EscrowBalance(S, c, D)

\* C34 (state part): each circulating voucher is recorded by its chain
I_VouchersRecorded(S) == \A c \in Chains : \A D \in DOMAIN S.sup[c] : IsNative(D) \/ D \in S.reg[c]

NoNegative(S) == \A c \in Chains : (\A k \in DOMAIN S.bal[c] : S.bal[c][k] > 0) /\ (\A D \in DOMAIN S.sup[c] : S.sup[c][D] > 0)

StateInvariants(S) == /\ I_Conservation(S) /\ I_SupplyIsSum(S) /\ I_TrackerIsNet(S) /\ I_TrackerBounded(S)
                      /\ I_VouchersRecorded(S) /\ NoNegative(S)

(***************************************************************************)
(* C33: enabledness of the return trip, as predicates over (state, action) *)
(***************************************************************************)
\* a holder returns a voucher over the end it came through: the send must succeed ...
ReturnSendGuard(S, a) ==
    /\ a.a = "Transfer" /\ G_EndOfChain(a) /\ Returning(a.denom, a.e)
    /\ G_SignerIsSender(a) /\ G_AmountPositive(a) /\ G_ReceiverNonBlank(a) /\ G_SendEnabled(S, a)
    /\ G_V2BaseNoSlash(a) /\ G_TimeoutKind(a) /\ G_Funds(S, a)
\* ... and an unexpired first delivery on the origin must release the original denomination to the receiver
ReturnRecvGuard(S, a) ==
    /\ a.a = "Recv" /\ HasPk(S, PKey(a)) /\ EndChain(Peer(a.e)) = a.c
    /\ LET p == S.pk[PKey(a)] IN
       /\ Returning(p.denom, p.e) /\ p.com /\ ~p.rcv /\ ~Expired(S, p)
       /\ G_RecvEnabled(S, a.c) /\ G_ReceiverValid(p)
(***************************************************************************)
(* Step properties of the design                                           *)
(***************************************************************************)
UserAccts == Users \cup {"rly", "rest", "blk", "mod"}
Decreased(S, S2, c) == { k[1] : k \in { x \in DOMAIN S.bal[c] : Get(S2.bal[c], x) < S.bal[c][x] } }
Increased(S, S2, c) == { k[1] : k \in { x \in DOMAIN S2.bal[c] : S2.bal[c][x] > Get(S.bal[c], x) } }
BankSame(S, S2, c)  == S2.bal[c] = S.bal[c] /\ S2.sup[c] = S.sup[c] /\ S2.esc[c] = S.esc[c]

\* C32: a refund undoes exactly what the send did to the sending chain's bank state, a success ack does nothing
C32_Step(S, a, res, S2) ==
    /\ RefundStep(S, a, res) =>
          LET k == PKey(a)  p == S.pk[k] IN
          /\ Bal(S2, a.c, p.sender, p.denom) = Bal(S, a.c, p.sender, p.denom) + p.amt
          /\ k \in DOMAIN S.sd
          /\ Diff(S2.bal[a.c], S.bal[a.c]) = Neg(S.sd[k].bal)
          /\ Diff(S2.sup[a.c], S.sup[a.c]) = Neg(S.sd[k].sup)
    /\ (a.a = "Ack" /\ res = "ok" /\ HasPk(S, PKey(a)) /\ S.pk[PKey(a)].ack = "ok") => BankSame(S, S2, a.c)
    /\ (a.a \in {"Ack", "Timeout"} /\ HasPk(S, PKey(a)) /\ ~S.pk[PKey(a)].com) =>
          res # "ok" /\ \A c \in Chains : BankSame(S, S2, c)

\* C49: who may lose and who may gain
C49_Step(S, a, res, S2) ==
    /\ a.a = "Transfer" =>
          /\ res = "ok" => a.sender = a.signer
          /\ \A c \in Chains : (Decreased(S, S2, c) \cap UserAccts) \subseteq (IF c = a.c THEN {a.signer} ELSE {})
          /\ \A c \in Chains : (Increased(S, S2, c) \cap UserAccts) = {}
    /\ (a.a = "Recv" /\ HasPk(S, PKey(a))) =>
          LET p == S.pk[PKey(a)] IN
          /\ \A c \in Chains : Decreased(S, S2, c) \subseteq (IF c = a.c /\ Returning(p.denom, p.e) THEN {EscAcct(Peer(p.e))} ELSE {})
          /\ \A c \in Chains : Increased(S, S2, c) \subseteq (IF c = a.c THEN {p.receiver} ELSE {})
    /\ (a.a \in {"Ack", "Timeout"} /\ HasPk(S, PKey(a))) =>
          LET p == S.pk[PKey(a)] IN
          /\ \A c \in Chains : Decreased(S, S2, c) \subseteq (IF c = a.c /\ ~Returning(p.denom, p.e) THEN {EscAcct(p.e)} ELSE {})
          /\ \A c \in Chains : Increased(S, S2, c) \subseteq (IF c = a.c THEN {p.sender} ELSE {})

\* C30 (step part): native supply is only changed by issuance, rejected messages move nothing
C30_Step(S, a, res, S2) ==
    /\ \A c \in Chains : \A D \in (DOMAIN S.sup[c]) \cup (DOMAIN S2.sup[c]) :
          IsNative(D) /\ ~(a.a = "Fund" /\ a.c = c /\ D = Dn(<<>>, a.base)) => Sup(S2, c, D) = Sup(S, c, D)
    /\ res # "ok" => \A c \in Chains : BankSame(S, S2, c) /\ S2.reg[c] = S.reg[c]

\* C33 in the design: a guarded return is accepted and releases the original denomination
C33_Step(S, a, res, S2) ==
    /\ ReturnSendGuard(S, a) => res = "ok"
    /\ ReturnRecvGuard(S, a) =>
          LET p == S.pk[PKey(a)]  D == Unwound(S.pk[PKey(a)].denom) IN
          /\ res = "ok" /\ S2.pk[PKey(a)].ack = "ok"
          /\ Bal(S2, a.c, p.receiver, D) = Bal(S, a.c, p.receiver, D) + p.amt
          /\ Bal(S2, a.c, EscAcct(Peer(p.e)), D) = Bal(S, a.c, EscAcct(Peer(p.e)), D) - p.amt
=============================================================================
