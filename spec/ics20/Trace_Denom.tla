---------------------------- MODULE Trace_Denom ----------------------------
(***************************************************************************)
(* Judgement of the C34 function table: every row holds one concrete path  *)
(* (or one (port, channel) pair), what the real functions of               *)
(* modules/apps/transfer/types returned for it, and the harness' own       *)
(* SHA-256 evaluations.  The expected split is computed here from the      *)
(* row's segment classes with the operators of Denom.tla.                  *)
(*   C34 clauses (asserted for every path the real Validate accepts):      *)
(*     path-round-trip        Path(Extract(s)) = s                         *)
(*     split-loses-nothing    trace hops followed by base segments = the   *)
(*                            segments of s                                *)
(*     voucher-name           IBCDenom = base if there is no trace, else   *)
(*                            "ibc/" + uppercase hex SHA-256 of s          *)
(*     hash-of-full-path      Hash = SHA-256 of s (key of the record)      *)
(*     escrow-address-term / escrow-address-injective                      *)
(*   "CONF" (diagnostic): the split and Validate agree with Denom.tla.     *)
(***************************************************************************)
EXTENDS Denom, Json

CONSTANT TraceFile

Rows == ndJsonDeserialize(TraceFile)

VARIABLE done

RECURSIVE Join(_, _)
Join(sq, i) == IF i > Len(sq) THEN "" ELSE IF i = Len(sq) THEN sq[i] ELSE sq[i] \o "/" \o Join(sq, i + 1)

RECURSIVE Flat(_, _)
Flat(tr, i) == IF i > Len(tr) THEN <<>> ELSE <<tr[i][1], tr[i][2]>> \o Flat(tr, i + 1)

If(cond, prop, clause) == IF cond THEN { <<prop, clause>> } ELSE {}

PathViol(r) ==
    LET k    == HopCount(r.segs)
        n    == Len(r.segs)
        expT == [j \in 1..k |-> <<r.inst[2 * j - 1], r.inst[2 * j]>>]
        expB == Join(SubSeq(r.inst, 2 * k + 1, n), 1)
        split == Flat(r.trace, 1) \o (IF r.trace # <<>> /\ r.base = "" THEN <<>> ELSE r.bsegs)
    IN   If(r.valid /\ r.path # r.s, "C34", "path-round-trip")
    \cup If(r.valid /\ split # r.inst, "C34", "split-loses-nothing")
    \cup If(r.valid /\ r.ibc # (IF r.trace = <<>> THEN r.base ELSE r.xibc), "C34", "voucher-name")
    \cup If(r.valid /\ r.trace = <<>> /\ r.base # r.s, "C34", "voucher-name-without-trace-is-the-path")
    \cup If(r.valid /\ r.hash # r.xhash, "C34", "hash-of-full-path")
    \cup If(~(r.trace = expT /\ r.base = expB), "CONF", "split")
    \cup If(r.valid # Valid(r.segs), "CONF", "validate")

EscViol(i) ==
    LET r == Rows[i] IN
         If(r.addr # r.xaddr, "C34", "escrow-address-term")
    \cup If(\E j \in 1..(i - 1) : Rows[j].kind = "esc" /\ Rows[j].inst # r.inst /\ Rows[j].addr = r.addr,
            "C34", "escrow-address-injective")

Report(i, viol) == \A v \in viol : PrintT(<<"MONFAIL", Rows[i].id, i, v>>)

Check == /\ \A i \in DOMAIN Rows : Report(i, IF Rows[i].kind = "path" THEN PathViol(Rows[i]) ELSE EscViol(i))
         /\ PrintT(<<"CONSUMED", Len(Rows)>>)
         /\ PrintT(<<"ACCEPTED", Cardinality({ i \in DOMAIN Rows : Rows[i].kind = "path" /\ Rows[i].valid })>>)

Init == done = Check
Next == UNCHANGED done
TraceSpec == Init /\ [][Next]_done
=============================================================================
