---------------------------- MODULE Trace_ICS20 ----------------------------
(***************************************************************************)
(* Validation of traces recorded from the real ICS-20 code against ICS20.  *)
(* Every trace line carries the action, the result class of the           *)
(* transaction and the abstract state read from the three real chains      *)
(* after it (all tracked bank balances, supplies, tracked total escrow,    *)
(* denomination records, parameters, next sequences, status of every       *)
(* packet).  The specification state is rebuilt from the logged values     *)
(* (linear search), the ghost fields are advanced by the specification's   *)
(* own Finish operator, and the property-scoped monitors below are         *)
(* evaluated on every (pre, action, result, post).  A false monitor prints *)
(*    <<"MONFAIL", trace id, step, <<property, clause>>>>                  *)
(* and the run continues.  "X" = harness sanity (infrastructure), "CONF" = *)
(* full conformance with Step (diagnostic, decides no property).           *)
(***************************************************************************)
EXTENDS ICS20, Json

CONSTANT TraceFile

Trace == ndJsonDeserialize(TraceFile)

VARIABLES l, S

SetOf(arr) == { arr[i] : i \in DOMAIN arr }

BalMap(arr) == LET K == { <<arr[i].a, arr[i].d>> : i \in DOMAIN arr }
               IN [k \in K |-> arr[CHOOSE i \in DOMAIN arr : arr[i].a = k[1] /\ arr[i].d = k[2]].n]
AmtMap(arr) == LET K == { arr[i].d : i \in DOMAIN arr }
               IN [k \in K |-> arr[CHOOSE i \in DOMAIN arr : arr[i].d = k].n]
PkMap(arr)  == LET K == { <<arr[i].e, arr[i].seq>> : i \in DOMAIN arr }
               IN [k \in K |-> arr[CHOOSE i \in DOMAIN arr : arr[i].e = k[1] /\ arr[i].seq = k[2]]]
NsMap(arr)  == [e \in Ends |-> IF \E i \in DOMAIN arr : arr[i].e = e
                               THEN arr[CHOOSE i \in DOMAIN arr : arr[i].e = e].n ELSE 0]

ObsOf(ln) == [bal |-> [c \in Chains |-> BalMap(ln.st.ch[c].bal)],
              sup |-> [c \in Chains |-> AmtMap(ln.st.ch[c].sup)],
              esc |-> [c \in Chains |-> AmtMap(ln.st.ch[c].esc)],
              reg |-> [c \in Chains |-> { r.d : r \in SetOf(ln.st.ch[c].reg) }],
              par |-> [c \in Chains |-> [send |-> ln.st.ch[c].par.send, recv |-> ln.st.ch[c].par.recv]],
              ns  |-> NsMap(ln.st.ns),
              pk  |-> PkMap(ln.st.pk),
              ep  |-> ln.st.ep]

InitOf(ln) == LET O == ObsOf(ln) IN
    [bal |-> O.bal, sup |-> O.sup, esc |-> O.esc, reg |-> O.reg, par |-> O.par, ns |-> O.ns, pk |-> O.pk, ep |-> O.ep,
     gesc |-> O.esc, don |-> [c \in Chains |-> EmptyMap], sd |-> EmptyMap]

Obs(T) == [bal |-> T.bal, sup |-> T.sup, esc |-> T.esc, reg |-> T.reg, par |-> T.par, ns |-> T.ns, pk |-> T.pk, ep |-> T.ep]

(***************************************************************************)
(* Monitors: the set of <<property, clause>> pairs violated by one step    *)
(***************************************************************************)
If(cond, prop, clause) == IF cond THEN { <<prop, clause>> } ELSE {}

Unknown(D) == "?" \in { D.tr[i] : i \in DOMAIN D.tr }

Viol(pre, a, res, post, ln) ==
  LET Rejected   == res # "ok"
      AllSame    == \A c \in Chains : BankSame(pre, post, c) /\ post.reg[c] = pre.reg[c]
      HasP       == a.a \in {"Recv", "Ack", "Timeout"} /\ HasPk(pre, PKey(a))
      k          == IF a.a \in {"Recv", "Ack", "Timeout"} THEN PKey(a) ELSE <<"?", 0>>
      p          == IF HasP THEN pre.pk[k] ELSE [e |-> "?", seq |-> 0, proto |-> "?", denom |-> Dn(<<>>, "?"), amt |-> 0,
                                                   sender |-> "?", receiver |-> "?", ep |-> 0, to |-> "t",
                                                   com |-> FALSE, rcv |-> FALSE, ack |-> "none"]
      postAck    == IF HasP /\ k \in DOMAIN post.pk THEN post.pk[k].ack ELSE "none"
      NewKeys    == (DOMAIN post.pk) \ (DOMAIN pre.pk)
      Refund     == RefundStep(pre, a, res)
      E          == Step(pre, a)
      Here       == IF a.a = "Tick" THEN "?" ELSE a.c
  IN
  \* ---- C30 conservation ------------------------------------------------------------------
       \* (a genesis export / import that loses packet state is C44's subject -- KF-C44-1 -- and ends the walk: the packet
       \*  statuses read after it no longer say what is in flight)
       If(a.a # "ExportImport" /\ ~I_Conservation(post), "C30", "I_Conservation")
  \cup If(~(\A c \in Chains : \A D \in (DOMAIN pre.sup[c]) \cup (DOMAIN post.sup[c]) :
              IsNative(D) /\ ~(a.a = "Fund" /\ a.c = c /\ D = Dn(<<>>, a.base)) => Sup(post, c, D) = Sup(pre, c, D)),
          "C30", "native-supply-constant")
  \cup If(Rejected /\ ~AllSame, "C30", "rejected-message-moves-nothing")
  \cup If(a.a = "Recv" /\ res = "ok" /\ postAck = "err" /\ ~AllSame, "C30", "failed-receive-moves-nothing")
  \cup If(~NoNegative(post), "C30", "no-negative-balance")
  \cup If(~I_SupplyIsSum(post), "C30", "supply-is-sum-of-balances")
  \cup If(a.a = "Transfer" /\ res = "ok"
          /\ ~(/\ NewKeys = { <<a.e, pre.ns[a.e]>> }
               /\ \A q \in NewKeys :
                    LET P == post.pk[q]  N == NewPacket(pre, a) IN
                    /\ P.denom = N.denom /\ P.amt = N.amt /\ P.sender = N.sender /\ P.receiver = N.receiver
                    /\ P.proto = N.proto /\ P.com /\ ~P.rcv /\ P.ack = "none"),
          "C30", "packet-carries-what-was-debited")
  \cup If(~(a.a = "Transfer" /\ res = "ok") /\ NewKeys # {}, "C30", "no-packet-without-accepted-send")
  \* ---- C31 tracked total escrow ----------------------------------------------------------
  \cup If(~I_TrackerIsNet(post), "C31", "tracker-equals-escrowed-minus-released")
  \cup If(~I_TrackerBounded(post), "C31", "tracker-within-escrow-balances")
  \* ---- C32 refunds -----------------------------------------------------------------------
  \cup If(Refund /\ ~(Bal(post, a.c, p.sender, p.denom) = Bal(pre, a.c, p.sender, p.denom) + p.amt),
          "C32", "refund-credits-exactly-the-sent-amount")
  \cup If(Refund /\ k \in DOMAIN pre.sd
          /\ ~(/\ Diff(post.bal[a.c], pre.bal[a.c]) = Neg(pre.sd[k].bal)
               /\ Diff(post.sup[a.c], pre.sup[a.c]) = Neg(pre.sd[k].sup)),
          "C32", "refund-restores-everything-the-send-changed")
  \cup If(a.a = "Ack" /\ res = "ok" /\ HasP /\ p.ack = "ok" /\ ~AllSame, "C32", "success-ack-changes-no-balance")
  \cup If(a.a \in {"Ack", "Timeout"} /\ HasP /\ ~p.com /\ ~(Rejected /\ AllSame), "C32", "refund-at-most-once")
  \cup If(a.a \in {"Ack", "Timeout"} /\ res = "ok" /\ ~Refund /\ ~AllSame, "C32", "no-refund-without-failure")
       \* (an honest timeout of an expired, unreceived packet / an honest error acknowledgement whose commitment is still
       \*  stored must be accepted: otherwise the refund the statement promises never happens)
  \cup If(a.a \in {"Ack", "Timeout"} /\ RefundStep(pre, a, "ok") /\ E.res = "ok" /\ res # "ok", "C32", "refund-enabled")
  \* ---- C33 vouchers can return -----------------------------------------------------------
  \cup If(ReturnSendGuard(pre, a) /\ res # "ok", "C33", "return-send-enabled")
  \cup If(ReturnRecvGuard(pre, a)
          /\ ~(LET D == Unwound(p.denom) IN
               /\ res = "ok" /\ postAck = "ok"
               /\ Bal(post, a.c, p.receiver, D) = Bal(pre, a.c, p.receiver, D) + p.amt
               /\ Bal(post, a.c, EscAcct(Peer(p.e)), D) = Bal(pre, a.c, EscAcct(Peer(p.e)), D) - p.amt),
          "C33", "return-releases-original-denomination")
  \* ---- C34 voucher names (state part; the function table is checked by Trace_Denom) ------
  \cup If(\E c \in Chains : \E r \in SetOf(ln.st.ch[c].reg) : r.k # r.h, "C34", "record-key-is-hash-of-full-path")
  \cup If(~I_VouchersRecorded(post), "C34", "every-circulating-voucher-is-recorded")
  \cup If(\E D \in DenomsOf(post) : Unknown(D), "C34", "voucher-name-is-ibc-hash-of-its-path")
  \* ---- C49 authorization -----------------------------------------------------------------
  \cup If(a.a = "Transfer" /\ res = "ok" /\ a.sender # a.signer, "C49", "accepted-send-has-sender-equal-signer")
  \cup If(a.a = "Transfer"
          /\ ~(\A c \in Chains : (Decreased(pre, post, c) \cap UserAccts) \subseteq (IF c = a.c THEN {a.signer} ELSE {})),
          "C49", "send-debits-only-the-signer")
  \cup If(a.a = "Transfer" /\ ~(\A c \in Chains : (Increased(pre, post, c) \cap UserAccts) = {}),
          "C49", "send-credits-no-account")
  \cup If(a.a = "Recv"
          /\ ~(\A c \in Chains : Increased(pre, post, c) \subseteq (IF c = a.c /\ HasP THEN {p.receiver} \cap Receivable ELSE {})),
          "C49", "receive-credits-only-the-receiver")
  \cup If(a.a = "Recv"
          /\ ~(\A c \in Chains : Decreased(pre, post, c) \subseteq
                  (IF c = a.c /\ HasP /\ Returning(p.denom, p.e) THEN {EscAcct(Peer(p.e))} ELSE {})),
          "C49", "receive-debits-only-the-channel-escrow")
  \cup If(a.a \in {"Ack", "Timeout"}
          /\ ~(\A c \in Chains : Increased(pre, post, c) \subseteq (IF c = a.c /\ HasP THEN {p.sender} ELSE {})),
          "C49", "refund-credits-only-the-original-sender")
  \cup If(a.a \in {"Ack", "Timeout"}
          /\ ~(\A c \in Chains : Decreased(pre, post, c) \subseteq
                  (IF c = a.c /\ HasP /\ ~Returning(p.denom, p.e) THEN {EscAcct(p.e)} ELSE {})),
          "C49", "refund-debits-only-the-channel-escrow")
  \* ---- C44 genesis export / import (diagnostic in this family) ------------------------------
  \cup If(a.a = "ExportImport" /\ res # "ok", "C44", "export-import-succeeds")
  \cup If(a.a = "ExportImport" /\ ~(AllSame /\ post.par = pre.par /\ post.ns = pre.ns), "C44", "export-import-keeps-transfer-state")
  \cup If(a.a = "ExportImport" /\ post.pk # pre.pk, "C44", "export-import-keeps-packet-status")
  \* ---- harness sanity --------------------------------------------------------------------
  \cup If(res = "panic", "X", "harness-panic")
  \cup If(~(\A c \in Chains : c # Here => BankSame(pre, post, c) /\ post.reg[c] = pre.reg[c] /\ post.par[c] = pre.par[c]),
          "X", "other-chain-changed")
  \cup If(post.ep # (IF a.a = "Tick" THEN pre.ep + 1 ELSE pre.ep), "X", "epoch")
  \* ---- full conformance (diagnostic) -----------------------------------------------------
  \cup If(~(E.res = res /\ Obs(E.S) = Obs(post)), "CONF", a.a \o ":" \o E.res \o "/" \o res)

Report(ln, viol) == \A v \in viol : PrintT(<<"MONFAIL", ln.tr, ln.i, v>>)

TraceInit == l = 1 /\ S = InitOf(Trace[1])

TraceNext ==
    /\ l < Len(Trace)
    /\ LET ln == Trace[l + 1] IN
       IF ln.a.a = "Init"
       THEN S' = InitOf(ln) /\ l' = l + 1
       ELSE \E post \in { Finish(S, ln.a, ln.res, ObsOf(ln)) } :
               /\ Report(ln, Viol(S, ln.a, ln.res, post, ln))
               /\ S' = post
               /\ l' = l + 1
    /\ (l + 1 = Len(Trace) => PrintT(<<"CONSUMED", l + 1>>))

TraceSpec == TraceInit /\ [][TraceNext]_<<l, S>>
=============================================================================
