----------------------------- MODULE DenomCases -----------------------------
(***************************************************************************)
(* Case generation by TLC (2.1b of DESIGN.md, "full enumeration" flavour). *)
(*  (1) the C34 function table: every path of at most MaxLen segments over *)
(*      the class alphabet of Denom.tla, and every (port, channel) pair    *)
(*      over identifier classes for the escrow address;                    *)
(*  (2) the C33 round trips: every native base denomination of at most     *)
(*      BaseMaxLen segments that the origin chain accepts (all of those up *)
(*      to FullLen segments, a seeded sample of the longer ones), each     *)
(*      turned into a schedule  issue -> send -> relay -> return (in two   *)
(*      parts) over one channel, or out over two channels and back.  The   *)
(*      schedules are built by folding ICS20!Step so that the sequence     *)
(*      numbers they name are the ones the specification predicts.         *)
(*      Schedules whose base is HopShaped carry kf = "hop-shaped-base".    *)
(* Everything is serialised once, from an ASSUME.                          *)
(***************************************************************************)
EXTENDS ICS20, Json, SequencesExt

DN == INSTANCE Denom

CONSTANTS MaxLen, BaseMaxLen, FullLen, Stride, Offset, BatchSize, Route2Every, OutDir

\* a sequence enumerating a finite set (SequencesExt!SetToSeq is evaluated without recursion)
AsSeq(X) == SetToSeq(X)

(***************************************************************************)
(* (1) function table                                                      *)
(***************************************************************************)
Paths == DN!SeqsUpTo(MaxLen)

IdClasses == {"port", "portx", "portp", "w", "chan", "chanx", "cli"}
EscrowPairs == IdClasses \X IdClasses

(***************************************************************************)
(* (2) round trips                                                         *)
(***************************************************************************)
ClassIdx(x) == CASE x = "w" -> 1 [] x = "c1" -> 2 [] x = "port" -> 3 [] x = "chan" -> 4
                 [] x = "sch" -> 5 [] x = "cli" -> 6 [] x = "ibc" -> 7 [] OTHER -> 8
RECURSIVE Hash(_, _)
Hash(bs, i) == IF i > Len(bs) THEN 0 ELSE ClassIdx(bs[i]) * (7 * i + 3) + 11 * Hash(bs, i + 1)

Bases == { bs \in DN!SeqsUpTo(BaseMaxLen) :
             DN!SdkValid(bs) /\ (Len(bs) <= FullLen \/ (Hash(bs, 1) % Stride) = Offset) }

EndSeq   == << "AB.A", "BC.B", "CA.C", "AB.B", "BC.C", "CA.A" >>
ProtoSeq == << "v1", "alias", "v2" >>
Rl(n)    == IF n = 1 THEN "rly" ELSE IF n = 2 THEN "u1" ELSE IF n = 3 THEN "u2" ELSE "u3"

T(c, e, pr, from, to, Dm, n, sl) ==
    [a |-> "Transfer", c |-> c, e |-> e, proto |-> pr, sender |-> from, signer |-> from, receiver |-> to,
     denom |-> Dm, amt |-> n, to |-> "t", slash |-> sl]
R(name, e, seq, rl) == [a |-> name, c |-> IF name = "Recv" THEN EndChain(Peer(e)) ELSE EndChain(e), e |-> e, seq |-> seq, rl |-> rl]

CaseActs(S0, ph, bs, v) ==
    LET e1 == EndSeq[(v % 6) + 1]   O == EndChain(e1)   e1p == Peer(e1)   Y == EndChain(e1p)
        sl == DN!HasSlash(bs)
        p1 == IF sl THEN "v1" ELSE ProtoSeq[(v % 3) + 1]
        p2 == IF sl THEN "v1" ELSE ProtoSeq[((v \div 3) % 3) + 1]
        rl == Rl((v % 4) + 1)
        D0 == Dn(<<>>, ph)   D1 == Dn(<<e1p>>, ph)
        s1 == S0.ns[e1]      s1p == S0.ns[e1p]
        fund == [a |-> "Fund", c |-> O, acct |-> "u1", base |-> ph, amt |-> 3, valid |-> TRUE]
    IN IF v % Route2Every # 0
       THEN << fund,
               T(O, e1, p1, "u1", "u2", D0, 2, sl), R("Recv", e1, s1, rl), R("Ack", e1, s1, rl),
               T(Y, e1p, p2, "u2", "u3", D1, 1, sl), R("Recv", e1p, s1p, rl), R("Ack", e1p, s1p, rl),
               T(Y, e1p, "v1", "u2", "u1", D1, 1, sl), R("Recv", e1p, s1p + 1, rl), R("Ack", e1p, s1p + 1, rl) >>
       ELSE LET e2 == CHOOSE x \in EndsOf(Y) : x # e1p   e2p == Peer(e2)   Z == EndChain(e2p)
                D2 == Dn(<<e2p, e1p>>, ph)
                s2 == S0.ns[e2]   s2p == S0.ns[e2p]
            IN << fund,
                  T(O, e1, p1, "u1", "u2", D0, 2, sl), R("Recv", e1, s1, rl), R("Ack", e1, s1, rl),
                  T(Y, e2, p2, "u2", "u3", D1, 2, sl), R("Recv", e2, s2, rl), R("Ack", e2, s2, rl),
                  T(Z, e2p, "v1", "u3", "u2", D2, 2, sl), R("Recv", e2p, s2p, rl), R("Ack", e2p, s2p, rl),
                  T(Y, e1p, p1, "u2", "u1", D1, 2, sl), R("Recv", e1p, s1p, rl), R("Ack", e1p, s1p, rl) >>

RECURSIVE RunAll(_, _, _)
RunAll(S0, acts, i) == IF i > Len(acts) THEN S0 ELSE RunAll(Step(S0, acts[i]).S, acts, i + 1)

Ph(i) == "$B" \o ToString(i)

\* fold over the cases of one batch: actions of case i are built in the state the previous cases leave behind
RECURSIVE Build(_, _, _, _)
Build(S0, cases, i, v0) ==
    IF i > Len(cases) THEN <<>>
    ELSE \* (bound once: a LET would be evaluated at both uses)
         CHOOSE res \in { acts \o Build(RunAll(S0, acts, 1), cases, i + 1, v0) : acts \in { CaseActs(S0, Ph(i), cases[i], v0 + i) } } : TRUE

Batch(cases, n, kf) ==
    [kind |-> "case", uniq |-> (n % 2 = 0), kf |-> kf,
     basecls |-> [i \in 1..Len(cases) |-> [ph |-> Ph(i), cls |-> cases[i]]],
     acts |-> Build(InitState, cases, 1, 5 * n)]

RECURSIVE Chunks(_, _)
Chunks(sq, n) == IF Len(sq) = 0 THEN <<>>
                 ELSE IF Len(sq) <= n THEN << sq >>
                 ELSE << SubSeq(sq, 1, n) >> \o Chunks(SubSeq(sq, n + 1, Len(sq)), n)

PlainChunks == Chunks(AsSeq({ bs \in Bases : ~DN!HopShaped(bs) }), BatchSize)
KfChunks    == Chunks(AsSeq({ bs \in Bases : DN!HopShaped(bs) }), BatchSize)

Batches == [i \in 1..Len(PlainChunks) |-> Batch(PlainChunks[i], i, "")]
           \o [i \in 1..Len(KfChunks) |-> Batch(KfChunks[i], Len(PlainChunks) + i, "hop-shaped-base")]

ASSUME JsonSerialize(OutDir \o "/paths.json", AsSeq(Paths))
ASSUME JsonSerialize(OutDir \o "/escrow.json", AsSeq(EscrowPairs))
ASSUME JsonSerialize(OutDir \o "/batches.json", Batches)
ASSUME PrintT(<<"CASES", Cardinality(Paths), Cardinality(EscrowPairs), Cardinality(Bases), Len(Batches)>>)
=============================================================================
