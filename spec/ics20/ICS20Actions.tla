---------------------------- MODULE ICS20Actions ----------------------------
(***************************************************************************)
(* Candidate actions of users, relayers and the environment in a state S   *)
(* of ICS20, and design-level step properties (C32, C49) used by the       *)
(* exhaustive model check.                                                 *)
(***************************************************************************)
EXTENDS ICS20

CONSTANTS SENDERS,    \* user accounts that send
          RCVS,       \* receiver names offered to senders (subset of Receivable \cup {"blk","bad"})
          AMTS,       \* amounts
          PROTOS,     \* subset of {"v1","alias","v2"}
          TOS,        \* subset of {"t","h"}
          MaxHops,    \* longest trace created by forwarding
          MaxPk,      \* total number of packets
          MaxEp,      \* last epoch
          PCHAINS,    \* chains whose receive parameter may be toggled
          SLASH       \* base denominations that contain '/'

Holdings(S, c) == { k \in DOMAIN S.bal[c] : k[1] \in SENDERS }

TransferActs(S) ==
    IF Cardinality(DOMAIN S.pk) >= MaxPk THEN {} ELSE
    UNION { UNION { UNION {
        { x \in
          { [a |-> "Transfer", c |-> c, e |-> e, proto |-> pr, sender |-> k[1], signer |-> k[1], receiver |-> r,
             denom |-> k[2], amt |-> n, to |-> to, slash |-> (k[2].base \in SLASH)]
            : n \in { m \in AMTS : m <= S.bal[c][k] }, r \in RCVS, pr \in PROTOS, to \in TOS }
          : x.to = "t" \/ x.proto = "v1" }
      : e \in { x \in EndsOf(c) : Returning(k[2], x) \/ Len(k[2].tr) < MaxHops } }
      : k \in Holdings(S, c) } : c \in Chains }

RelayActs(S) ==
    UNION { { [a |-> "Recv",    c |-> EndChain(Peer(k[1])), e |-> k[1], seq |-> k[2], rl |-> "rly"],
              [a |-> "Ack",     c |-> EndChain(k[1]),       e |-> k[1], seq |-> k[2], rl |-> "rly"],
              [a |-> "Timeout", c |-> EndChain(k[1]),       e |-> k[1], seq |-> k[2], rl |-> "rly"] }
            : k \in DOMAIN S.pk }

EnvActs(S) ==
    (IF S.ep < MaxEp THEN { [a |-> "Tick"] } ELSE {})
    \cup { [a |-> "Params", c |-> c, send |-> TRUE, recv |-> ~S.par[c].recv] : c \in PCHAINS }

Honest(S) == TransferActs(S) \cup RelayActs(S) \cup EnvActs(S)

=============================================================================
