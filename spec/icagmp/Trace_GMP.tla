------------------------------ MODULE Trace_GMP ------------------------------
(***************************************************************************)
(* Validation of traces recorded from the real 27-gmp code against GMP.tla *)
(* (property C39).  Two kinds of lines:                                    *)
(*  kind "GMP"   : protocol steps (Send / Recv) with the projected state   *)
(*                 of the destination chain: stored triple -> address map, *)
(*                 the address computed for every triple, balances and     *)
(*                 delegations of the derived accounts, receipts, acks,    *)
(*                 the classes of the store keys the step changed;         *)
(*  kind "DERIVE": batches of instantiated triples with the two results of *)
(*                 evaluating the real derivation function on each.        *)
(* A false monitor is printed as <<"MONFAIL", trace, step, <<"C39", clause>>>>. *)
(***************************************************************************)
EXTENDS GMP, Json

CONSTANT TraceFile

Trace == ndJsonDeserialize(TraceFile)

VARIABLES l, S, obs, seen

SetOf(arr) == { arr[i] : i \in DOMAIN arr }
PairsOf(arr) == { <<arr[i][1], arr[i][2]>> : i \in DOMAIN arr }
TriplesOf(arr) == { <<arr[i][1], arr[i][2], arr[i][3]>> : i \in DOMAIN arr }

StateOf(j, pk, ns) ==
    [ stored  |-> [t \in Triples |-> j.stored[t]],
      bal     |-> [n \in GAccts |-> j.bal[n]],
      del     |-> [n \in GAccts \ {"dest"} |-> j.del[n]],
      ns      |-> ns,
      commits |-> PairsOf(j.commits), rcpts |-> PairsOf(j.rcpts), acks |-> TriplesOf(j.acks),
      pk      |-> pk ]

Host(S0) == <<S0.bal, S0.del, S0.stored>>
Injective(f, dom) == \A x, y \in dom : x # y /\ f[x] # "" => f[x] # f[y]

Viol(pre, a, r, ack, post, diff, dbal, o1, o2) ==
  LET Ps  == IF a.a = "Recv" THEN PktOf(pre, a.cl, a.seq) ELSE {}
      P   == IF Ps = {} THEN [cl |-> 1, seq |-> 0, sender |-> "S1", salt |-> "", msgs |-> <<>>] ELSE CHOOSE x \in Ps : TRUE
      t   == Tid(P.cl, P.sender, P.salt)
      Executed == a.a = "Recv" /\ r = "ok" /\ ack = "result"
      H   == Run(pre, Acct(t), P.msgs)
      E   == Step(pre, a)
  IN
  \* ---- unique, stable derivation ----------------------------------------------------------------
     { <<"C39", "stored-mapping-equals-computed-address">> : x \in
           IF \E u \in Triples : post.stored[u] # "" /\ post.stored[u] # o2.computed[u] THEN {1} ELSE {} }
  \cup { <<"C39", "mapping-never-changes-once-used">> : x \in IF ~P_MappingStable(pre.stored, post.stored) THEN {1} ELSE {} }
  \cup { <<"C39", "computed-address-is-deterministic">> : x \in IF \E u \in Triples : o2.computed[u] # o1.computed[u] THEN {1} ELSE {} }
  \cup { <<"C39", "distinct-triples-have-distinct-addresses">> : x \in
           IF ~(Injective(o2.computed, Triples) /\ Injective(post.stored, Triples)) THEN {1} ELSE {} }
  \cup { <<"C39", "mapping-stored-on-first-use">> : x \in IF Executed /\ post.stored[t] = "" THEN {1} ELSE {} }
  \* ---- messages execute atomically and only for the derived account ----------------------------
  \cup { <<"C39", "executed-only-if-every-message-is-signed-by-the-account">> : x \in
           IF Executed /\ ~(G_NonEmpty(P.msgs) /\ G_AllSignedByAccount(P.msgs)) THEN {1} ELSE {} }
  \cup { <<"C39", "all-effects-present">> : x \in
           IF Executed /\ ~(H.ok /\ post.bal = H.bal /\ post.del = H.del) THEN {1} ELSE {} }
  \cup { <<"C39", "executed-acts-only-for-its-account">> : x \in
           IF Executed /\ ~(dbal \subseteq {Acct(t), "dest", "bonded", "distribution"}) THEN {1} ELSE {} }
  \cup { <<"C39", "failure-leaves-only-receipt-and-ack">> : x \in
           IF a.a = "Recv" /\ r = "ok" /\ ack # "result" /\ ~(diff \subseteq {"receipt", "ack"} /\ dbal = {}) THEN {1} ELSE {} }
  \cup { <<"C39", "failure-no-effect-persists">> : x \in
           IF a.a = "Recv" /\ r = "ok" /\ ack # "result" /\ Host(post) # Host(pre) THEN {1} ELSE {} }
  \cup { <<"C39", "rejected-receive-changes-nothing">> : x \in
           IF a.a = "Recv" /\ r # "ok" /\ ~(diff = {} /\ Host(post) = Host(pre)) THEN {1} ELSE {} }
  \cup { <<"C39", "no-effect-outside-execution">> : x \in IF a.a # "Recv" /\ Host(post) # Host(pre) THEN {1} ELSE {} }
  \* ---- outgoing packets: sender = signer ---------------------------------------------------------
  \cup { <<"C39", "send-accepted-only-if-sender-is-signer">> : x \in IF a.a = "Send" /\ r = "ok" /\ a.sender # a.signer THEN {1} ELSE {} }
  \cup { <<"C39", "packets-only-by-accepted-send">> : x \in
           IF post.commits # pre.commits /\ ~(a.a = "Send" /\ r = "ok" /\ a.sender = a.signer /\ post.commits = pre.commits \cup {<<a.cl, pre.ns[a.cl]>>})
           THEN {1} ELSE {} }
  \* ---- harness sanity ---------------------------------------------------------------------------
  \cup { <<"X", "unknown-ack-kind">> : x \in IF \E k \in post.acks : k[3] \notin {"result", "error"} THEN {1} ELSE {} }
  \cup { <<"X", "stored-entries-for-unknown-triples">> : x \in IF o2.xstored # 0 THEN {1} ELSE {} }
  \* ---- full conformance (diagnostic) ------------------------------------------------------------
  \cup { <<"CONF", a.a \o ":" \o E.res \o "/" \o E.ack \o " vs " \o r \o "/" \o ack>> : x \in
           IF E.res = r /\ E.ack = ack /\ E.S = post THEN {} ELSE {1} }

\* derivation table: a batch of triples with two evaluations each; seen : address -> triple of earlier batches
DeriveViol(ts, out, sn) ==
     { <<"C39", "derivation-deterministic">> : x \in IF \E i \in DOMAIN ts : out[i][1] # out[i][2] \/ out[i][1] = "error" THEN {1} ELSE {} }
  \cup { <<"C39", "derivation-injective">> : x \in
           IF \/ \E i, j \in DOMAIN ts : i # j /\ ts[i] # ts[j] /\ out[i][1] = out[j][1]
              \/ \E i \in DOMAIN ts : out[i][1] \in DOMAIN sn /\ sn[out[i][1]] # ts[i]
           THEN {1} ELSE {} }
  \cup { <<"X", "batch-shape">> : x \in IF Len(out) # Len(ts) THEN {1} ELSE {} }

Report(ln, viol) == \A v \in viol : PrintT(<<"MONFAIL", ln.tr, ln.i, v>>)

Empty == [x \in {} |-> 0]
NsInit == [cl \in Clients |-> 1]
IsGmp(ln) == ln.kind = "GMP"
InitS(ln) == IF IsGmp(ln) THEN StateOf(ln.st, {}, NsInit) ELSE InitState

TraceInit == l = 1 /\ S = InitS(Trace[1]) /\ obs = Trace[1].st /\ seen = Empty

TraceNext ==
    /\ l < Len(Trace)
    /\ LET ln == Trace[l + 1] IN
       IF ln.a.a = "Init"
       THEN /\ S' = InitS(ln) /\ obs' = ln.st /\ seen' = Empty /\ l' = l + 1
       ELSE IF ~IsGmp(ln)
       THEN LET ts == ln.a.ts  out == ln.st.out IN
            /\ Report(ln, DeriveViol(ts, out, seen))
            /\ seen' = [ad \in (DOMAIN seen) \cup { out[i][1] : i \in DOMAIN out } |->
                           IF ad \in DOMAIN seen THEN seen[ad] ELSE ts[CHOOSE i \in DOMAIN out : out[i][1] = ad]]
            /\ S' = S /\ obs' = obs /\ l' = l + 1
       ELSE LET a   == ln.a
                ok  == a.a = "Send" /\ ln.res = "ok"
                ns2 == IF ok THEN [S.ns EXCEPT ![a.cl] = @ + 1] ELSE S.ns
                pk2 == IF ok THEN S.pk \cup {[cl |-> a.cl, seq |-> S.ns[a.cl], sender |-> a.sender, salt |-> a.salt, msgs |-> a.msgs]} ELSE S.pk
                post == StateOf(ln.st, pk2, ns2)
            IN /\ Report(ln, Viol(S, a, ln.res, ln.ack, post, SetOf(ln.diff), SetOf(ln.dbal), obs, ln.st))
               /\ S' = post /\ obs' = ln.st /\ seen' = seen /\ l' = l + 1
    /\ (l + 1 = Len(Trace) => PrintT(<<"CONSUMED", l + 1>>))

TraceSpec == TraceInit /\ [][TraceNext]_<<l, S, obs, seen>>
=============================================================================
