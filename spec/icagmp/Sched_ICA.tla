------------------------------ MODULE Sched_ICA ------------------------------
(***************************************************************************)
(* Behaviour generation for C38 (and C37 in context): random walks of      *)
(* ICA.tla, run with  tlc -simulate.  A step is a goal-directed macro      *)
(* (complete handshake, close by timeout, re-open with the same or with    *)
(* different ordering / metadata or with the empty version string, the race of two channels initialised     *)
(* before either is open, send-and-execute), a successful action of a      *)
(* randomly drawn class, or any action of the adversarial pool (strangers  *)
(* signing, wrong-side handshakes, stale and duplicate relays).            *)
(* Every random draw is bound once through a set binder.                   *)
(***************************************************************************)
EXTENDS ICA, Json

CONSTANTS Depth, OutDir, MACRO_PCT, HONEST_PCT

VARIABLES S, sched, todo

M(k, f) == [k |-> k, from |-> f]
MsgPool == { <<M("send", "self")>>, <<M("send", "self"), M("delegate", "self")>>, <<M("setwd", "self")>>,
             <<M("send", "self"), M("fail", "self")>>, <<M("send", "peer")>>, <<M("send", "self"), M("send", "other")>>,
             <<M("delegate", "self"), M("setwd", "self"), M("send", "self")>>, <<M("fail", "self"), M("send", "self")>> }

Init == S = InitState /\ sched = <<>> /\ todo = <<>>

\* candidate pool of a step; the message list, ordering and encoding of the step's candidates are drawn beforehand
\* (keeps the pool - and the number of Step evaluations per step - small)
Pool(S0, l, r, e) ==
         RelayActs(S0) \cup WrongSideActs(S0, Owners)
    \cup { [a |-> "Register", signer |-> s, owner |-> o, order |-> r, enc |-> e] : s \in Signers, o \in Owners }
    \cup { [a |-> "OpenInit", signer |-> s, owner |-> o, order |-> r, enc |-> e, cpport |-> p] : s \in Signers, o \in Owners, p \in {"icahost", "other"} }
    \cup SendActs(Signers, Owners, {l}, {"short", "long"})
    \cup {[a |-> "Wait"]} \cup { [a |-> "SetAllow", allow |-> al] : al \in Allows }

ClassOf(a) == CASE a.a \in {"Register", "OpenInit"} -> "Init"
                [] a.a \in {"Try", "Ack", "Confirm", "CloseConfirm"} -> "Relay"
                [] a.a \in {"InitOnHost", "ForeignInit", "TryOnController"} -> "Wrong"
                [] OTHER -> a.a
Weights == <<"Init", "Relay", "Relay", "Relay", "Relay", "SendTx", "SendTx", "SendTx", "Recv", "Recv", "Recv",
             "Timeout", "Timeout", "Wait", "SetAllow", "Wrong">>

OkOf(P, S0, cls) == { a \in P : ClassOf(a) = cls /\ Step(S0, a).res = "ok" }
AdvOf(P, cls) == { a \in P : ClassOf(a) = cls }
AdvWeights == <<"Init", "Relay", "Relay", "Relay", "SendTx", "SendTx", "Recv", "Recv", "Timeout", "Timeout", "Wrong", "Wrong">>

\* ---- macros ------------------------------------------------------------------------------------
NA(S0) == Len(S0.A.chans)
NB(S0) == Len(S0.B.chans)
Reg(s, o, r, e)  == [a |-> "Register", signer |-> s, owner |-> o, order |-> r, enc |-> e]
Ini(s, o, r, e)  == [a |-> "OpenInit", signer |-> s, owner |-> o, order |-> r, enc |-> e, cpport |-> "icahost"]
Try_(n)          == [a |-> "Try", ca |-> n]
Ack_(n, m)       == [a |-> "Ack", ca |-> n, cb |-> m]
Conf(m)          == [a |-> "Confirm", cb |-> m]
CloseC(m)        == [a |-> "CloseConfirm", cb |-> m]
Send(o, l, t)    == [a |-> "SendTx", signer |-> o, owner |-> o, msgs |-> l, to |-> t]

Idle(S0, o)   == S0.A.active[o] = -1 /\ ~\E n \in ChanNos(S0.A.chans) : S0.A.chans[n + 1].owner = o /\ S0.A.chans[n + 1].st = "INIT"
IsOpen(S0, o) == ActiveA(S0, o).st = "OPEN"
IsClosed(S0, o) == S0.A.active[o] # -1 /\ ActiveA(S0, o).st = "CLOSED"

MOpen(S0) == { <<Reg(o, o, r, e), Try_(NA(S0)), Ack_(NA(S0), NB(S0)), Conf(NB(S0))>> : o \in {x \in Owners : Idle(S0, x)}, r \in Orders, e \in EncIn }

MExec(S0) == { <<Send(o, l, "long"), [a |-> "Recv", ca |-> S0.A.active[o], seq |-> ActiveA(S0, o).ns]>> :
                  o \in {x \in Owners : IsOpen(S0, x) /\ ActiveB(S0, x).st = "OPEN"}, l \in MsgPool }

MCloseByTimeout(S0) ==
    { <<Send(o, <<M("send", "self")>>, "short"), [a |-> "Wait"],
        [a |-> "Timeout", ca |-> S0.A.active[o], seq |-> ActiveA(S0, o).ns]>> \o (IF k = 1 THEN <<CloseC(ActiveA(S0, o).cp)>> ELSE <<>>) :
          o \in {x \in Owners : IsOpen(S0, x) /\ ActiveA(S0, x).order = "ORDERED"}, k \in {0, 1} }

\* re-open after the active channel closed: same or different ordering / encoding, by the owner or by a stranger
MReopen(S0) ==
    { (IF ActiveB(S0, o).st = "OPEN" /\ k = 1 THEN <<CloseC(S0.B.active[o])>> ELSE <<>>) \o
      << IF s = o THEN Reg(s, o, r, e) ELSE Ini(s, o, r, e), Try_(NA(S0)), Ack_(NA(S0), NB(S0)), Conf(NB(S0)) >> :
          o \in {x \in Owners : IsClosed(S0, x)}, r \in Orders, e \in EncIn, s \in Signers, k \in {0, 1} }

\* two channels for the same owner initialised before either is open; the first one opens, is closed by a timeout,
\* then the second one is acknowledged and confirmed
MRace(S0) ==
    { << Reg(o, o, "ORDERED", e1), Ini(s, o, r2, e2), Try_(NA(S0)), Try_(NA(S0) + 1), Ack_(NA(S0), NB(S0)), Conf(NB(S0)),
         Ack_(NA(S0) + 1, NB(S0) + 1),
         Send(o, <<M("send", "self")>>, "short"), [a |-> "Wait"], [a |-> "Timeout", ca |-> NA(S0), seq |-> 1] >> \o
      (IF k = 1 THEN <<CloseC(NB(S0))>> ELSE <<>>) \o
      << Ack_(NA(S0) + 1, NB(S0) + 1), Conf(NB(S0) + 1), Send(o, <<M("send", "self")>>, "long"),
         [a |-> "Recv", ca |-> NA(S0) + 1, seq |-> 1], CloseC(NB(S0)) >> :
          o \in {x \in Owners : Idle(S0, x)}, e1 \in Encs, r2 \in Orders, e2 \in EncIn, s \in Signers, k \in {0, 1} }

Macros(S0) == << MOpen(S0), MOpen(S0), MExec(S0), MExec(S0), MCloseByTimeout(S0), MCloseByTimeout(S0), MReopen(S0), MReopen(S0), MReopen(S0), MRace(S0) >>

Next ==
    /\ Len(sched) < Depth
    /\ \E roll \in { RandomElement(1..100) } :
       \E ms \in { IF todo = <<>> /\ roll <= MACRO_PCT THEN Macros(S)[RandomElement(1..Len(Macros(S)))] ELSE {} } :
       \E P \in { IF todo = <<>> /\ ms = {} THEN Pool(S, RandomElement(MsgPool), RandomElement(Orders), RandomElement(EncIn)) ELSE {} } :
       \E oks \in { IF todo = <<>> /\ ms = {} /\ roll <= MACRO_PCT + HONEST_PCT THEN OkOf(P, S, Weights[RandomElement(1..Len(Weights))]) ELSE {} } :
       \E adv \in { IF todo = <<>> /\ ms = {} /\ oks = {} THEN AdvOf(P, AdvWeights[RandomElement(1..Len(AdvWeights))]) ELSE {} } :
       \E plan \in { IF todo # <<>> THEN todo
                     ELSE IF ms # {} THEN RandomElement(ms)
                     ELSE IF oks # {} THEN <<RandomElement(oks)>>
                     ELSE IF adv # {} THEN <<RandomElement(adv)>>
                     ELSE <<[a |-> "Wait"]>> } :
       LET a == Head(plan)
           r == Step(S, a)
       IN /\ S' = r.S
          /\ sched' = Append(sched, a)
          /\ todo' = Tail(plan)
          /\ (Len(sched') = Depth) =>
                JsonSerialize(OutDir \o "/s" \o ToString(TLCGet("stats").traces) \o "_" \o ToString(RandomElement(1..1000000)) \o ".json",
                              [kind |-> "ICA", cfg |-> "walk", acts |-> sched'])

Spec == Init /\ [][Next]_<<S, sched, todo>>
=============================================================================
