------------------------------ MODULE Enum_GMP ------------------------------
(***************************************************************************)
(* Full enumerations for C39, serialised once:                             *)
(*  (1) derivation table: every triple (client suffix, sender, salt) of    *)
(*      symbol sequences (client suffix and sender non-empty) up to length *)
(*      SymLen, in batches - it contains all pairs of triples whose plain  *)
(*      concatenations coincide;                                           *)
(*  (2) execution: every message list of length 0..MaxLen over the kinds   *)
(*      below is sent (sender = signer) and received, the (client, sender, *)
(*      salt) triple, the route and the encoding rotating, every           *)
(*      DupEvery-th receive relayed twice;                                 *)
(*  (3) send authorisation: every (route, signer, sender, client, salt).   *)
(* The specification (Step) supplies the sequence numbers.                 *)
(***************************************************************************)
EXTENDS GMP, Json, SequencesExt

CONSTANTS OutDir, SymLen, Symbols, Batch, NKinds, MaxLen, NChunks, DupEvery, Rot

\* ---- (1) derivation table --------------------------------------------------------------------
SeqsFrom(lo, n) == UNION { [1..k -> Symbols] : k \in lo..n }
TripleSet == { [c |-> t[1], s |-> t[2], z |-> t[3]] : t \in SeqsFrom(1, SymLen) \X SeqsFrom(1, SymLen) \X SeqsFrom(0, SymLen) }
TripleSeq == SetToSeq(TripleSet)
NBatches == (Len(TripleSeq) + Batch - 1) \div Batch
DeriveActs == [ b \in 1..NBatches |->
                  [a |-> "Derive", ts |-> SubSeq(TripleSeq, (b - 1) * Batch + 1, IF b * Batch < Len(TripleSeq) THEN b * Batch ELSE Len(TripleSeq))] ]
DeriveSchedule == [kind |-> "DERIVE", cfg |-> "derive", acts |-> DeriveActs]

\* ---- (2) execution ---------------------------------------------------------------------------
M(k, f) == [k |-> k, from |-> f]
KindSeq == << M("send", "self"), M("send", "other"), M("send", "peer"), M("fail", "self"), M("delegate", "self"), M("delegate", "peer"), M("fail", "other") >>
Kinds == { KindSeq[i] : i \in 1..NKinds }
Lists == UNION { [1..n -> Kinds] : n \in 0..MaxLen }
ListSeq == SetToSeq(Lists)

TripleOf(i) == LET cls == <<1, 2>>  ss == <<"S1", "S2">>  zs == <<"", "s">>
               IN [cl |-> cls[(i % 2) + 1], sender |-> ss[((i \div 2) % 2) + 1], salt |-> zs[((i \div 4) % 2) + 1]]
RouteSeq == <<"call", "raw">>
EncSeq == <<"proto", "json", "abi">>

\* (sequences built from sets are bound once through a set binder: TLC would otherwise rebuild them on every reference)
Chunk(k) == CHOOSE r \in { SelectSeq([j \in 1..Len(ls) |-> IF j % NChunks = k THEN <<ls[j]>> ELSE <<>>], LAMBDA x : x # <<>>) : ls \in {ListSeq} } : TRUE

\* ---- (3) send authorisation ------------------------------------------------------------------
AuthSeq == SetToSeq(SendActs(GSigners, Clients, Salts, {<<M("send", "self")>>}, Routes, {"proto"}))

\* The enumerations are unrolled by TLC's own next-state relation: behaviour k < NChunks enumerates chunk k of the message lists,
\* behaviour k = NChunks the send-authorisation cases.
VARIABLES S, acts, i, k, cases

Init == k \in 0..NChunks /\ S = InitState /\ acts = <<>> /\ i = 1 /\ cases = IF k < NChunks THEN Chunk(k) ELSE [j \in 1..Len(AuthSeq) |-> <<AuthSeq[j]>>]

NextExec ==
    /\ k < NChunks /\ i <= Len(cases)
    /\ LET t    == TripleOf(i + Rot)
           send == [a |-> "Send", route |-> RouteSeq[(i % 2) + 1], signer |-> t.sender, sender |-> t.sender, cl |-> t.cl, salt |-> t.salt,
                    enc |-> EncSeq[(i % 3) + 1], msgs |-> cases[i][1]]
           recv == [a |-> "Recv", cl |-> t.cl, seq |-> S.ns[t.cl]]
           dup  == IF i % DupEvery = 0 THEN <<recv>> ELSE <<>>
       IN /\ S' = Step(Step(S, send).S, recv).S
          /\ acts' = acts \o <<send, recv>> \o dup
    /\ i' = i + 1 /\ UNCHANGED <<k, cases>>
    /\ (i' > Len(cases) => JsonSerialize(OutDir \o "/gexec_" \o ToString(k) \o ".json", [kind |-> "GMP", cfg |-> "gmp-exec", acts |-> acts']))

NextAuth ==
    /\ k = NChunks /\ i <= Len(cases)
    /\ LET snd == cases[i][1]
           r == Step(S, snd)
           recv == [a |-> "Recv", cl |-> snd.cl, seq |-> S.ns[snd.cl]]
       IN IF r.res = "ok" THEN S' = Step(r.S, recv).S /\ acts' = acts \o <<snd, recv>>
          ELSE S' = S /\ acts' = Append(acts, snd)
    /\ i' = i + 1 /\ UNCHANGED <<k, cases>>
    /\ (i' > Len(cases) => JsonSerialize(OutDir \o "/gauth.json", [kind |-> "GMP", cfg |-> "gmp-auth", acts |-> acts']))

Next == NextExec \/ NextAuth
Spec == Init /\ [][Next]_<<S, acts, i, k, cases>>

ASSUME JsonSerialize(OutDir \o "/derive.json", DeriveSchedule)
ASSUME PrintT(<<"ENUMERATED", Cardinality(TripleSet), Cardinality(Lists)>>)
=============================================================================
