-------------------------------- MODULE ICA --------------------------------
(***************************************************************************)
(* Interchain accounts (ICS-27 v1): controller chain A, host chain B, one  *)
(* connection per owner slot, two owners.  Properties C37 (host executes only authorized, *)
(* atomic transactions) and C38 (one active channel, owner-only sends).    *)
(*                                                                         *)
(* The semantics is a total function  Step(S, a) = [res, ack, S]  over an  *)
(* explicit state record; one action = one transaction.  The packet and    *)
(* handshake layer is abstract (what the packet / handshake families       *)
(* establish): a relay message is accepted iff the counterparty state it   *)
(* proves is the current counterparty state (honest relaying at the latest *)
(* height); ordering, duplication and timeouts are the adversary's.        *)
(*                                                                         *)
(* This is the INTENDED design: the two guards marked DESIGN below are     *)
(* what the property statements demand; whether the code has them is       *)
(* decided by the monitors of Trace_ICA on real executions.                *)
(***************************************************************************)
EXTENDS Integers, Sequences, FiniteSets, TLC

CONSTANTS FUND          \* working balance given to a freshly created interchain account

\* An "owner" is a slot (connection, owner account): the key of the active-channel and account registries of both chains.
\* In the ordinary world the two slots are two accounts on one connection; in the crossed world (Enum_ICA!XConn) they are
\* ONE account on two connections whose identifiers are crossed (A: connection-0 <-> B: connection-1 and vice versa), so
\* both slots have the same controller port and differ in the connection only.
Owners   == {"O1", "O2"}
Signers  == {"O1", "O2", "X"}         \* X : a stranger
Orders   == {"ORDERED", "UNORDERED"}
Encs     == {"proto3", "proto3json"}
\* what an initialising message may ask for: "default" = the empty version string, which the controller expands to the
\* default metadata (encoding proto3, tx type sdk_multi_msg, the connection identifiers of the channel's connection)
EncIn    == Encs \cup {"default"}
EncOf(e) == IF e = "default" THEN "proto3" ELSE e
\* "nearmiss": no entry EQUALS a type URL in use, but the entries are proper prefixes of such URLs, package patterns
\* ending in a star, extensions of such URLs and case variants.  The allow list is a list of exact type URLs; the only
\* wildcard is the lone star.
Allows   == {"star", "specific", "empty", "starplus", "nearmiss"}
IcaAccts == {"ica:O1", "ica:O2"}
Accts    == IcaAccts \cup {"other", "dest"}

Peer(o) == IF o = "O1" THEN "O2" ELSE "O1"
Ica(o)  == "ica:" \o o

(***************************************************************************)
(* Messages: [k, from].  k: send | fail (a send of more than any balance)  *)
(* | delegate | setwd.  from: self (the interchain account of the packet's *)
(* connection and controller port) | other (an ordinary host account) |    *)
(* peer (the other owner's interchain account).                            *)
(***************************************************************************)
MsgType(m) == IF m.k \in {"send", "fail"} THEN "send" ELSE m.k

\* host parameter AllowMessages: "*" is the wildcard only when it is the only entry
AllowedTypes(al) == CASE al = "specific" -> {"send", "delegate"}
                      [] al = "starplus" -> {"send"}
                      [] OTHER           -> {}
Allowed(al, m) == al = "star" \/ MsgType(m) \in AllowedTypes(al)

NoChan == [port |-> "", cpport |-> "", owner |-> "?", st |-> "NONE", order |-> "", enc |-> "", addr |-> "", cp |-> -1, ns |-> 0, nr |-> 0]
ChanAt(chs, n) == IF n >= 0 /\ n < Len(chs) THEN chs[n + 1] ELSE NoChan
SetChan(chs, n, c) == [chs EXCEPT ![n + 1] = c]

InitState ==
    [ epoch |-> 0, allow |-> "star",
      A |-> [chans |-> <<>>, active |-> [o \in Owners |-> -1], addr |-> [o \in Owners |-> ""], commits |-> {}],
      B |-> [chans |-> <<>>, active |-> [o \in Owners |-> -1], addr |-> [o \in Owners |-> ""], rcpts |-> {}, acks |-> {}],
      bal |-> [n \in Accts |-> 0],
      del |-> [n \in IcaAccts \cup {"other"} |-> 0],
      wd  |-> [n \in IcaAccts |-> FALSE],
      pk  |-> {} ]

Rej(S)  == [res |-> "err",  ack |-> "none", S |-> S]
Noop(S) == [res |-> "noop", ack |-> "none", S |-> S]
Acc(S)  == [res |-> "ok",   ack |-> "none", S |-> S]

(***************************************************************************)
(* Controller: channel initialisation (MsgRegisterInterchainAccount and a  *)
(* direct MsgChannelOpenInit run the same OnChanOpenInit callback).        *)
(***************************************************************************)
ActiveA(S, o) == ChanAt(S.A.chans, S.A.active[o])
ActiveB(S, o) == ChanAt(S.B.chans, S.B.active[o])

G_SignerIsOwner(a)    == a.signer = a.owner
G_NoOpenActive(S, o)  == ActiveA(S, o).st # "OPEN"
G_CounterpartyIsHost(a) == a.cpport = "icahost"
\* re-opening: the previous active channel is CLOSED and ordering / metadata are unchanged
G_ReopenMatches(S, o, order, enc) ==
    S.A.active[o] # -1 => /\ ActiveA(S, o).st = "CLOSED"
                          /\ ActiveA(S, o).order = order
                          /\ ActiveA(S, o).enc = enc

NewChanA(S, o, order, enc) ==
    [S EXCEPT !.A.chans = Append(@, [port |-> "ctrl", cpport |-> "icahost", owner |-> o, st |-> "INIT", order |-> order,
                                      enc |-> enc, addr |-> "", cp |-> -1, ns |-> 1, nr |-> 1])]

Register(S, a) ==
    IF /\ G_SignerIsOwner(a)
       /\ G_NoOpenActive(S, a.owner)
       /\ G_ReopenMatches(S, a.owner, a.order, EncOf(a.enc))
    THEN Acc(NewChanA(S, a.owner, a.order, EncOf(a.enc))) ELSE Rej(S)

OpenInit(S, a) ==
    IF /\ G_CounterpartyIsHost(a)
       /\ G_ReopenMatches(S, a.owner, a.order, EncOf(a.enc))
    THEN Acc(NewChanA(S, a.owner, a.order, EncOf(a.enc))) ELSE Rej(S)

\* only the controller starts a handshake
InitOnHost(S, a) == Rej(S)
TryOnController(S, a) == Rej(S)
\* another application of the host chain may name a controller port as its counterparty
ForeignInit(S, a) ==
    Acc([S EXCEPT !.B.chans = Append(@, [port |-> "mock", cpport |-> "ctrl", owner |-> a.owner, st |-> "INIT", order |-> "UNORDERED",
                                          enc |-> "", addr |-> "", cp |-> -1, ns |-> 1, nr |-> 1])])

(***************************************************************************)
(* Handshake relay                                                         *)
(***************************************************************************)
G_HostActiveFreeOrClosed(S, o) == S.B.active[o] = -1 \/ ActiveB(S, o).st = "CLOSED"

Try(S, a) ==
    LET c == ChanAt(S.A.chans, a.ca)
        o == c.owner
        fresh == S.B.addr[o] = ""
    IN IF /\ c.st = "INIT"                                  \* core: the proven counterparty end is INIT
          /\ G_HostActiveFreeOrClosed(S, o)
       THEN Acc([S EXCEPT !.B.chans = Append(@, [port |-> "icahost", cpport |-> "ctrl", owner |-> o, st |-> "TRYOPEN", order |-> c.order,
                                                 enc |-> c.enc, addr |-> Ica(o), cp |-> a.ca, ns |-> 1, nr |-> 1]),
                          !.B.addr[o] = Ica(o),                 \* created on first use, re-used ever after
                          !.bal[Ica(o)] = IF fresh THEN FUND ELSE @])
       ELSE Rej(S)

Ack(S, a) ==
    LET c == ChanAt(S.A.chans, a.ca)
        d == ChanAt(S.B.chans, a.cb)
        o == c.owner
    IN IF /\ c.st = "INIT"
          /\ d.st = "TRYOPEN" /\ d.port = "icahost" /\ d.cp = a.ca            \* core: proven counterparty end
          /\ G_NoOpenActive(S, o)
          /\ G_ReopenMatches(S, o, c.order, c.enc)                             \* DESIGN (C38, finding inflight-ack)
       THEN Acc([S EXCEPT !.A.chans = SetChan(@, a.ca, [c EXCEPT !.st = "OPEN", !.cp = a.cb, !.addr = d.addr]),
                          !.A.active[o] = a.ca,
                          !.A.addr[o] = d.addr])
       ELSE Rej(S)

Confirm(S, a) ==
    LET d == ChanAt(S.B.chans, a.cb)
        c == ChanAt(S.A.chans, d.cp)
        o == d.owner
    IN IF /\ d.st = "TRYOPEN" /\ d.port = "icahost"
          /\ c.st = "OPEN" /\ c.cp = a.cb
          /\ G_HostActiveFreeOrClosed(S, o)                                    \* DESIGN (C38, finding host-confirm-overwrite)
       THEN Acc([S EXCEPT !.B.chans = SetChan(@, a.cb, [d EXCEPT !.st = "OPEN"]),
                          !.B.active[o] = a.cb])
       ELSE Rej(S)

CloseConfirm(S, a) ==
    LET d == ChanAt(S.B.chans, a.cb)
        c == ChanAt(S.A.chans, d.cp)
    IN IF /\ d.st \in {"TRYOPEN", "OPEN"}
          /\ c.st = "CLOSED" /\ c.cp = a.cb
       THEN Acc([S EXCEPT !.B.chans = SetChan(@, a.cb, [d EXCEPT !.st = "CLOSED"])])
       ELSE Rej(S)

(***************************************************************************)
(* Packets                                                                 *)
(***************************************************************************)
G_OpenActive(S, o) == ActiveA(S, o).st = "OPEN"

SendTx(S, a) ==
    LET o  == a.owner
        ca == S.A.active[o]
        c  == ActiveA(S, o)
    IN IF /\ G_SignerIsOwner(a)
          /\ G_OpenActive(S, o)
          /\ Len(a.msgs) > 0
       THEN Acc([S EXCEPT !.A.chans = SetChan(@, ca, [c EXCEPT !.ns = @ + 1]),
                          !.A.commits = @ \cup {<<ca, c.ns>>},
                          !.pk = @ \cup {[ca |-> ca, seq |-> c.ns, owner |-> o, msgs |-> a.msgs,
                                          exp |-> IF a.to = "short" THEN S.epoch + 1 ELSE 0]}])
       ELSE Rej(S)

PktOf(S, ca, seq) == { P \in S.pk : P.ca = ca /\ P.seq = seq }
Expired(S, P) == P.exp # 0 /\ S.epoch >= P.exp

\* execution of a message list by the host, for the account acct; H = [ok, bal, del, wd]
ApplyMsg(H, acct, m) ==
    IF ~H.ok THEN H
    ELSE CASE m.k = "send"     -> IF H.bal[acct] >= 1 THEN [H EXCEPT !.bal[acct] = @ - 1, !.bal["dest"] = @ + 1] ELSE [H EXCEPT !.ok = FALSE]
           [] m.k = "delegate" -> IF H.bal[acct] >= 1 THEN [H EXCEPT !.bal[acct] = @ - 1, !.del[acct] = @ + 1] ELSE [H EXCEPT !.ok = FALSE]
           [] m.k = "setwd"    -> [H EXCEPT !.wd[acct] = TRUE]
           [] OTHER            -> [H EXCEPT !.ok = FALSE]
RECURSIVE RunFrom(_, _, _, _)
RunFrom(H, acct, msgs, i) == IF i > Len(msgs) THEN H ELSE RunFrom(ApplyMsg(H, acct, msgs[i]), acct, msgs, i + 1)
Run(S, acct, msgs) == RunFrom([ok |-> TRUE, bal |-> S.bal, del |-> S.del, wd |-> S.wd], acct, msgs, 1)

G_AllAllowed(S, msgs)  == \A i \in DOMAIN msgs : Allowed(S.allow, msgs[i])
G_AllSignedByIca(msgs) == \A i \in DOMAIN msgs : msgs[i].from = "self"

\* HostExec: what OnRecvPacket does with the messages of packet P
HostExec(S, P) ==
    LET acct == Ica(P.owner)
        H    == Run(S, acct, P.msgs)
    IN IF G_AllAllowed(S, P.msgs) /\ G_AllSignedByIca(P.msgs) /\ H.ok
       THEN [ack |-> "result", S |-> [S EXCEPT !.bal = H.bal, !.del = H.del, !.wd = H.wd]]
       ELSE [ack |-> "error", S |-> S]

Recv(S, a) ==
    LET Ps == PktOf(S, a.ca, a.seq)
    IN IF Ps = {} THEN Rej(S)
       ELSE LET P  == CHOOSE x \in Ps : TRUE
                c  == ChanAt(S.A.chans, P.ca)
                cb == c.cp
                d  == ChanAt(S.B.chans, cb)
            IN IF ~(d.st = "OPEN" /\ ~Expired(S, P) /\ <<P.ca, P.seq>> \in S.A.commits) THEN Rej(S)
               ELSE IF d.order = "ORDERED" /\ P.seq > d.nr THEN Rej(S)
               ELSE IF (d.order = "ORDERED" /\ P.seq < d.nr) \/ (d.order = "UNORDERED" /\ <<cb, P.seq>> \in S.B.rcpts) THEN Noop(S)
               ELSE LET E  == HostExec(S, P)
                        S1 == E.S
                        S2 == IF d.order = "ORDERED"
                              THEN [S1 EXCEPT !.B.chans = SetChan(@, cb, [d EXCEPT !.nr = @ + 1])]
                              ELSE [S1 EXCEPT !.B.rcpts = @ \cup {<<cb, P.seq>>}]
                    IN [res |-> "ok", ack |-> E.ack, S |-> [S2 EXCEPT !.B.acks = @ \cup {<<cb, P.seq, E.ack>>}]]

Timeout(S, a) ==
    LET Ps == PktOf(S, a.ca, a.seq)
    IN IF Ps = {} THEN Rej(S)
       ELSE LET P  == CHOOSE x \in Ps : TRUE
                c  == ChanAt(S.A.chans, P.ca)
                d  == ChanAt(S.B.chans, c.cp)
            IN IF ~Expired(S, P) THEN Rej(S)
               ELSE IF <<P.ca, P.seq>> \notin S.A.commits THEN Noop(S)
               ELSE IF ~(IF c.order = "ORDERED" THEN d.nr <= P.seq ELSE <<c.cp, P.seq>> \notin S.B.rcpts) THEN Rej(S)
               ELSE Acc([S EXCEPT !.A.commits = @ \ {<<P.ca, P.seq>>},
                                  !.A.chans = IF c.order = "ORDERED" THEN SetChan(@, P.ca, [c EXCEPT !.st = "CLOSED"]) ELSE @])

Wait(S, a)     == Acc([S EXCEPT !.epoch = @ + 1])
SetAllow(S, a) == Acc([S EXCEPT !.allow = a.allow])

Step(S, a) ==
    CASE a.a = "Register"        -> Register(S, a)
      [] a.a = "OpenInit"        -> OpenInit(S, a)
      [] a.a = "InitOnHost"      -> InitOnHost(S, a)
      [] a.a = "ForeignInit"     -> ForeignInit(S, a)
      [] a.a = "TryOnController" -> TryOnController(S, a)
      [] a.a = "Try"             -> Try(S, a)
      [] a.a = "Ack"             -> Ack(S, a)
      [] a.a = "Confirm"         -> Confirm(S, a)
      [] a.a = "CloseConfirm"    -> CloseConfirm(S, a)
      [] a.a = "SendTx"          -> SendTx(S, a)
      [] a.a = "Recv"            -> Recv(S, a)
      [] a.a = "Timeout"         -> Timeout(S, a)
      [] a.a = "Wait"            -> Wait(S, a)
      [] a.a = "SetAllow"        -> SetAllow(S, a)

(***************************************************************************)
(* State invariants and step properties of the design (C38, C37)           *)
(***************************************************************************)
ChanNos(chs) == 0 .. (Len(chs) - 1)
OpenOn(chs, o) == { n \in ChanNos(chs) : chs[n + 1].owner = o /\ chs[n + 1].st = "OPEN" /\ chs[n + 1].port \in {"ctrl", "icahost"} }

\* per (connection, owner): the only OPEN interchain-account channel is the active one
I_OneOpenActiveA(S) == \A o \in Owners : OpenOn(S.A.chans, o) \subseteq {S.A.active[o]}
I_OneOpenActiveB(S) == \A o \in Owners : OpenOn(S.B.chans, o) \subseteq {S.B.active[o]}
\* only the controller starts handshakes, always towards the host port
I_ControllerInitiates(S) ==
    /\ \A n \in ChanNos(S.A.chans) : S.A.chans[n + 1].port = "ctrl" => S.A.chans[n + 1].cpport = "icahost" /\ S.A.chans[n + 1].st # "TRYOPEN"
    /\ \A n \in ChanNos(S.B.chans) : S.B.chans[n + 1].port = "icahost" => S.B.chans[n + 1].st # "INIT"
\* both chains agree on the account
I_AddrAgree(S) == \A o \in Owners : S.A.addr[o] # "" => S.A.addr[o] = S.B.addr[o]

DesignInv(S) == I_OneOpenActiveA(S) /\ I_OneOpenActiveB(S) /\ I_ControllerInitiates(S) /\ I_AddrAgree(S)

\* step properties (pre-state S, post-state T)
P_ActiveReplacedOnlyWhenClosed(chs, act, act2) ==
    \A o \in Owners : act[o] # -1 /\ act2[o] # act[o] => ChanAt(chs, act[o]).st = "CLOSED"
P_ReopenSame(chs, act, chs2, act2) ==
    \A o \in Owners : act[o] # -1 /\ act2[o] # act[o] =>
        /\ ChanAt(chs2, act2[o]).order = ChanAt(chs, act[o]).order
        /\ ChanAt(chs2, act2[o]).enc = ChanAt(chs, act[o]).enc
P_AddrStable(ad, ad2) == \A o \in Owners : ad[o] # "" => ad2[o] = ad[o]

(***************************************************************************)
(* Candidate actions (used by the exhaustive and the simulation modules)   *)
(***************************************************************************)
PktKeys(S) == { <<P.ca, P.seq>> : P \in S.pk }

RelayActs(S) ==
         { [a |-> "Try", ca |-> n] : n \in ChanNos(S.A.chans) }
    \cup { [a |-> "Ack", ca |-> n, cb |-> m] : n \in ChanNos(S.A.chans), m \in ChanNos(S.B.chans) }
    \cup { [a |-> "Confirm", cb |-> m] : m \in ChanNos(S.B.chans) }
    \cup { [a |-> "CloseConfirm", cb |-> m] : m \in ChanNos(S.B.chans) }
    \cup { [a |-> "Recv", ca |-> k[1], seq |-> k[2]] : k \in PktKeys(S) }
    \cup { [a |-> "Timeout", ca |-> k[1], seq |-> k[2]] : k \in PktKeys(S) }

InitActs(signers, owners) ==
         { [a |-> "Register", signer |-> s, owner |-> o, order |-> r, enc |-> e] : s \in signers, o \in owners, r \in Orders, e \in EncIn }
    \cup { [a |-> "OpenInit", signer |-> s, owner |-> o, order |-> r, enc |-> e, cpport |-> p] :
              s \in signers, o \in owners, r \in Orders, e \in EncIn, p \in {"icahost", "other"} }

WrongSideActs(S, owners) ==
         { [a |-> "InitOnHost", owner |-> o, order |-> r, enc |-> "proto3"] : o \in owners, r \in Orders }
    \cup { [a |-> "ForeignInit", owner |-> o] : o \in owners }
    \cup { [a |-> "TryOnController", owner |-> S.B.chans[m + 1].owner, cb |-> m] : m \in { x \in ChanNos(S.B.chans) : S.B.chans[x + 1].port = "mock" } }

SendActs(signers, owners, lists, tos) ==
    { [a |-> "SendTx", signer |-> s, owner |-> o, msgs |-> l, to |-> t] : s \in signers, o \in owners, l \in lists, t \in tos }
=============================================================================
