------------------------------ MODULE Sched_GMP ------------------------------
(* Random walks of GMP.tla (tlc -simulate): sends by owners and strangers over both *)
(* routes, receives in any order, duplicates; the same triples are used again and   *)
(* again so that "the mapping never changes once used" is exercised over histories. *)
EXTENDS GMP, Json

CONSTANTS Depth, OutDir, HONEST_PCT

VARIABLES S, sched

M(k, f) == [k |-> k, from |-> f]
MsgPool == { <<>>, <<M("send", "self")>>, <<M("send", "self"), M("delegate", "self")>>, <<M("send", "self"), M("fail", "self")>>,
             <<M("send", "peer")>>, <<M("send", "self"), M("send", "other")>>, <<M("delegate", "self"), M("send", "self"), M("send", "self")>>,
             <<M("fail", "self"), M("send", "self")>>, <<M("delegate", "peer"), M("send", "self")>> }

Init == S = InitState /\ sched = <<>>

Sends == SendActs(GSigners, Clients, Salts, MsgPool, Routes, GEncs)
Pending(S0) == { a \in RecvActs(S0) : <<a.cl, a.seq>> \notin S0.rcpts }

Next ==
    /\ Len(sched) < Depth
    /\ \E roll \in { RandomElement(1..100) } :
       \E a \in { IF roll <= HONEST_PCT /\ Pending(S) # {} /\ roll % 2 = 0 THEN RandomElement(Pending(S))
                  ELSE IF roll <= HONEST_PCT THEN RandomElement({ x \in Sends : x.signer = x.sender })
                  ELSE IF roll % 3 = 0 /\ RecvActs(S) # {} THEN RandomElement(RecvActs(S))
                  ELSE RandomElement(Sends) } :
       /\ S' = Step(S, a).S
       /\ sched' = Append(sched, a)
       /\ (Len(sched') = Depth) =>
             JsonSerialize(OutDir \o "/g" \o ToString(TLCGet("stats").traces) \o "_" \o ToString(RandomElement(1..1000000)) \o ".json",
                           [kind |-> "GMP", cfg |-> "walk", acts |-> sched'])

Spec == Init /\ [][Next]_<<S, sched>>
=============================================================================
