------------------------------- MODULE MC_GMP -------------------------------
(* Exhaustive check of GMP.tla: (1) the derivation preimage is injective over all *)
(* triples of symbol sequences up to length SeqLen, whereas plain concatenation   *)
(* is not (vacuity witness); (2) the protocol state machine with small constants. *)
EXTENDS GMP

CONSTANTS SeqLen, Alphabet, MaxPk, MCClients, MCSalts

VARIABLE S

SeqsUpTo(n) == UNION { [1..k -> Alphabet] : k \in 0..n }
AllT == SeqsUpTo(SeqLen) \X SeqsUpTo(SeqLen) \X SeqsUpTo(SeqLen)

PreimageInjective == Cardinality({ Preimage(t[1], t[2], t[3]) : t \in AllT }) = Cardinality(AllT)
ConcatCollides    == Cardinality({ Concat(t[1], t[2], t[3]) : t \in AllT }) < Cardinality(AllT)
\* the two textbook collisions of an un-prefixed derivation are separated by the prefixes
Textbook == LET a == CHOOSE x \in Alphabet : TRUE
                b == CHOOSE x \in Alphabet \ {a} : TRUE
            IN /\ Concat(<<a, b>>, <<a>>, <<>>) = Concat(<<a>>, <<b, a>>, <<>>)
               /\ Preimage(<<a, b>>, <<a>>, <<>>) # Preimage(<<a>>, <<b, a>>, <<>>)
               /\ Concat(<<a>>, <<b>>, <<>>) = Concat(<<a>>, <<>>, <<b>>)
               /\ Preimage(<<a>>, <<b>>, <<>>) # Preimage(<<a>>, <<>>, <<b>>)

ASSUME PreimageInjective /\ PrintT(<<"WITNESS", "PreimageInjective">>) /\ PrintT(<<"TRIPLES", Cardinality(AllT)>>)
ASSUME ConcatCollides /\ PrintT(<<"WITNESS", "ConcatCollides">>)
ASSUME Textbook /\ PrintT(<<"WITNESS", "Textbook">>)

M(k, f) == [k |-> k, from |-> f]
MsgLists == { <<>>, <<M("send", "self")>>, <<M("send", "self"), M("fail", "self")>>, <<M("delegate", "self"), M("send", "peer")>> }

AllActs(S0) == RecvActs(S0) \cup (IF Cardinality(S0.pk) < MaxPk THEN SendActs(GSigners, MCClients, MCSalts, MsgLists, Routes, {"proto"}) ELSE {})

Kinds == <<"Send", "Recv", "ExecResult", "ExecError", "FirstUse", "Reuse">>
Idx(name) == CHOOSE i \in DOMAIN Kinds : Kinds[i] = name
Mark(name) == IF TLCGet(Idx(name)) = 0 THEN TLCSet(Idx(name), 1) /\ PrintT(<<"WITNESS", name>>) ELSE TRUE
Witness(S0, a, r) ==
    /\ Mark(a.a)
    /\ (a.a = "Recv" /\ r.ack = "result" => Mark("ExecResult"))
    /\ (a.a = "Recv" /\ r.ack = "error" => Mark("ExecError"))
    /\ (a.a = "Recv" /\ r.ack = "result" /\ r.S.stored # S0.stored => Mark("FirstUse"))
    /\ (a.a = "Recv" /\ r.ack = "result" /\ r.S.stored = S0.stored => Mark("Reuse"))

Init == S = InitState /\ \A i \in DOMAIN Kinds : TLCSet(i, 0)
Next == \E a \in AllActs(S) : LET r == Step(S, a) IN r.res = "ok" /\ S' = r.S /\ Witness(S, a, r)
Spec == Init /\ [][Next]_S

Bound == Cardinality(S.pk) <= MaxPk
Inv == I_StoredIsDerived(S)

MappingStable == [][P_MappingStable(S.stored, S'.stored)]_S
HostStateOnlyByResult ==
    [][(S'.bal # S.bal \/ S'.del # S.del \/ S'.stored # S.stored) => \E k \in S'.acks \ S.acks : k[3] = "result"]_S
=============================================================================
