------------------------------ MODULE Trace_ICA ------------------------------
(***************************************************************************)
(* Validation of traces recorded from the real interchain-accounts code    *)
(* (harness/icagmp) against ICA.tla.  Every line carries the action, the   *)
(* transaction result class, the kind of acknowledgement a receive wrote,  *)
(* the classes of the store keys the step changed on the executing chain   *)
(* (block noise removed) and the projected state of both chains after the  *)
(* step.  The specification state is rebuilt from the logged values, the   *)
(* specification's own operators are evaluated on (pre, action) and every  *)
(* false monitor is printed as                                             *)
(*     <<"MONFAIL", trace, step, <<property, clause>>>>.                   *)
(* A clause ends in "@KF:<class>" when the step's inputs (action and       *)
(* pre-state, with the creation history of the channel) lie in the input   *)
(* class of a recorded finding; the runner matches that against            *)
(* known_findings.json.  "X" = harness sanity, "CONF" = full conformance   *)
(* with the specification (diagnostic only).                               *)
(***************************************************************************)
EXTENDS ICA, Json

CONSTANT TraceFile

Trace == ndJsonDeserialize(TraceFile)

VARIABLES l, S, obs, born, over

SetOf(arr) == { arr[i] : i \in DOMAIN arr }

ChanOf(c) == [port |-> c.port, cpport |-> c.cpport, owner |-> c.owner, st |-> c.st, order |-> c.order, enc |-> c.enc,
              addr |-> c.addr, cp |-> c.cp, ns |-> c.ns, nr |-> c.nr]
ChansOf(arr) == [i \in DOMAIN arr |-> ChanOf(arr[i])]
PairsOf(arr) == { <<arr[i][1], arr[i][2]>> : i \in DOMAIN arr }
TriplesOf(arr) == { <<arr[i][1], arr[i][2], arr[i][3]>> : i \in DOMAIN arr }

\* the specification state shown by a trace line (pk: the packets sent so far, tracked from the actions)
StateOf(j, pk) ==
    [ epoch |-> j.epoch, allow |-> j.allow,
      A |-> [chans |-> ChansOf(j.A.chans), active |-> [o \in Owners |-> j.A.active[o]], addr |-> [o \in Owners |-> j.A.addr[o]],
             commits |-> PairsOf(j.A.commits)],
      B |-> [chans |-> ChansOf(j.B.chans), active |-> [o \in Owners |-> j.B.active[o]], addr |-> [o \in Owners |-> j.B.addr[o]],
             rcpts |-> PairsOf(j.B.rcpts), acks |-> TriplesOf(j.B.acks)],
      bal |-> [n \in Accts |-> j.bal[n]],
      del |-> [n \in IcaAccts \cup {"other"} |-> j.del[n]],
      wd  |-> [n \in IcaAccts |-> j.wd[n]],
      pk  |-> pk ]

\* metadata of a logged channel: everything IsPreviousMetadataEqual compares, and the ordering
Meta(c) == <<c.order, c.enc, c.tx, c.ver, c.cconn, c.hconn>>
RawAt(arr, n) == IF n >= 0 /\ n < Len(arr) THEN arr[n + 1]
                 ELSE [order |-> "", enc |-> "", tx |-> "", ver |-> "", cconn |-> "", hconn |-> "", addr |-> "", st |-> "NONE"]

Host(S0) == <<S0.bal, S0.del, S0.wd>>

(***************************************************************************)
(* Monitors                                                                *)
(***************************************************************************)
Viol(pre, a, r, ack, post, diff, dbal, o1, o2, bornNow, overNow) ==
  LET Ps  == IF a.a \in {"Recv", "Timeout"} THEN PktOf(pre, a.ca, a.seq) ELSE {}
      P   == IF Ps = {} THEN [owner |-> "O1", msgs |-> <<>>, ca |-> -1, seq |-> 0, exp |-> 0] ELSE CHOOSE x \in Ps : TRUE
      o   == P.owner
      Exec == a.a = "Recv" /\ r = "ok" /\ ack = "result"
      H   == Run(pre, Ica(o), P.msgs)
      E   == Step(pre, a)
      NewCommits == post.A.commits \ pre.A.commits
      \* ---- input classes of recorded findings (decided from action, pre-state and channel history) ----
      Inflight(ca) == ca \in DOMAIN bornNow /\ ca \in DOMAIN overNow /\ bornNow[ca] # overNow[ca]
      InflightAck == a.a = "Ack" /\ LET c == ChanAt(pre.A.chans, a.ca) IN
                        /\ c.owner \in Owners /\ pre.A.active[c.owner] # -1 /\ a.ca \in DOMAIN bornNow
                        /\ bornNow[a.ca] # pre.A.active[c.owner]
      HostOverwrite == a.a = "Confirm" /\ LET d == ChanAt(pre.B.chans, a.cb) IN
                        /\ d.owner \in Owners /\ pre.B.active[d.owner] \notin {-1, a.cb} /\ ActiveB(pre, d.owner).st # "CLOSED"
      HostAfterInflight == a.a = "Confirm" /\ Inflight(ChanAt(pre.B.chans, a.cb).cp)
      TagA(name) == IF InflightAck THEN name \o "@KF:inflight-ack" ELSE name
      TagB(name) == IF HostOverwrite THEN name \o "@KF:host-confirm-overwrite" ELSE name
      TagBM(name) == IF HostAfterInflight THEN name \o "@KF:inflight-ack" ELSE name
      ReplacedA == { ow \in Owners : pre.A.active[ow] # -1 /\ post.A.active[ow] # pre.A.active[ow] }
      ReplacedB == { ow \in Owners : pre.B.active[ow] # -1 /\ post.B.active[ow] # pre.B.active[ow] }
  IN
  \* ---- C37 host executes only authorized, atomic transactions ---------------------------------
     { <<"C37", "executed-only-if-every-type-allowed">> : x \in IF Exec /\ ~G_AllAllowed(pre, P.msgs) THEN {1} ELSE {} }
  \cup { <<"C37", "executed-only-if-every-signer-is-the-interchain-account">> : x \in
           IF Exec /\ ~(G_AllSignedByIca(P.msgs) /\ pre.B.addr[o] # "") THEN {1} ELSE {} }
  \cup { <<"C37", "all-effects-present">> : x \in
           IF Exec /\ ~(H.ok /\ post.bal = H.bal /\ post.del = H.del /\ post.wd = H.wd) THEN {1} ELSE {} }
  \cup { <<"C37", "executed-acts-only-for-its-account">> : x \in
           IF Exec /\ ~(dbal \subseteq {Ica(o), "dest", "bonded", "distribution"}) THEN {1} ELSE {} }
  \cup { <<"C37", "failure-leaves-only-receipt-and-ack">> : x \in
           IF a.a = "Recv" /\ r = "ok" /\ ack # "result" /\ ~(diff \subseteq {"receipt", "ack", "nextrecv"} /\ dbal = {}) THEN {1} ELSE {} }
  \cup { <<"C37", "failure-no-message-effect-persists">> : x \in
           IF a.a = "Recv" /\ r = "ok" /\ ack # "result" /\ Host(post) # Host(pre) THEN {1} ELSE {} }
  \cup { <<"C37", "rejected-receive-changes-nothing">> : x \in
           IF a.a = "Recv" /\ r # "ok" /\ ~(diff = {} /\ Host(post) = Host(pre)) THEN {1} ELSE {} }
  \cup { <<"C37", "no-host-effect-outside-execution">> : x \in
           IF a.a # "Recv" /\ ~(/\ post.del = pre.del /\ post.wd = pre.wd
                                /\ \A n \in Accts : post.bal[n] # pre.bal[n] =>
                                      a.a = "Try" /\ r = "ok" /\ \E ow \in Owners : n = Ica(ow) /\ pre.B.addr[ow] = "" /\ post.bal[n] = FUND)
           THEN {1} ELSE {} }
  \* ---- C38 one active channel, owner-only sends -----------------------------------------------
  \cup { <<"C38", "one-open-active-channel-controller">> : x \in IF I_OneOpenActiveA(pre) /\ ~I_OneOpenActiveA(post) THEN {1} ELSE {} }
  \cup { <<"C38", TagB("one-open-active-channel-host")>> : x \in IF I_OneOpenActiveB(pre) /\ ~I_OneOpenActiveB(post) THEN {1} ELSE {} }
  \cup { <<"C38", "active-replaced-only-when-closed-controller">> : x \in
           IF ~P_ActiveReplacedOnlyWhenClosed(pre.A.chans, pre.A.active, post.A.active) THEN {1} ELSE {} }
  \cup { <<"C38", TagB("active-replaced-only-when-closed-host")>> : x \in
           IF ~P_ActiveReplacedOnlyWhenClosed(pre.B.chans, pre.B.active, post.B.active) THEN {1} ELSE {} }
  \cup { <<"C38", TagA("reopened-keeps-ordering-and-metadata-controller")>> : x \in
           IF \E ow \in ReplacedA : Meta(RawAt(o2.A.chans, post.A.active[ow])) # Meta(RawAt(o1.A.chans, pre.A.active[ow])) THEN {1} ELSE {} }
  \cup { <<"C38", TagBM("reopened-keeps-ordering-and-metadata-host")>> : x \in
           IF \E ow \in ReplacedB : Meta(RawAt(o2.B.chans, post.B.active[ow])) # Meta(RawAt(o1.B.chans, pre.B.active[ow])) THEN {1} ELSE {} }
  \cup { <<"C38", "reopened-keeps-account-address">> : x \in
           IF ~(/\ P_AddrStable(pre.A.addr, post.A.addr) /\ P_AddrStable(pre.B.addr, post.B.addr)
                /\ \A ow \in ReplacedA : RawAt(o2.A.chans, post.A.active[ow]).addr = pre.A.addr[ow]
                /\ \A ow \in ReplacedB : RawAt(o2.B.chans, post.B.active[ow]).addr = pre.B.addr[ow]
                /\ (I_AddrAgree(pre) => I_AddrAgree(post))
                /\ (post.B.addr["O1"] # "" => post.B.addr["O1"] # post.B.addr["O2"]))
           THEN {1} ELSE {} }
  \cup { <<"C38", "sendtx-accepted-only-from-owner">> : x \in IF a.a = "SendTx" /\ r = "ok" /\ a.signer # a.owner THEN {1} ELSE {} }
  \cup { <<"C38", "packets-only-by-owner-signed-sendtx-on-open-active-channel">> : x \in
           IF NewCommits # {} /\ ~(/\ a.a = "SendTx" /\ r = "ok" /\ a.signer = a.owner
                                   /\ \A k \in NewCommits : /\ ChanAt(pre.A.chans, k[1]).owner = a.owner
                                                            /\ ChanAt(pre.A.chans, k[1]).st = "OPEN"
                                                            /\ pre.A.active[a.owner] = k[1])
           THEN {1} ELSE {} }
  \cup { <<"C38", "handshake-init-on-host-port-rejected">> : x \in IF a.a = "InitOnHost" /\ r = "ok" THEN {1} ELSE {} }
  \cup { <<"C38", "handshake-try-on-controller-port-rejected">> : x \in IF a.a = "TryOnController" /\ r = "ok" THEN {1} ELSE {} }
  \cup { <<"C38", "controller-initiates-towards-host-port">> : x \in
           IF I_ControllerInitiates(pre) /\ ~I_ControllerInitiates(post) THEN {1} ELSE {} }
  \cup { <<"C38", "init-with-other-counterparty-port-rejected">> : x \in
           IF a.a = "OpenInit" /\ r = "ok" /\ a.cpport # "icahost" THEN {1} ELSE {} }
  \* ---- harness sanity ---------------------------------------------------------------------------
  \cup { <<"X", "unknown-ack-kind">> : x \in IF \E k \in post.B.acks : k[3] \notin {"result", "error"} THEN {1} ELSE {} }
  \cup { <<"X", "entries-for-unknown-ports">> : x \in IF o2.A.xactive # 0 \/ o2.B.xactive # 0 THEN {1} ELSE {} }
  \cup { <<"X", "clock">> : x \in IF post.epoch # pre.epoch + (IF a.a = "Wait" THEN 1 ELSE 0) THEN {1} ELSE {} }
  \* ---- full conformance (diagnostic) ------------------------------------------------------------
  \cup { <<"CONF", a.a \o ":" \o E.res \o "/" \o E.ack \o " vs " \o r \o "/" \o ack>> : x \in
           IF E.res = r /\ E.ack = ack /\ E.S = post THEN {} ELSE {1} }

Report(ln, viol) == \A v \in viol : PrintT(<<"MONFAIL", ln.tr, ln.i, v>>)

\* scenario coverage (vacuity floors of the runner): printed as <<"COVER", name>>
Cover(pre, a, r, post, bornNow) ==
    LET C(name, cond) == IF cond THEN PrintT(<<"COVER", name>>) ELSE TRUE
        own == IF a.a \in {"Register", "OpenInit", "SendTx"} THEN a.owner ELSE "O1"
    IN /\ C("reopen-completed", \E ow \in Owners : pre.A.active[ow] # -1 /\ post.A.active[ow] # pre.A.active[ow])
       /\ C("reopen-with-different-ordering-or-metadata-rejected",
             a.a \in {"Register", "OpenInit"} /\ r # "ok" /\ pre.A.active[own] # -1 /\ ActiveA(pre, own).st = "CLOSED"
             /\ (a.a = "OpenInit" => a.cpport = "icahost") /\ (a.a = "Register" => a.signer = a.owner)
             /\ <<ActiveA(pre, own).order, ActiveA(pre, own).enc>> # <<a.order, EncOf(a.enc)>>)
       /\ C("reopen-with-empty-version-after-non-default-metadata-rejected",
             a.a \in {"Register", "OpenInit"} /\ r # "ok" /\ pre.A.active[own] # -1 /\ ActiveA(pre, own).st = "CLOSED"
             /\ (a.a = "OpenInit" => a.cpport = "icahost") /\ (a.a = "Register" => a.signer = a.owner)
             /\ a.enc = "default" /\ ActiveA(pre, own).order = a.order /\ ActiveA(pre, own).enc # EncOf(a.enc))
       /\ C("class-inflight-ack", a.a = "Ack" /\ ChanAt(pre.A.chans, a.ca).owner \in Owners /\ a.ca \in DOMAIN bornNow
             /\ pre.A.active[ChanAt(pre.A.chans, a.ca).owner] # -1 /\ bornNow[a.ca] # pre.A.active[ChanAt(pre.A.chans, a.ca).owner])
       /\ C("class-host-confirm-overwrite", a.a = "Confirm" /\ ChanAt(pre.B.chans, a.cb).owner \in Owners
             /\ pre.B.active[ChanAt(pre.B.chans, a.cb).owner] \notin {-1, a.cb} /\ ActiveB(pre, ChanAt(pre.B.chans, a.cb).owner).st # "CLOSED")
       /\ C("init-by-stranger-accepted", a.a = "OpenInit" /\ r = "ok" /\ a.signer # a.owner)
       /\ C("sendtx-by-stranger-rejected", a.a = "SendTx" /\ r # "ok" /\ a.signer # a.owner /\ ActiveA(pre, a.owner).st = "OPEN")
       /\ C("second-init-while-handshake-in-flight", a.a \in {"Register", "OpenInit"} /\ r = "ok"
             /\ \E n \in ChanNos(pre.A.chans) : pre.A.chans[n + 1].owner = a.owner /\ pre.A.chans[n + 1].st = "INIT")
       /\ C("ack-while-active-open-rejected", a.a = "Ack" /\ r # "ok" /\ ChanAt(pre.A.chans, a.ca).st = "INIT"
             /\ ChanAt(pre.A.chans, a.ca).owner \in Owners /\ ActiveA(pre, ChanAt(pre.A.chans, a.ca).owner).st = "OPEN")
       /\ C("ordered-channel-closed-by-timeout", a.a = "Timeout" /\ r = "ok" /\ ChanAt(post.A.chans, a.ca).st = "CLOSED")

(***************************************************************************)
(* Trace behaviour                                                         *)
(***************************************************************************)
Empty == [x \in {} |-> 0]
TraceInit == l = 1 /\ S = StateOf(Trace[1].st, {}) /\ obs = Trace[1].st /\ born = Empty /\ over = Empty

\* packets sent so far: a successful SendTx adds the packet on the channel whose send sequence moved
NewPk(pre, a, r, post) ==
    IF a.a = "SendTx" /\ r = "ok"
    THEN LET moved == { n \in ChanNos(pre.A.chans) : post.A.chans[n + 1].ns > pre.A.chans[n + 1].ns }
             ca == IF moved = {} THEN pre.A.active[a.owner] ELSE CHOOSE n \in moved : TRUE
         IN pre.pk \cup {[ca |-> ca, seq |-> ChanAt(pre.A.chans, ca).ns, owner |-> a.owner, msgs |-> a.msgs,
                          exp |-> IF a.to = "short" THEN pre.epoch + 1 ELSE 0]}
    ELSE pre.pk

TraceNext ==
    /\ l < Len(Trace)
    /\ LET ln == Trace[l + 1] IN
       IF ln.a.a = "Init"
       THEN /\ S' = StateOf(ln.st, {}) /\ obs' = ln.st /\ born' = Empty /\ over' = Empty /\ l' = l + 1
       ELSE LET a    == ln.a
                raw  == StateOf(ln.st, S.pk)
                post == [raw EXCEPT !.pk = NewPk(S, a, ln.res, raw)]
                news == { n \in ChanNos(post.A.chans) : n >= Len(S.A.chans) }
                b2   == [n \in (DOMAIN born) \cup news |-> IF n \in DOMAIN born THEN born[n]
                                                            ELSE IF post.A.chans[n + 1].owner \in Owners THEN S.A.active[post.A.chans[n + 1].owner] ELSE -1]
                acked == IF a.a = "Ack" /\ ln.res = "ok" /\ ChanAt(S.A.chans, a.ca).owner \in Owners THEN {a.ca} ELSE {}
                ov2  == [n \in (DOMAIN over) \cup acked |-> IF n \in acked THEN S.A.active[ChanAt(S.A.chans, a.ca).owner] ELSE over[n]]
            IN /\ Report(ln, Viol(S, a, ln.res, ln.ack, post, SetOf(ln.diff), SetOf(ln.dbal), obs, ln.st, b2, ov2))
               /\ Cover(S, a, ln.res, post, b2)
               /\ S' = post /\ obs' = ln.st /\ born' = b2 /\ over' = ov2
               /\ l' = l + 1
    /\ (l + 1 = Len(Trace) => PrintT(<<"CONSUMED", l + 1>>))

TraceSpec == TraceInit /\ [][TraceNext]_<<l, S, obs, born, over>>
=============================================================================
