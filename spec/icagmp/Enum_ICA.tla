------------------------------ MODULE Enum_ICA ------------------------------
(***************************************************************************)
(* Full enumeration for C37: every message list of length 1..MaxLen over   *)
(* the message kinds below, under every allow list, is sent by an owner    *)
(* and relayed to the host.  The lists are dealt round-robin into NChunks  *)
(* schedules per allow list; each schedule starts with the two complete    *)
(* handshakes (O1: UNORDERED / proto3, O2: ORDERED / proto3json) and the   *)
(* specification itself (Step) supplies channel and sequence numbers.      *)
(* Every DupEvery-th receive is relayed a second time.                     *)
(***************************************************************************)
EXTENDS ICA, Json, SequencesExt

CONSTANTS OutFile, NKinds, MaxLen, NChunks, ENUM_ALLOWS, DupEvery

M(k, f) == [k |-> k, from |-> f]
KindSeq == << M("send", "self"), M("send", "other"), M("send", "peer"), M("delegate", "self"), M("setwd", "self"), M("fail", "self"),
              M("delegate", "other"), M("setwd", "peer"), M("delegate", "peer"), M("fail", "peer") >>
Kinds == { KindSeq[i] : i \in 1..NKinds }

Lists == UNION { [1..n -> Kinds] : n \in 1..MaxLen }
ListSeq == SetToSeq(Lists)

Prefix(al) ==
    << [a |-> "Register", signer |-> "O1", owner |-> "O1", order |-> "UNORDERED", enc |-> "proto3"],
       [a |-> "Try", ca |-> 0], [a |-> "Ack", ca |-> 0, cb |-> 0], [a |-> "Confirm", cb |-> 0],
       [a |-> "Register", signer |-> "O2", owner |-> "O2", order |-> "ORDERED", enc |-> "proto3json"],
       [a |-> "Try", ca |-> 1], [a |-> "Ack", ca |-> 1, cb |-> 1], [a |-> "Confirm", cb |-> 1],
       [a |-> "SetAllow", allow |-> al] >>

RECURSIVE RunAll(_, _, _)
RunAll(S0, acts, i) == IF i > Len(acts) THEN S0 ELSE RunAll(Step(S0, acts[i]).S, acts, i + 1)

RECURSIVE Build(_, _, _, _)
Build(S0, acts, cases, i) ==
    IF i > Len(cases) THEN acts
    ELSE LET o    == IF i % 2 = 1 THEN "O1" ELSE "O2"
             send == [a |-> "SendTx", signer |-> o, owner |-> o, msgs |-> cases[i], to |-> "long"]
             recv == [a |-> "Recv", ca |-> S0.A.active[o], seq |-> ActiveA(S0, o).ns]
             S1   == Step(Step(S0, send).S, recv).S
             dup  == IF i % DupEvery = 0 THEN <<recv>> ELSE <<>>
         IN Build(S1, acts \o <<send, recv>> \o dup, cases, i + 1)

Chunk(k) == SelectSeq([i \in 1..Len(ListSeq) |-> IF i % NChunks = k THEN ListSeq[i] ELSE <<>>], LAMBDA x : x # <<>>)

Schedule(al, k) ==
    [kind |-> "ICA", cfg |-> "exec-" \o al, acts |-> Build(RunAll(InitState, Prefix(al), 1), Prefix(al), Chunk(k), 1)]

AllowSeq == SetToSeq(ENUM_ALLOWS)
Schedules == [ j \in 1..(Len(AllowSeq) * NChunks) |-> Schedule(AllowSeq[((j - 1) \div NChunks) + 1], (j - 1) % NChunks) ]

ASSUME JsonSerialize(OutFile, Schedules)
ASSUME PrintT(<<"ENUMERATED", Cardinality(Lists), Len(Schedules)>>)

VARIABLE x
Init == x = 0
Next == UNCHANGED x
Spec == Init /\ [][Next]_x
=============================================================================
