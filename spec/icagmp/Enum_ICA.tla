------------------------------ MODULE Enum_ICA ------------------------------
(***************************************************************************)
(* Full enumeration for C37: every message list of length 1..MaxLen over   *)
(* the message kinds below, under every allow list, is sent by an owner    *)
(* and relayed to the host.  The lists are dealt round-robin into NChunks  *)
(* schedules per allow list; each schedule starts with the two complete    *)
(* handshakes (O1: UNORDERED / proto3, O2: ORDERED / proto3json) and the   *)
(* specification itself (Step) supplies channel and sequence numbers.      *)
(* Every DupEvery-th receive is relayed a second time.                     *)
(***************************************************************************)
EXTENDS ICA, Json, SequencesExt

CONSTANTS OutDir, NKinds, MaxLen, NChunks, ENUM_ALLOWS, DupEvery, Rot

M(k, f) == [k |-> k, from |-> f]
KindSeq == << M("send", "self"), M("send", "other"), M("send", "peer"), M("delegate", "self"), M("setwd", "self"), M("fail", "self"),
              M("delegate", "other"), M("setwd", "peer"), M("delegate", "peer"), M("fail", "peer") >>
Kinds == { KindSeq[i] : i \in 1..NKinds }

Lists == UNION { [1..n -> Kinds] : n \in 1..MaxLen }
ListSeq == SetToSeq(Lists)

Prefix(al) ==
    << [a |-> "Register", signer |-> "O1", owner |-> "O1", order |-> "UNORDERED", enc |-> "proto3"],
       [a |-> "Try", ca |-> 0], [a |-> "Ack", ca |-> 0, cb |-> 0], [a |-> "Confirm", cb |-> 0],
       [a |-> "Register", signer |-> "O2", owner |-> "O2", order |-> "ORDERED", enc |-> "proto3json"],
       [a |-> "Try", ca |-> 1], [a |-> "Ack", ca |-> 1, cb |-> 1], [a |-> "Confirm", cb |-> 1],
       [a |-> "SetAllow", allow |-> al] >>

RECURSIVE RunAll(_, _, _)
RunAll(S0, acts, i) == IF i > Len(acts) THEN S0 ELSE RunAll(Step(S0, acts[i]).S, acts, i + 1)

\* (the sequence of all lists is bound once through a set binder: TLC would otherwise rebuild it on every reference)
Chunk(k) == CHOOSE r \in { SelectSeq([j \in 1..Len(ls) |-> IF j % NChunks = k THEN ls[j] ELSE <<>>], LAMBDA x : x # <<>>) : ls \in {ListSeq} } : TRUE

\* canonical schedule of the recorded C38 findings (known_findings.json classes inflight-ack, host-confirm-overwrite):
\* two channels of one owner are initialised (the second by a stranger, with another ordering and encoding) before either
\* is open; the first opens and is closed by a timeout; then the second is acknowledged and confirmed.
Probe ==
    [kind |-> "ICA", cfg |-> "probe", acts |->
      << [a |-> "Register", signer |-> "O1", owner |-> "O1", order |-> "ORDERED", enc |-> "proto3"],
         [a |-> "OpenInit", signer |-> "X", owner |-> "O1", order |-> "UNORDERED", enc |-> "proto3json", cpport |-> "icahost"],
         [a |-> "Try", ca |-> 0], [a |-> "Try", ca |-> 1], [a |-> "Ack", ca |-> 0, cb |-> 0], [a |-> "Confirm", cb |-> 0],
         [a |-> "Ack", ca |-> 1, cb |-> 1],      \* rejected: the first channel is OPEN
         [a |-> "SendTx", signer |-> "O1", owner |-> "O1", msgs |-> <<M("send", "self")>>, to |-> "short"],
         [a |-> "Wait"], [a |-> "Timeout", ca |-> 0, seq |-> 1],
         [a |-> "Ack", ca |-> 1, cb |-> 1], [a |-> "Confirm", cb |-> 1], [a |-> "CloseConfirm", cb |-> 0] >>]

\* deterministic tour through every C38 clause (so that the vacuity floors never depend on the random walks)
Tour ==
    LET R(s, o, r, e) == [a |-> "Register", signer |-> s, owner |-> o, order |-> r, enc |-> e]
        I(s, o, r, e, p) == [a |-> "OpenInit", signer |-> s, owner |-> o, order |-> r, enc |-> e, cpport |-> p]
        T(s, o, l, t) == [a |-> "SendTx", signer |-> s, owner |-> o, msgs |-> l, to |-> t]
        one == <<M("send", "self")>>
    IN [kind |-> "ICA", cfg |-> "tour", acts |->
      << R("O1", "O1", "ORDERED", "proto3"), R("X", "O1", "ORDERED", "proto3"),
         [a |-> "InitOnHost", owner |-> "O1", order |-> "ORDERED", enc |-> "proto3"],
         [a |-> "ForeignInit", owner |-> "O1"], [a |-> "TryOnController", owner |-> "O1", cb |-> 0],
         [a |-> "Try", ca |-> 0], [a |-> "Ack", ca |-> 0, cb |-> 0], [a |-> "Ack", ca |-> 0, cb |-> 1],
         R("O1", "O1", "ORDERED", "proto3"), [a |-> "Confirm", cb |-> 1],
         T("X", "O1", one, "long"), T("O1", "O1", <<M("send", "self"), M("delegate", "self")>>, "long"), [a |-> "Recv", ca |-> 0, seq |-> 1],
         T("O2", "O2", one, "long"), T("O1", "O1", one, "short"), [a |-> "Wait"], [a |-> "Recv", ca |-> 0, seq |-> 2],
         [a |-> "Timeout", ca |-> 0, seq |-> 2], T("O1", "O1", one, "long"),
         I("X", "O1", "UNORDERED", "proto3", "icahost"), R("O1", "O1", "ORDERED", "proto3json"), I("O1", "O1", "ORDERED", "proto3", "other"),
         I("X", "O1", "ORDERED", "proto3", "icahost"), [a |-> "Try", ca |-> 1], [a |-> "CloseConfirm", cb |-> 1], [a |-> "Try", ca |-> 1],
         [a |-> "Ack", ca |-> 1, cb |-> 2], [a |-> "Confirm", cb |-> 2], T("O1", "O1", one, "long"),
         [a |-> "Recv", ca |-> 1, seq |-> 1], [a |-> "Recv", ca |-> 1, seq |-> 1] >>]

(***************************************************************************)
(* Canonical schedules, executed in every run of every tier.               *)
(***************************************************************************)
Reg_(s, o, r, e) == [a |-> "Register", signer |-> s, owner |-> o, order |-> r, enc |-> e]
Ini_(s, o, r, e) == [a |-> "OpenInit", signer |-> s, owner |-> o, order |-> r, enc |-> e, cpport |-> "icahost"]
Tx_(o, l, t)     == [a |-> "SendTx", signer |-> o, owner |-> o, msgs |-> l, to |-> t]
Rcv_(ca, seq)    == [a |-> "Recv", ca |-> ca, seq |-> seq]
Try_(n)          == [a |-> "Try", ca |-> n]
Ack_(n, m)       == [a |-> "Ack", ca |-> n, cb |-> m]
Conf_(m)         == [a |-> "Confirm", cb |-> m]
RECURSIVE Cat(_)
Cat(ss) == IF ss = <<>> THEN <<>> ELSE Head(ss) \o Cat(Tail(ss))

\* Allow-list boundary cases: every kind of allow list (also the near-miss entries: prefixes, package patterns, extensions of
\* the type URLs in use) against message lists signed by the interchain account itself, so that the allow list alone decides.
AllowCaseSeq == SetToSeq({ <<aw, l>> : aw \in {"nearmiss", "starplus", "empty", "specific"},
                                       l \in { <<M("send", "self")>>, <<M("delegate", "self")>>, <<M("setwd", "self")>>,
                                               <<M("send", "self"), M("delegate", "self")>> } })
AllowCases ==
    [kind |-> "ICA", cfg |-> "allowcases", acts |->
        SubSeq(Prefix("star"), 1, 4) \o
        Cat([jj \in 1..Len(AllowCaseSeq) |-> << [a |-> "SetAllow", allow |-> AllowCaseSeq[jj][1]], Tx_("O1", AllowCaseSeq[jj][2], "long"), Rcv_(0, jj) >>])]

\* Re-opening: an ORDERED channel with encoding e1 is closed by a timeout; then every initialising message that does NOT
\* match it (other ordering, other encoding, the empty version string where the closed channel had non-default metadata; by
\* the owner through MsgRegisterInterchainAccount and by a stranger through MsgChannelOpenInit) is submitted, each followed
\* by the relays that would complete the handshake of the channel it would create; at the end a matching one is completed.
ReopenAttempts(e1, match) ==
    SetToSeq({ x \in { <<s, r2, e2>> : s \in {"O1", "X"}, r2 \in Orders, e2 \in EncIn } : (<<x[2], EncOf(x[3])>> = <<"ORDERED", e1>>) = match })
ReopenCase(e1, last) ==
    [kind |-> "ICA", cfg |-> "reopen", acts |->
        << Reg_("O1", "O1", "ORDERED", e1), Try_(0), Ack_(0, 0), Conf_(0), Tx_("O1", <<M("send", "self")>>, "short"), [a |-> "Wait"],
           [a |-> "Timeout", ca |-> 0, seq |-> 1], [a |-> "CloseConfirm", cb |-> 0] >> \o
        Cat([jj \in 1..Len(ReopenAttempts(e1, FALSE)) |->
               LET x == ReopenAttempts(e1, FALSE)[jj] IN
               << IF x[1] = "O1" THEN Reg_(x[1], "O1", x[2], x[3]) ELSE Ini_(x[1], "O1", x[2], x[3]), Try_(1), Ack_(1, 1) >>]) \o
        << (IF last[1] = "O1" THEN Reg_(last[1], "O1", last[2], last[3]) ELSE Ini_(last[1], "O1", last[2], last[3])),
           Try_(1), Ack_(1, 1), Conf_(1), Tx_("O1", <<M("send", "self"), M("delegate", "self")>>, "long"), Rcv_(1, 1) >>]
ReopenCases == << ReopenCase("proto3", <<"O1", "ORDERED", "default">>), ReopenCase("proto3json", <<"X", "ORDERED", "proto3json">>) >>

\* Crossed world (the harness builds it for cfg "xconn"): both slots are the SAME owner account, i.e. the same controller
\* port, on two connections with crossed identifiers (slot O1: A connection-0 <-> B connection-1, slot O2: A connection-1 <->
\* B connection-0).  "peer" is then the account registered for the same port on the other connection.  Signers are the
\* slot's own account throughout (in this world the two slots share it).
XLists == << <<M("send", "self")>>, <<M("send", "peer")>>, <<M("send", "self"), M("send", "peer")>>, <<M("delegate", "self"), M("setwd", "self")>>,
             <<M("send", "other")>>, <<M("delegate", "peer")>>, <<M("send", "self"), M("fail", "self")>> >>
XConn ==
    [kind |-> "ICA", cfg |-> "xconn", acts |->
        << Reg_("O1", "O1", "UNORDERED", "default"), Try_(0), Ack_(0, 0), Conf_(0),
           Reg_("O2", "O2", "ORDERED", "proto3json"), Try_(1), Ack_(1, 1), Conf_(1), Reg_("O2", "O2", "ORDERED", "proto3json") >> \o
        Cat([jj \in 1..Len(XLists) |-> << Tx_("O1", XLists[jj], "long"), Rcv_(0, jj), Tx_("O2", XLists[jj], "long"), Rcv_(1, jj) >>]) \o
        << Tx_("O2", <<M("send", "self")>>, "short"), [a |-> "Wait"], [a |-> "Timeout", ca |-> 1, seq |-> Len(XLists) + 1],
           [a |-> "CloseConfirm", cb |-> 1], Reg_("O2", "O2", "UNORDERED", "proto3json"), Reg_("O2", "O2", "ORDERED", "proto3json"),
           Try_(2), Ack_(2, 2), Conf_(2), Tx_("O2", <<M("send", "self"), M("send", "peer")>>, "long"), Rcv_(2, 1),
           Tx_("O2", <<M("send", "self")>>, "long"), Rcv_(2, 2), Tx_("O1", <<M("setwd", "self")>>, "long"), Rcv_(0, Len(XLists) + 1) >>]


\* The enumeration is unrolled by TLC's own next-state relation (one case per step, one behaviour per allow list and chunk).
VARIABLES S, acts, i, al, k, cases

Init == /\ al \in ENUM_ALLOWS /\ k \in 0..(NChunks - 1)
        /\ S = RunAll(InitState, Prefix(al), 1) /\ acts = Prefix(al) /\ i = 1 /\ cases = Chunk(k)

Next ==
    /\ i <= Len(cases)
    /\ LET o    == IF (i + Rot) % 2 = 1 THEN "O1" ELSE "O2"
           send == [a |-> "SendTx", signer |-> o, owner |-> o, msgs |-> cases[i], to |-> "long"]
           recv == [a |-> "Recv", ca |-> S.A.active[o], seq |-> ActiveA(S, o).ns]
           dup  == IF i % DupEvery = 0 THEN <<recv>> ELSE <<>>
       IN /\ S' = Step(Step(S, send).S, recv).S
          /\ acts' = acts \o <<send, recv>> \o dup
    /\ i' = i + 1
    /\ UNCHANGED <<al, k, cases>>
    /\ (i' > Len(cases) => JsonSerialize(OutDir \o "/exec_" \o al \o "_" \o ToString(k) \o ".json", [kind |-> "ICA", cfg |-> "exec-" \o al, acts |-> acts']))

Spec == Init /\ [][Next]_<<S, acts, i, al, k, cases>>

ASSUME JsonSerialize(OutDir \o "/probe.json", Probe)
ASSUME JsonSerialize(OutDir \o "/tour.json", Tour)
ASSUME JsonSerialize(OutDir \o "/allowcases.json", AllowCases)
ASSUME \A jj \in DOMAIN ReopenCases : JsonSerialize(OutDir \o "/reopen_" \o ToString(jj) \o ".json", ReopenCases[jj])
ASSUME JsonSerialize(OutDir \o "/xconn.json", XConn)
ASSUME PrintT(<<"ENUMERATED", Cardinality(Lists)>>)
=============================================================================
