-------------------------------- MODULE GMP --------------------------------
(***************************************************************************)
(* ICS-27 GMP (IBC v2, port gmpport): property C39.                        *)
(*                                                                         *)
(* Account derivation: the address of (destination client, sender, salt)   *)
(* is Hash(LP(client) o LP(sender) o LP(salt)), LP = 8-byte length prefix. *)
(* The hash is an injective constructor (collision resistance is the       *)
(* cryptographic assumption), so the address IS the preimage term and      *)
(* "distinct triples never share an address" is injectivity of Preimage,   *)
(* checked by TLC over byte-class sequences in MC_GMP (lengths and data    *)
(* bytes are drawn from the same domain, so the check is not vacuous).     *)
(*                                                                         *)
(* Protocol: Step(S, a) = [res, ack, S] over an explicit state record, on  *)
(* the abstract packet layer (each sent packet is received at most once).  *)
(***************************************************************************)
EXTENDS Integers, Sequences, FiniteSets, TLC

CONSTANTS FUND

LP(x) == <<Len(x)>> \o x
Preimage(c, s, z) == LP(c) \o LP(s) \o LP(z)
Concat(c, s, z)   == c \o s \o z          \* what the derivation must NOT be

Clients  == {1, 2}
Senders  == {"S1", "S2"}
GSigners == {"S1", "S2", "X"}             \* X : a stranger
Salts    == {"", "s"}
Routes   == {"call", "raw"}               \* MsgSendCall | direct MsgSendPacket on the gmp port
GEncs    == {"proto", "json", "abi"}

Tid(cl, s, z) == ToString(cl) \o ":" \o s \o ":" \o z
Triples == { Tid(cl, s, z) : cl \in Clients, s \in Senders, z \in Salts }
Acct(t) == "g:" \o t
PeerS(s) == IF s = "S1" THEN "S2" ELSE "S1"
GAccts == { Acct(t) : t \in Triples } \cup {"other", "dest"}

InitState ==
    [ stored  |-> [t \in Triples |-> ""],
      bal     |-> [n \in GAccts |-> IF n \in {"other", "dest"} THEN 0 ELSE FUND],
      del     |-> [n \in GAccts \ {"dest"} |-> 0],
      ns      |-> [cl \in Clients |-> 1],
      commits |-> {}, rcpts |-> {}, acks |-> {},
      pk      |-> {} ]

Rej(S)  == [res |-> "err",  ack |-> "none", S |-> S]
Noop(S) == [res |-> "noop", ack |-> "none", S |-> S]
Acc(S)  == [res |-> "ok",   ack |-> "none", S |-> S]

\* OnSendPacket: the packet's sender is the signer of the transaction
G_SenderIsSigner(a) == a.sender = a.signer

Send(S, a) ==
    IF G_SenderIsSigner(a)
    THEN Acc([S EXCEPT !.ns[a.cl] = @ + 1,
                       !.commits = @ \cup {<<a.cl, S.ns[a.cl]>>},
                       !.pk = @ \cup {[cl |-> a.cl, seq |-> S.ns[a.cl], sender |-> a.sender, salt |-> a.salt, msgs |-> a.msgs]}])
    ELSE Rej(S)

PktOf(S, cl, seq) == { P \in S.pk : P.cl = cl /\ P.seq = seq }

\* messages: [k, from], k: send | fail | delegate, from: self | other | peer (the same client's and salt's account of the other sender)
ApplyMsg(H, acct, m) ==
    IF ~H.ok THEN H
    ELSE CASE m.k = "send"     -> IF H.bal[acct] >= 1 THEN [H EXCEPT !.bal[acct] = @ - 1, !.bal["dest"] = @ + 1] ELSE [H EXCEPT !.ok = FALSE]
           [] m.k = "delegate" -> IF H.bal[acct] >= 1 THEN [H EXCEPT !.bal[acct] = @ - 1, !.del[acct] = @ + 1] ELSE [H EXCEPT !.ok = FALSE]
           [] OTHER            -> [H EXCEPT !.ok = FALSE]
RECURSIVE RunFrom(_, _, _, _)
RunFrom(H, acct, msgs, i) == IF i > Len(msgs) THEN H ELSE RunFrom(ApplyMsg(H, acct, msgs[i]), acct, msgs, i + 1)
Run(S, acct, msgs) == RunFrom([ok |-> TRUE, bal |-> S.bal, del |-> S.del], acct, msgs, 1)

G_NonEmpty(msgs)            == Len(msgs) > 0
G_AllSignedByAccount(msgs)  == \A i \in DOMAIN msgs : msgs[i].from = "self"     \* exactly one signer, and it is the account

Exec(S, P) ==
    LET t == Tid(P.cl, P.sender, P.salt)
        H == Run(S, Acct(t), P.msgs)
    IN IF G_NonEmpty(P.msgs) /\ G_AllSignedByAccount(P.msgs) /\ H.ok
       THEN [ack |-> "result", S |-> [S EXCEPT !.bal = H.bal, !.del = H.del, !.stored[t] = Acct(t)]]
       ELSE [ack |-> "error", S |-> S]              \* the application state of a failed receive is discarded

Recv(S, a) ==
    LET Ps == PktOf(S, a.cl, a.seq)
    IN IF Ps = {} THEN Rej(S)
       ELSE LET P == CHOOSE x \in Ps : TRUE IN
            IF <<P.cl, P.seq>> \in S.rcpts THEN Noop(S)
            ELSE LET E == Exec(S, P) IN
                 [res |-> "ok", ack |-> E.ack,
                  S |-> [E.S EXCEPT !.rcpts = @ \cup {<<P.cl, P.seq>>}, !.acks = @ \cup {<<P.cl, P.seq, E.ack>>}]]

Step(S, a) == CASE a.a = "Send" -> Send(S, a)
                [] a.a = "Recv" -> Recv(S, a)

\* ---- invariants / step properties of the design ----------------------------------------------
I_StoredIsDerived(S) == \A t \in Triples : S.stored[t] \in {"", Acct(t)}
P_MappingStable(st, st2) == \A t \in Triples : st[t] # "" => st2[t] = st[t]

SendActs(signers, clients, salts, lists, routes, encs) ==
    { [a |-> "Send", route |-> r, signer |-> g, sender |-> s, cl |-> c, salt |-> z, enc |-> e, msgs |-> l] :
        r \in routes, g \in signers, s \in Senders, c \in clients, z \in salts, e \in encs, l \in lists }
RecvActs(S) == { [a |-> "Recv", cl |-> P.cl, seq |-> P.seq] : P \in S.pk }
=============================================================================
