------------------------------- MODULE MC_ICA -------------------------------
(* Exhaustive model check of the interchain-accounts design (ICA.tla).  Failed and *)
(* no-op transactions leave the state unchanged, so only successful ones are       *)
(* expanded; every candidate (also the adversary's) is evaluated in every state.   *)
EXTENDS ICA

CONSTANTS MaxChans, MaxPk, MaxEpoch, NLists, MCOwners, MCAllows

VARIABLE S

M(k, f) == [k |-> k, from |-> f]
AllLists == << <<M("send", "self")>>,
               <<M("send", "self"), M("fail", "self")>>,
               <<M("delegate", "self"), M("send", "peer")>>,
               <<M("setwd", "self"), M("send", "self")>> >>
MsgLists == { AllLists[i] : i \in 1..NLists }

AllActs(S0) ==
         RelayActs(S0)
    \cup (IF Len(S0.A.chans) < MaxChans THEN InitActs(Signers, MCOwners) ELSE {})
    \cup (IF Len(S0.B.chans) < MaxChans THEN WrongSideActs(S0, MCOwners) ELSE { x \in WrongSideActs(S0, MCOwners) : x.a # "ForeignInit" })
    \cup (IF Cardinality(S0.pk) < MaxPk THEN SendActs(Signers, MCOwners, MsgLists, {"short", "long"}) ELSE {})
    \cup (IF S0.epoch < MaxEpoch THEN {[a |-> "Wait"]} ELSE {})
    \cup { [a |-> "SetAllow", allow |-> al] : al \in MCAllows \ {S0.allow} }

\* ---- vacuity witnesses ------------------------------------------------------------------------
Kinds == <<"Register", "OpenInit", "ForeignInit", "Try", "Ack", "Confirm", "CloseConfirm", "SendTx", "Recv", "Timeout", "Wait", "SetAllow",
           "Reopen", "ExecResult", "ExecError", "ClosedByTimeout", "InflightAckBlocked", "HostConfirmBlocked", "StrangerInit", "DuplicateInit", "DefaultVersion">>
Idx(name) == CHOOSE i \in DOMAIN Kinds : Kinds[i] = name
Mark(name) == IF TLCGet(Idx(name)) = 0 THEN TLCSet(Idx(name), 1) /\ PrintT(<<"WITNESS", name>>) ELSE TRUE

Witness(S0, a, r) ==
    /\ Mark(a.a)
    /\ (a.a = "Ack" /\ S0.A.active[ChanAt(S0.A.chans, a.ca).owner] # -1 => Mark("Reopen"))
    /\ (a.a = "Recv" /\ r.ack = "result" => Mark("ExecResult"))
    /\ (a.a = "Recv" /\ r.ack = "error" => Mark("ExecError"))
    /\ (a.a = "Timeout" /\ ChanAt(r.S.A.chans, a.ca).st = "CLOSED" => Mark("ClosedByTimeout"))
    /\ (a.a = "OpenInit" /\ a.signer # a.owner => Mark("StrangerInit"))
    /\ (a.a \in {"Register", "OpenInit"} /\ a.enc = "default" /\ S0.A.active[a.owner] # -1 => Mark("DefaultVersion"))
    /\ (a.a \in {"Register", "OpenInit"} /\ (\E n \in ChanNos(S0.A.chans) : S0.A.chans[n + 1].owner = a.owner /\ S0.A.chans[n + 1].st = "INIT")
            => Mark("DuplicateInit"))

\* the two DESIGN guards really decide something: there are states in which only they reject
Blocked(S0) ==
    /\ (TLCGet(Idx("InflightAckBlocked")) = 0 =>
          ((\E n \in ChanNos(S0.A.chans), m \in ChanNos(S0.B.chans) :
              LET c == S0.A.chans[n + 1]  d == S0.B.chans[m + 1] IN
                 /\ c.st = "INIT" /\ d.st = "TRYOPEN" /\ d.port = "icahost" /\ d.cp = n /\ G_NoOpenActive(S0, c.owner)
                 /\ ~G_ReopenMatches(S0, c.owner, c.order, c.enc)) => Mark("InflightAckBlocked")))
    /\ (TLCGet(Idx("HostConfirmBlocked")) = 0 =>
          ((\E m \in ChanNos(S0.B.chans) :
              LET d == S0.B.chans[m + 1]  c == ChanAt(S0.A.chans, d.cp) IN
                 /\ d.st = "TRYOPEN" /\ d.port = "icahost" /\ c.st = "OPEN" /\ c.cp = m
                 /\ ~G_HostActiveFreeOrClosed(S0, d.owner)) => Mark("HostConfirmBlocked")))

Init == S = InitState /\ \A i \in DOMAIN Kinds : TLCSet(i, 0)
Next == /\ Blocked(S)
        /\ \E a \in AllActs(S) : LET r == Step(S, a) IN r.res = "ok" /\ S' = r.S /\ Witness(S, a, r)
Spec == Init /\ [][Next]_S

Bound == /\ Len(S.A.chans) <= MaxChans /\ Len(S.B.chans) <= MaxChans
         /\ Cardinality(S.pk) <= MaxPk /\ S.epoch <= MaxEpoch

Inv == DesignInv(S)

\* ---- step properties of the design -------------------------------------------------------------
ActiveReplacedOnlyWhenClosed ==
    [][/\ P_ActiveReplacedOnlyWhenClosed(S.A.chans, S.A.active, S'.A.active)
       /\ P_ActiveReplacedOnlyWhenClosed(S.B.chans, S.B.active, S'.B.active)]_S
ReopenSame == [][/\ P_ReopenSame(S.A.chans, S.A.active, S'.A.chans, S'.A.active)
                 /\ P_ReopenSame(S.B.chans, S.B.active, S'.B.chans, S'.B.active)]_S
AddrStable == [][P_AddrStable(S.A.addr, S'.A.addr) /\ P_AddrStable(S.B.addr, S'.B.addr)]_S
\* C37: tracked host accounts move only by a result acknowledgement (or by the funding of a new account)
HostStateOnlyByResult ==
    [][(S'.bal # S.bal \/ S'.del # S.del \/ S'.wd # S.wd)
         => (\E k \in S'.B.acks \ S.B.acks : k[3] = "result")
            \/ (S'.del = S.del /\ S'.wd = S.wd /\ \E o \in Owners : S.B.addr[o] = "" /\ S'.B.addr[o] # "")]_S
\* C38: packets appear on an owner's channel only through a SendTx signed by the owner (see Step); commitments
\* never appear on a channel that is not the OPEN active one
SendOnlyOnOpenActive ==
    [][\A k \in S'.A.commits \ S.A.commits : \E o \in Owners : S.A.active[o] = k[1] /\ ChanAt(S.A.chans, k[1]).st = "OPEN"]_S
=============================================================================
