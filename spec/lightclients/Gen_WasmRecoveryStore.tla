----------------------- MODULE Gen_WasmRecoveryStore -----------------------
(* Case generation for the replay through the real store: every sequence of writes (all prefix classes) up to  *)
(* DFULL followed by EVERY operation, and every sequence of writes (prefix classes PREP) up to DMUT followed by *)
(* every core operation.                                                                                         *)
(* A case is [pre |-> <<writes>>, op |-> operation]; the harness runs pre, then records op with the real        *)
(* underlying stores before and after.  Serialised once (full enumeration).                                     *)
EXTENDS WasmRecoveryStore, TLC, Json, SequencesExt

CONSTANTS DFULL, DMUT, PREP, WITHHAS, OutFile     \* PREP: prefix classes of the writes in the deep (DMUT) prefixes

Seqs(X, d) == UNION { [1..n -> X] : n \in 0..d }

B(p, pos) == [p |-> p, pos |-> pos]
CoreIters == [op : {"Iter", "RIter"}, s : {B("S", 0)}, e : {B("S", EndPos)}]
        \cup [op : {"Iter", "RIter"}, s : {B("T", 0)}, e : {B("T", EndPos)}]
        \cup [op : {"Iter", "RIter"}, s : {B("S", 0)}, e : {B("T", EndPos)}]
        \cup [op : {"Iter", "RIter"}, s : {B("T", 0)}, e : {B("S", EndPos)}]
        \cup [op : {"Iter", "RIter"}, s : {B("N", 0)}, e : {B("N", EndPos)}]
        \cup [op : {"Iter", "RIter"}, s : {B("nil", 0)}, e : {B("nil", 0)}]
        \cup [op : {"Iter", "RIter"}, s : {B("S", 0)}, e : {B("nil", 0)}]
CoreOps == MutOps \cup GetOps \cup CoreIters \cup (IF WITHHAS THEN HasOps ELSE {})

Cases == { [pre |-> m, op |-> o] : m \in Seqs(MutOps, DFULL), o \in AllOps(WITHHAS) }
    \cup { [pre |-> m, op |-> o] : m \in Seqs({ w \in MutOps : w.p \in PREP }, DMUT), o \in CoreOps }

ASSUME PrintT(<<"CASES", Cardinality(Cases)>>)
ASSUME ndJsonSerialize(OutFile, SetToSeq(Cases))

VARIABLE x
Init == x = 0
Next == UNCHANGED x
Spec == Init /\ [][Next]_x
=============================================================================
