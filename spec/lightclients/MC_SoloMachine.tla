-------------------------- MODULE MC_SoloMachine --------------------------
(* Exhaustive check of the solo machine design: all successful verifications / misbehaviours up to MaxSeq are     *)
(* expanded (failed attempts leave the state unchanged, so they are checked as state predicates: every single-   *)
(* field mutant of every acceptable message, and every replay of an accepted signature, must be rejected).       *)
EXTENDS SoloMachine

CONSTANT MaxSeq
VARIABLES S, acc

Kinds == <<"Header", "VM", "VNM", "Misb", "KeyRotated", "SameTs", "RawMisb", "ZeroHeight", "KeepAlive", "MisbConsumed">>
Idx(n) == CHOOSE i \in DOMAIN Kinds : Kinds[i] = n
W(n) == IF TLCGet(Idx(n)) = 0 THEN TLCSet(Idx(n), 1) /\ PrintT(<<"WITNESS", n>>) ELSE TRUE
Witness(S0, a) == /\ W(a.a)
                  /\ (a.a = "Header" /\ a.npk # S0.pk => W("KeyRotated"))
                  /\ (IsVerif(a) /\ a.ts = S0.ts => W("SameTs"))
                  /\ (a.a = "Misb" /\ a.pform = "raw" => W("RawMisb"))
                  /\ (HasPh(a) /\ a.ph = 0 => W("ZeroHeight"))
                  /\ (a.a = "Header" /\ a.npk = S0.pk /\ a.ndiv = S0.div /\ a.ts = S0.ts => W("KeepAlive"))
                  /\ (a.a = "Misb" /\ a.seq < S0.seq => W("MisbConsumed"))

Init == S = InitState /\ acc = {} /\ \A i \in DOMAIN Kinds : TLCSet(i, 0)
Next == \E a \in OkVerifs(S) \cup OkMisbs(S) :
           LET r == Step(S, a) IN
           /\ r.res = "ok" /\ S' = r.S /\ Witness(S, a)
           /\ acc' = IF IsVerif(a) THEN acc \cup {a.sig} ELSE acc
Spec == Init /\ [][Next]_<<S, acc>>
Bound == S.seq <= MaxSeq

\* every action that presents an already accepted signature, with any message fields
Replays(s) ==
       { [a |-> "Header", sig |-> s, ts |-> t, npk |-> n, ndiv |-> d] : t \in 1..MaxTs, n \in KEYS, d \in DIVS }
  \cup { [a |-> "VM", sig |-> s, ts |-> t, path |-> p, data |-> d, plen |-> 2, ph |-> h]
         : t \in 1..MaxTs, p \in PATHS, d \in DATA \cup {NoData}, h \in {0, s.seq, S.seq} }
  \cup { [a |-> "VNM", sig |-> s, ts |-> t, path |-> p, plen |-> 2, ph |-> h] : t \in 1..MaxTs, p \in PATHS, h \in {0, s.seq, S.seq} }

TypeOK == S.seq \in Nat /\ S.ts \in 1..MaxTs /\ S.pk \in KEYS /\ S.div \in DIVS /\ S.frozen \in BOOLEAN
AcceptedAreStale  == \A s \in acc : s.seq < S.seq
NoReplayAccepted  == \A s \in acc : \A a \in Replays(s) : Step(S, a).res # "ok"
MutantsRejected   == \A a \in OkVerifs(S) \cup OkMisbs(S) : \A b \in Mutants(a) : Step(S, b).res # "ok"
FrozenRejectsAll  == S.frozen => \A a \in OkVerifs([S EXCEPT !.frozen = FALSE]) \cup OkMisbs([S EXCEPT !.frozen = FALSE]) :
                                      Step(S, a).res # "ok"
Inv == TypeOK /\ AcceptedAreStale /\ NoReplayAccepted /\ MutantsRejected /\ FrozenRejectsAll

SeqStep     == [][S'.seq \in {S.seq, S.seq + 1} /\ (S'.seq = S.seq + 1 <=> acc' # acc)]_<<S, acc>>
TsMonotone  == [][S'.ts >= S.ts]_<<S, acc>>
FrozenFinal == [][S.frozen => S'.frozen]_<<S, acc>>
=============================================================================
