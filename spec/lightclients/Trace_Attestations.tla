-------------------------- MODULE Trace_Attestations --------------------------
(* Validation of attestations-client executions recorded from the real code (C28).  Every line carries the        *)
(* action, the result class and the client's state as read from the chain before and after the step.             *)
EXTENDS Attestations, Json

CONSTANT TraceFile
Trace == ndJsonDeserialize(TraceFile)
VARIABLE l

MapOf(arr) == [ k \in { arr[i].k : i \in DOMAIN arr } |-> arr[CHOOSE i \in DOMAIN arr : arr[i].k = k].v ]
StateOf(o) == [frozen |-> o.frozen, cons |-> MapOf(o.cons), latest |-> o.latest, quorum |-> o.quorum]

Viol(ln) ==
  LET a == ln.a  r == ln.res  pre == StateOf(ln.pre)  post == StateOf(ln.post)  E == Step(pre, a)
      cl == << <<"quorum-of-distinct-valid-attestors", P_QuorumOfDistinctValidAttestors(pre, a, r)>>,
               <<"state-and-packet-not-interchangeable", P_NotInterchangeable(pre, a, r)>>,
               <<"membership-needs-attested-commitment", P_Membership(pre, a, r)>>,
               <<"non-membership-needs-zero-commitments", P_NonMembership(pre, a, r)>>,
               <<"update-effect", P_UpdateEffect(pre, a, r, post)>>,
               <<"conflicting-timestamp-freezes", P_ConflictFreezes(pre, a, r, post)>>,
               <<"frozen-accepts-nothing", P_FrozenAcceptsNothing(pre, r, post)>>,
               <<"state-changes-only-by-accepted-update", P_ChangesOnlyByAcceptedUpdate(pre, a, r, post)>>,
               <<"frozen-only-by-conflict", P_FrozenOnlyByConflict(pre, a, r, post)>> >>
  IN   { <<"C28", cl[i][1]>> : i \in { j \in DOMAIN cl : ~cl[j][2] } }
  \cup { <<"X", "result-class">> : x \in IF r \in {"ok", "err", "panic"} THEN {} ELSE {1} }
  \cup { <<"X", "quorum-mismatch">> : x \in IF ln.pre.quorum = ln.post.quorum THEN {} ELSE {1} }
  \cup { <<"CONF", a.a \o ":" \o E.res \o "/" \o r>> : x \in IF E.res = (IF r = "panic" THEN "err" ELSE r) /\ E.S = post THEN {} ELSE {1} }

TraceInit == l = 0
TraceNext ==
    /\ l < Len(Trace)
    /\ LET ln == Trace[l + 1] IN \A v \in Viol(ln) : PrintT(<<"MONFAIL", ln.tr, ln.i, v>>)
    /\ l' = l + 1
    /\ (l + 1 = Len(Trace) => PrintT(<<"CONSUMED", l + 1>>))
TraceSpec == TraceInit /\ [][TraceNext]_l
=============================================================================
