---------------------- MODULE Trace_WasmRecoveryStore ----------------------
(***************************************************************************)
(* Validation of what the REAL ClientRecoveryStore did (C29).  Every line  *)
(* is one operation with the two underlying client stores as observed      *)
(* (independently of the store under test) before and after it; the        *)
(* specification's Step is evaluated on the observed pre-state.            *)
(*   sub / subst     : the test key range of the subject / substitute      *)
(*   subrest / substrest : digest of every other key of that client store  *)
(***************************************************************************)
EXTENDS WasmRecoveryStore, TLC, Json

CONSTANT TraceFile
Trace == ndJsonDeserialize(TraceFile)

VARIABLE l

MapOf(arr) == [ k \in { arr[i].k : i \in DOMAIN arr } |-> arr[CHOOSE i \in DOMAIN arr : arr[i].k = k].v ]
StateOf(o) == [sub |-> MapOf(o.sub), subst |-> MapOf(o.subst)]

IsRead(a) == a.op \in {"Get", "Has", "Iter", "RIter"}
Unrouted(a) == IF a.op \in {"Iter", "RIter"} THEN ~G_ConsistentPrefix(a.s, a.e) ELSE Route(a.p) = "N"

Viol(ln) ==
  LET a    == ln.a
      pre  == StateOf(ln.pre)
      post == StateOf(ln.post)
      E    == Step(pre, a)
      got  == [found |-> ln.out.found, v |-> ln.out.v, items |-> ln.out.items]
  IN
     { <<"C29", "substitute-never-written">> : x \in
         IF P_SubstituteUntouched(pre, post) /\ ln.post.substrest = ln.pre.substrest THEN {} ELSE {1} }
  \cup { <<"C29", "write-reaches-subject-iff-subject-prefix">> : x \in
         IF P_WriteIffSubjectPrefix(pre, a, post) /\ ln.post.subrest = ln.pre.subrest THEN {} ELSE {1} }
  \cup { <<"C29", "reads-change-nothing">> : x \in
         IF P_ReadsChangeNothing(pre, a, post) THEN {} ELSE {1} }
  \cup { <<"C29", "reads-routed-by-prefix">> : x \in
         IF IsRead(a) /\ ln.res = "ok" /\ ~Unrouted(a) /\ got # E.out THEN {1} ELSE {} }
  \cup { <<"C29", "unprefixed-or-mixed-reads-empty">> : x \in
         IF IsRead(a) /\ ln.res = "ok" /\ Unrouted(a) /\ got # NoOut THEN {1} ELSE {} }
  \* ---- harness sanity ---------------------------------------------------------------
  \cup { <<"X", "result-class">> : x \in IF ln.res \in {"ok", "panic"} THEN {} ELSE {1} }
  \cup { <<"X", "keys-outside-model">> : x \in
         IF (DOMAIN pre.sub) \cup (DOMAIN pre.subst) \cup (DOMAIN post.sub) \cup (DOMAIN post.subst) \subseteq KEYS THEN {} ELSE {1} }
  \* ---- full conformance (diagnostic) ------------------------------------------------
  \cup { <<"CONF", a.op \o ":" \o ln.res>> : x \in
         IF ln.res = "ok" /\ E.S = post /\ (IsRead(a) => got = E.out) THEN {} ELSE {1} }

TraceInit == l = 0
TraceNext ==
    /\ l < Len(Trace)
    /\ LET ln == Trace[l + 1] IN \A v \in Viol(ln) : PrintT(<<"MONFAIL", ln.tr, ln.i, v>>)
    /\ l' = l + 1
    /\ (l + 1 = Len(Trace) => PrintT(<<"CONSUMED", l + 1>>))
TraceSpec == TraceInit /\ [][TraceNext]_l
=============================================================================
