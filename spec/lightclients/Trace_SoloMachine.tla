-------------------------- MODULE Trace_SoloMachine --------------------------
(***************************************************************************)
(* Validation of solo machine executions recorded from the real code       *)
(* (C26).  Each line: the action (verbatim), the result class and the      *)
(* client state read back from the chain; the history of accepted          *)
(* signature terms is kept here.  An "Init" line starts a new trace.       *)
(***************************************************************************)
EXTENDS SoloMachine, Json

CONSTANT TraceFile
Trace == ndJsonDeserialize(TraceFile)

VARIABLES l, S, acc

StateOf(st) == [seq |-> st.seq, ts |-> st.ts, pk |-> st.pk, div |-> st.div, frozen |-> st.frozen]

Clauses(pre, a, r, post, hist) ==
  << <<"consumes-sequence",            P_ConsumesSequence(pre, a, r, post)>>,
     <<"sequence-moves-only-by-success", P_SequenceOnlyBySuccess(pre, a, r, post)>>,
     <<"timestamp-never-decreases",    P_TsMonotone(pre, post)>>,
     <<"accepted-timestamp-not-below-state", P_MessageTsNotBelowState(pre, a, r)>>,
     <<"signature-single-use",         P_SingleUse(hist, a, r)>>,
     <<"exact-sign-bytes",             P_ExactSignBytes(pre, a, r)>>,
     <<"frozen-accepts-nothing",       P_FrozenAcceptsNothing(pre, r, post)>>,
     <<"misbehaviour-guard",           P_MisbGuard(pre, a, r)>>,
     <<"misbehaviour-freezes",         P_MisbFreezes(pre, a, r, post)>>,
     <<"frozen-only-by-misbehaviour",  P_FrozenOnlyByMisb(pre, a, r, post)>>,
     <<"frozen-is-final",              P_FrozenIsFinal(pre, post)>>,
     <<"key-changes-only-by-header",   P_KeyChangesOnlyByHeader(pre, a, r, post)>> >>

Viol(pre, a, r, post, hist) ==
  LET cl == Clauses(pre, a, r, post, hist)
      E  == Step(pre, a)
  IN   { <<"C26", cl[i][1]>> : i \in { j \in DOMAIN cl : ~cl[j][2] } }
  \cup { <<"X", "result-class">> : x \in IF r \in {"ok", "err", "panic"} THEN {} ELSE {1} }
  \cup { <<"X", "unknown-on-chain-key">> : x \in IF post.pk = 0 THEN {1} ELSE {} }
  \cup { <<"CONF", a.a \o ":" \o E.res \o "/" \o r>> : x \in IF E.res = r /\ E.S = post THEN {} ELSE {1} }

TraceInit == l = 1 /\ S = StateOf(Trace[1].st) /\ acc = {}
TraceNext ==
    /\ l < Len(Trace)
    /\ LET ln == Trace[l + 1] IN
       IF ln.a.a = "Init"
       THEN S' = StateOf(ln.st) /\ acc' = {} /\ l' = l + 1
       ELSE LET post == StateOf(ln.st) IN
            /\ \A v \in Viol(S, ln.a, ln.res, post, acc) : PrintT(<<"MONFAIL", ln.tr, ln.i, v>>)
            /\ S' = post
            /\ acc' = IF ln.res = "ok" /\ IsVerif(ln.a) THEN acc \cup {ln.a.sig} ELSE acc
            /\ l' = l + 1
    /\ (l + 1 = Len(Trace) => PrintT(<<"CONSUMED", l + 1>>))
TraceSpec == TraceInit /\ [][TraceNext]_<<l, S, acc>>
=============================================================================
