------------------------- MODULE WasmRecoveryStore -------------------------
(***************************************************************************)
(* C29.  The store a wasm light-client contract is handed during client    *)
(* recovery (08-wasm internal/types/store.go, ClientRecoveryStore): two    *)
(* maps, the subject's and the substitute's client store.  Keys carry a    *)
(* prefix "subject/" or "substitute/"; writes and deletes reach only the   *)
(* subject, the substitute is read-only, reads are routed by the prefix,   *)
(* and keys / iteration ranges without one consistent prefix read as       *)
(* empty.                                                                  *)
(*                                                                         *)
(* Semantics as a total function  Step(S, a) = [res, out, S'].             *)
(* Key of an operation: prefix class p and a key k of the test range.      *)
(*   p = "S" subject/   "T" substitute/   "N" no prefix                    *)
(*       "M" near miss ("subject" without the slash)                       *)
(* Iterator bound: [p, pos] with pos a position in the ordered key range   *)
(* (0 before all keys, i at key i, 9 after all keys), or p = "nil" /       *)
(* "empty" for a nil / zero-length bound.                                  *)
(***************************************************************************)
EXTENDS Naturals, Sequences, FiniteSets

CONSTANTS NK,          \* number of keys of the test range (<= 3)
          VALS         \* values a contract may write

KeyOrder == <<"a", "b", "c">>
KEYS     == { KeyOrder[i] : i \in 1..NK }
Pos(k)   == CHOOSE i \in 1..NK : KeyOrder[i] = k
EndPos   == 9
Positions == (0..NK) \cup {EndPos}

\* ---- maps with a dynamic domain ------------------------------------------------------
Maps(D, R)   == UNION { [d -> R] : d \in SUBSET D }
Put(m, k, v) == [x \in (DOMAIN m) \cup {k} |-> IF x = k THEN v ELSE m[x]]
Del(m, k)    == [x \in (DOMAIN m) \ {k} |-> m[x]]

\* ---- routing (SplitPrefix + GetStore) ------------------------------------------------
Route(p) == IF p = "S" THEN "S" ELSE IF p = "T" THEN "T" ELSE "N"
StoreOf(S, r) == IF r = "S" THEN S.sub ELSE S.subst        \* only used for r # "N"

\* ---- operations ----------------------------------------------------------------------
PrefixClasses == {"S", "T", "N", "M"}
Bounds == { [p |-> "nil", pos |-> 0], [p |-> "empty", pos |-> 0] }
          \cup [p : {"S", "T", "N"}, pos : Positions]

GetOps    == [op : {"Get"}, p : PrefixClasses, k : KEYS]
HasOps    == [op : {"Has"}, p : PrefixClasses, k : KEYS]
SetOps    == [op : {"Set"}, p : PrefixClasses, k : KEYS, v : VALS]
DeleteOps == [op : {"Delete"}, p : PrefixClasses, k : KEYS]
IterOps   == [op : {"Iter", "RIter"}, s : Bounds, e : Bounds]
MutOps    == SetOps \cup DeleteOps
ReadOps(withHas) == GetOps \cup IterOps \cup (IF withHas THEN HasOps ELSE {})
AllOps(withHas)  == MutOps \cup ReadOps(withHas)

NoOut == [found |-> FALSE, v |-> "", items |-> <<>>]

\* ascending list of the entries of m whose position is in [lo, hi)
RECURSIVE Asc(_, _, _)
Asc(m, lo, hi) ==
    IF lo >= hi \/ lo > NK THEN <<>>
    ELSE IF lo >= 1 /\ KeyOrder[lo] \in DOMAIN m
         THEN <<[k |-> KeyOrder[lo], v |-> m[KeyOrder[lo]]]>> \o Asc(m, lo + 1, hi)
         ELSE Asc(m, lo + 1, hi)
Reverse(s) == [i \in 1..Len(s) |-> s[Len(s) + 1 - i]]

G_ConsistentPrefix(s, e) == Route(s.p) = Route(e.p) /\ Route(s.p) # "N"

IterOut(S, a) ==
    IF ~G_ConsistentPrefix(a.s, a.e) THEN <<>>
    ELSE LET items == Asc(StoreOf(S, Route(a.s.p)), a.s.pos, a.e.pos)
         IN IF a.op = "Iter" THEN items ELSE Reverse(items)

GetOut(S, a) ==
    IF Route(a.p) = "N" THEN NoOut
    ELSE LET m == StoreOf(S, Route(a.p))
         IN IF a.k \in DOMAIN m THEN [found |-> TRUE, v |-> m[a.k], items |-> <<>>] ELSE NoOut

HasOut(S, a) == [found |-> Route(a.p) # "N" /\ a.k \in DOMAIN StoreOf(S, Route(a.p)), v |-> "", items |-> <<>>]

G_WritesSubject(a) == a.p = "S"

Step(S, a) ==
    CASE a.op = "Get"    -> [res |-> "ok", out |-> GetOut(S, a), S |-> S]
      [] a.op = "Has"    -> [res |-> "ok", out |-> HasOut(S, a), S |-> S]
      [] a.op = "Set"    -> [res |-> "ok", out |-> NoOut,
                             S |-> IF G_WritesSubject(a) THEN [S EXCEPT !.sub = Put(S.sub, a.k, a.v)] ELSE S]
      [] a.op = "Delete" -> [res |-> "ok", out |-> NoOut,
                             S |-> IF G_WritesSubject(a) THEN [S EXCEPT !.sub = Del(S.sub, a.k)] ELSE S]
      [] a.op \in {"Iter", "RIter"} -> [res |-> "ok", out |-> [NoOut EXCEPT !.items = IterOut(S, a)], S |-> S]

\* ---- what C29 states, as predicates over one step (pre, a, post) -----------------------
IsWrite(a) == a.op \in {"Set", "Delete"}
P_SubstituteUntouched(pre, post)  == post.subst = pre.subst
P_WriteIffSubjectPrefix(pre, a, post) ==
    IsWrite(a) => IF a.p = "S" THEN post.sub = Step(pre, a).S.sub ELSE post.sub = pre.sub
P_ReadsChangeNothing(pre, a, post) == ~IsWrite(a) => post.sub = pre.sub
=============================================================================
