-------------------------- MODULE Canon_SoloMachine --------------------------
(***************************************************************************)
(* Canonical (always-run) schedules for C26.  A schedule is a list of      *)
(* macros; TLC folds the specification's own Step over it, so every action *)
(* is built from the state the specification predicts (the signature the   *)
(* client expects NOW, the evidence for the sequence consumed k steps ago, *)
(* the verbatim copy of the k-th last request ...).  The outcomes the      *)
(* design intends are stated here and checked (ASSUME) before anything is  *)
(* written, so a canonical schedule can never silently become vacuous.     *)
(*                                                                         *)
(* Classes pinned (the random walks of Sched_SoloMachine reach them only   *)
(* by luck):                                                               *)
(*  - a "keep-alive" header that re-states key, diversifier and timestamp  *)
(*    still consumes the sequence; its verbatim replay is refused          *)
(*  - a consumed proof signature presented again under every claimed proof *)
(*    height (the height it was made at, zero, the current sequence)       *)
(*  - misbehaviour for a CONSUMED sequence (one / two steps back, one of   *)
(*    the two signatures being the very one accepted as a proof), in both  *)
(*    path encodings; evidence whose Sequence field is not the signed one  *)
(*  - after freezing every request is refused                              *)
(***************************************************************************)
EXTENDS SoloMachine, Json, Integers

CONSTANTS KIND, OutFile

Hdr(S, t, n, d)     == [a |-> "Header", sig |-> Expect(S, t, HdrPath, HdrData(n, d)), ts |-> t, npk |-> n, ndiv |-> d]
VMa(S, t, p, d, h)  == [a |-> "VM", sig |-> Expect(S, t, p, d), ts |-> t, path |-> p, data |-> d, plen |-> 2, ph |-> h]
VNMa(S, t, p, h)    == [a |-> "VNM", sig |-> Expect(S, t, p, NoData), ts |-> t, path |-> p, plen |-> 2, ph |-> h]
Prev(acts, k)       == acts[Len(acts) + 1 - k]
PhOf(S, h)          == IF h = "cur" THEN S.seq ELSE 0
OtherData(d)        == IF d = "x" THEN "y" ELSE "x"

\* macro m in state S after the requests `acts`
Act(S, acts, m) ==
    CASE m.m = "keepalive" -> Hdr(S, S.ts, S.pk, S.div)
      [] m.m = "rotate"    -> Hdr(S, S.ts + m.dt, m.k, m.d)
      [] m.m = "vm"        -> VMa(S, S.ts + m.dt, m.p, m.x, PhOf(S, m.h))
      [] m.m = "vnm"       -> VNMa(S, S.ts + m.dt, m.p, PhOf(S, m.h))
      [] m.m = "again"     -> Prev(acts, m.k)                              \* verbatim copy of the k-th last request
      [] m.m = "again-at"  -> LET o == Prev(acts, m.k) IN                  \* ... under another claimed proof height
                              IF m.h = "signed" THEN AtSigSeq(o) ELSE IF m.h = "cur" THEN AtCurrent(S, o) ELSE AtZero(o)
      [] m.m = "misb"      -> MisbOf(S, S.seq - m.back, S.ts, "p1", "x", S.ts, "p1", "y", m.pf)
      [] m.m = "misb-used" -> LET s == Prev(acts, m.k).sig IN              \* first signature = the one accepted k requests ago
                              MisbOf(S, s.seq, s.ts, s.path, s.data, s.ts + m.dt, s.path, OtherData(s.data), "raw")
      [] m.m = "misb-field" -> [MisbOf(S, S.seq - m.back, S.ts, "p1", "x", S.ts, "p2", "x", m.pf) EXCEPT !.seq = m.claim + S.seq]

RECURSIVE Build(_, _, _, _)
Build(S, acts, res, ms) ==
    IF ms = <<>> THEN [acts |-> acts, res |-> res]
    ELSE LET a == Act(S, acts, Head(ms))  r == Step(S, a)
         IN Build(r.S, Append(acts, a), Append(res, r.res), Tail(ms))
Run(ms) == Build(InitState, <<>>, <<>>, ms)

M(n) == [m |-> n]
\* K1: sequence consumption and replays under every claimed proof height, then misbehaviour built on a consumed proof
K1 == << M("keepalive"), [m |-> "again", k |-> 1],
         [m |-> "vm", dt |-> 0, p |-> "p1", x |-> "x", h |-> "cur"], [m |-> "again", k |-> 1],
         [m |-> "again-at", k |-> 2, h |-> "zero"], [m |-> "again-at", k |-> 3, h |-> "cur"],
         [m |-> "vnm", dt |-> 1, p |-> "p2", h |-> "cur"], [m |-> "again", k |-> 1], [m |-> "again-at", k |-> 2, h |-> "zero"],
         [m |-> "vm", dt |-> 0, p |-> "p2", x |-> "y", h |-> "zero"], [m |-> "again-at", k |-> 1, h |-> "signed"],
         [m |-> "rotate", dt |-> 1, k |-> 2, d |-> "d2"], [m |-> "again", k |-> 1],
         M("keepalive"), [m |-> "again", k |-> 1],
         [m |-> "vm", dt |-> 0, p |-> "p1", x |-> "y", h |-> "cur"], [m |-> "again", k |-> 1],
         [m |-> "misb-field", back |-> 0, claim |-> 1, pf |-> "raw"],
         [m |-> "misb-used", k |-> 3, dt |-> 0],
         [m |-> "vm", dt |-> 0, p |-> "p1", x |-> "x", h |-> "cur"], M("keepalive"), [m |-> "again-at", k |-> 5, h |-> "signed"],
         [m |-> "misb", back |-> 0, pf |-> "merkle"] >>
R1 == << "ok", "err", "ok", "err", "err", "err", "ok", "err", "err", "ok", "err", "ok", "err", "ok", "err", "ok", "err",
         "err", "ok", "err", "err", "err", "err" >>
\* K2: misbehaviour for the sequence consumed one step back, merkle-encoded paths
K2 == << [m |-> "vm", dt |-> 1, p |-> "p1", x |-> "x", h |-> "zero"],
         [m |-> "misb-field", back |-> 1, claim |-> 0, pf |-> "merkle"],        \* signed for seq-1, states the current one
         [m |-> "misb", back |-> 1, pf |-> "merkle"],
         [m |-> "vnm", dt |-> 0, p |-> "p1", h |-> "cur"], M("keepalive") >>
R2 == << "ok", "err", "ok", "err", "err" >>
\* K3: misbehaviour two sequences back (a proof and a keep-alive header in between), raw paths
K3 == << [m |-> "vnm", dt |-> 0, p |-> "p1", h |-> "cur"], M("keepalive"),
         [m |-> "misb-field", back |-> 2, claim |-> -1, pf |-> "raw"],
         [m |-> "misb", back |-> 2, pf |-> "raw"],
         [m |-> "vm", dt |-> 0, p |-> "p1", x |-> "x", h |-> "cur"] >>
R3 == << "ok", "ok", "err", "ok", "err" >>
\* K4: the accepted proof itself is half of the evidence, later timestamp on the second signature
K4 == << [m |-> "vm", dt |-> 0, p |-> "p2", x |-> "x", h |-> "cur"],
         [m |-> "vm", dt |-> 2, p |-> "p1", x |-> "x", h |-> "zero"],
         [m |-> "misb-used", k |-> 2, dt |-> 1],
         [m |-> "again-at", k |-> 2, h |-> "signed"] >>
R4 == << "ok", "ok", "ok", "err" >>

Plans == << <<K1, R1>>, <<K2, R2>>, <<K3, R3>>, <<K4, R4>> >>
Canon == [ i \in DOMAIN Plans |-> [kind |-> KIND, acts |-> Run(Plans[i][1]).acts] ]

ASSUME \A i \in DOMAIN Plans :
          \/ Run(Plans[i][1]).res = Plans[i][2]
          \/ PrintT(<<"CANON-UNINTENDED", i, Run(Plans[i][1]).res>>) /\ FALSE
ASSUME PrintT(<<"CANON", Len(Canon)>>)
ASSUME ndJsonSerialize(OutFile, Canon)

VARIABLE x
Init == x = 0
Next == UNCHANGED x
Spec == Init /\ [][Next]_x
=============================================================================
