--------------------------- MODULE Trace_Localhost ---------------------------
(***************************************************************************)
(* Validation of 09-localhost executions recorded from the real code.      *)
(*  kind "table": one verification / client message per line with the      *)
(*     observed IBC store (test keys + the real connection end) before,    *)
(*     and whole-store digests before and after                    (C27)   *)
(*  kind "loop": loopback schedules, linear traces ("Init" resets)  (C04,  *)
(*     clause prefix "localhost-")                                         *)
(***************************************************************************)
EXTENDS Localhost, Json

CONSTANT TraceFile
Trace == ndJsonDeserialize(TraceFile)
VARIABLES l, L

MapOf(arr) == [ k \in { arr[i].k : i \in DOMAIN arr } |-> arr[CHOOSE i \in DOMAIN arr : arr[i].k = k].v ]
SetOf(arr) == { arr[i] : i \in DOMAIN arr }

TableViol(ln) ==
  LET a == ln.a  r == ln.res  pre == [store |-> MapOf(ln.store)]  E == Step(pre, a)
  IN   { <<"C27", "membership-iff-store-holds-value">> : x \in IF P_MembershipIffStore(pre, a, r) THEN {} ELSE {1} }
  \cup { <<"C27", "non-membership-iff-key-absent">> : x \in IF P_NonMembershipIffAbsent(pre, a, r) THEN {} ELSE {1} }
  \cup { <<"C27", "client-operation-refused">> : x \in IF P_ClientOpsRefused(a, r) THEN {} ELSE {1} }
  \cup { <<"C27", "refused-client-operation-changes-nothing">> : x \in
           IF a.a = "ClientOp" /\ ln.dig0 # ln.dig1 THEN {1} ELSE {} }
  \cup { <<"C27", "verification-changes-nothing">> : x \in
           IF a.a \in {"VM", "VNM"} /\ ln.dig0 # ln.dig1 THEN {1} ELSE {} }
  \cup { <<"X", "result-class">> : x \in IF r \in {"ok", "err", "panic"} THEN {} ELSE {1} }
  \cup { <<"CONF", a.a \o ":" \o E.res \o "/" \o r>> : x \in IF E.res = r THEN {} ELSE {1} }

LOf(st, sent) == [h |-> st.h, now |-> st.now, sent |-> sent, commit |-> SetOf(st.commit), rcpt |-> SetOf(st.rcpt), log |-> st.log]

LoopViol(pre, a, r, post) ==
  LET E == LStep(pre, a)
  IN   { <<"C04", "localhost-not-early">> : x \in IF LP_NotEarly(pre, a, r) THEN {} ELSE {1} }
  \cup { <<"C04", "localhost-unreceived-at-timeout">> : x \in IF LP_Unreceived(pre, a, r) THEN {} ELSE {1} }
  \cup { <<"C04", "localhost-not-both">> : x \in IF LI_NotBoth(post) THEN {} ELSE {1} }
  \cup { <<"X", "height-or-time">> : x \in IF post.h = pre.h + 1 /\ post.now = pre.now + a.dt THEN {} ELSE {1} }
  \cup { <<"X", "send-failed">> : x \in IF a.a = "LSend" /\ E.res = "ok" /\ r # "ok" THEN {1} ELSE {} }
  \cup { <<"CONF", a.a \o ":" \o E.res \o "/" \o r>> : x \in
           IF E.res = r /\ E.L.commit = post.commit /\ E.L.rcpt = post.rcpt /\ E.L.log = post.log THEN {} ELSE {1} }

TraceInit == l = 0 /\ L = LInit
TraceNext ==
    /\ l < Len(Trace)
    /\ LET ln == Trace[l + 1] IN
       IF ln.kind = "table"
       THEN /\ \A v \in TableViol(ln) : PrintT(<<"MONFAIL", ln.tr, ln.i, v>>)
            /\ L' = L
       ELSE IF ln.a.a = "Init"
       THEN L' = LOf(ln.st, <<>>)
       ELSE LET a == ln.a
                sent2 == IF a.a = "LSend" /\ ln.res = "ok" THEN Append(L.sent, [toH |-> a.toH, toT |-> a.toT]) ELSE L.sent
                post == LOf(ln.st, sent2)
            IN /\ \A v \in LoopViol(L, a, ln.res, post) : PrintT(<<"MONFAIL", ln.tr, ln.i, v>>)
               /\ L' = post
    /\ l' = l + 1
    /\ (l + 1 = Len(Trace) => PrintT(<<"CONSUMED", l + 1>>))
TraceSpec == TraceInit /\ [][TraceNext]_<<l, L>>
=============================================================================
