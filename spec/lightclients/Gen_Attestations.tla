-------------------------- MODULE Gen_Attestations --------------------------
(***************************************************************************)
(* Case generation for C28 (full enumeration, serialised once).  A case is *)
(* [q, pre, act]: the client with quorum q in pre-state "fresh" (height 1  *)
(* stored), "two" (heights 1 and 2 stored) or "frozen" receives act.       *)
(*  SigCases : every signature list up to LMAX from the pool, in all three *)
(*             contexts with otherwise good arguments, every quorum        *)
(*  DataCases: good signatures, every packet list up to PMAX x value x     *)
(*             height relation x path shape                                *)
(*  Cross    : state attestation as packet proof and vice versa            *)
(*  Hist     : sequences of real transactions (updates incl. conflicting   *)
(*             timestamps, then requests after freezing)                   *)
(***************************************************************************)
EXTENDS Attestations, Json, SequencesExt

CONSTANTS LMAX, PMAX, HLEN, OutFile, HistFile

Quorums == 1..3
GoodPkts == <<Pk("P", "V")>>
Ctx(kind, sg, tagdata) ==
    CASE kind = "Update" -> [a |-> "Update", sigs |-> sg, data |-> StateData(2, 2)]
      [] kind = "VM"     -> [a |-> "VM", h |-> 1, sigs |-> sg, data |-> PacketData(1, GoodPkts), pathc |-> "P1", val |-> "V"]
      [] kind = "VNM"    -> [a |-> "VNM", h |-> 1, sigs |-> sg, data |-> PacketData(1, <<Pk("P", "Z")>>), pathc |-> "P1"]

\* besides all lists up to LMAX: every pool item as third signature after two good ones, and before two good ones
Anchored(T) == { <<Sg("a1", "v01", "this", T), Sg("a2", "v01", "this", T), p>> : p \in Pool(T) }
          \cup { <<p, Sg("a2", "v01", "this", T), Sg("a3", "v01", "this", T)>> : p \in Pool(T) }
SigCases == UNION { { [q |-> q, pre |-> "fresh", act |-> Ctx(k, sg, 0)]
                      : q \in Quorums, sg \in Lists(Pool(IF k = "Update" THEN "state" ELSE "packet"), LMAX)
                                              \cup Anchored(IF k = "Update" THEN "state" ELSE "packet") }
                    : k \in {"Update", "VM", "VNM"} }

PktLists(n) == {<<>>} \cup Lists(PktItems, n)
\* proof height vs attested height: equal (1 / the latest, 2), attested ABOVE the proof height ("neq": proof 1, attested 2),
\* attested BELOW a stored proof height ("lt": proof 2, attested 1 -- an older attestation replayed at a later stored
\* height), attested for a height the client never stored ("ltfar": proof 2, attested 0 resp. "gtfar": proof 1, attested 3),
\* no consensus state at the proof height
HSel == {"eq", "eq2", "neq", "lt", "ltfar", "gtfar", "nocons"}
HOf(sel) == CASE sel = "nocons" -> 3 [] sel \in {"eq2", "lt", "ltfar"} -> 2 [] OTHER -> 1
DHOf(sel) == CASE sel = "neq" -> 2 [] sel = "lt" -> 1 [] sel = "ltfar" -> 0 [] sel = "gtfar" -> 3 [] OTHER -> HOf(sel)
VM(sel, pl, pc, v)  == [a |-> "VM", h |-> HOf(sel), sigs |-> Good("packet"), data |-> PacketData(DHOf(sel), pl), pathc |-> pc, val |-> v]
VNM(sel, pl, pc)    == [a |-> "VNM", h |-> HOf(sel), sigs |-> Good("packet"), data |-> PacketData(DHOf(sel), pl), pathc |-> pc]
Vals == {"V", "Z", "W", "S31", "E", "L33"}
DataCases ==
       { [q |-> 2, pre |-> "two", act |-> VM("eq", pl, "P1", v)] : pl \in PktLists(PMAX), v \in Vals }
  \cup { [q |-> 2, pre |-> "two", act |-> VNM("eq", pl, "P1")] : pl \in PktLists(PMAX) }
  \cup { [q |-> q, pre |-> "two", act |-> VM(sel, <<Pk("P", v)>>, "P1", v)] : q \in Quorums, sel \in HSel, v \in {"V", "Z"} }
  \cup { [q |-> q, pre |-> "two", act |-> VNM(sel, pl, "P1")] : q \in Quorums, sel \in HSel, pl \in {<<Pk("P", "Z")>>, <<Pk("P", "Z"), Pk("Q", "V")>>} }
  \cup { [q |-> 2, pre |-> "two", act |-> VM(sel, pl, pc, v)] : sel \in HSel, pl \in PktLists(1), pc \in {"P1", "P2", "E"}, v \in Vals }
  \cup { [q |-> 2, pre |-> "two", act |-> VNM(sel, pl, pc)] : sel \in HSel, pl \in PktLists(1), pc \in {"P1", "P2", "E"} }

UpdateCases == { [q |-> q, pre |-> p, act |-> [a |-> "Update", sigs |-> Good("state"), data |-> StateData(h, t)]]
                 : q \in Quorums, p \in {"fresh", "two", "frozen"}, h \in 1..3, t \in 1..2 }

Cross == UNION { { [q |-> q, pre |-> p, act |-> [a |-> "Update", sigs |-> Good("packet"), data |-> PacketData(1, GoodPkts)]],
                   [q |-> q, pre |-> p, act |-> [a |-> "Update", sigs |-> Good("packet"), data |-> PacketData(2, <<Pk("P", "Z"), Pk("Q", "V")>>)]],
                   [q |-> q, pre |-> p, act |-> [a |-> "VM", h |-> 1, sigs |-> Good("state"), data |-> StateData(1, 1), pathc |-> "P1", val |-> "V"]],
                   [q |-> q, pre |-> p, act |-> [a |-> "VNM", h |-> 1, sigs |-> Good("state"), data |-> StateData(1, 1), pathc |-> "P1"]],
                   [q |-> q, pre |-> p, act |-> Ctx("VM", Good("packet"), 0)],
                   [q |-> q, pre |-> p, act |-> Ctx("VNM", Good("packet"), 0)] }
                 : q \in Quorums, p \in {"fresh", "two", "frozen"} }

Cases == SigCases \cup DataCases \cup UpdateCases \cup Cross

\* histories of real transactions on a fresh client
HAlpha(q) == { [a |-> "Update", sigs |-> Good("state"), data |-> StateData(h, t)] : h \in 1..2, t \in 1..2 }
        \cup { [a |-> "Update", sigs |-> <<Sg("a1", "v01", "this", "state")>>, data |-> StateData(2, 1)],
               [a |-> "Update", sigs |-> <<Sg("a1", "v01", "this", "state"), Sg("a1", "v27", "this", "state")>>, data |-> StateData(1, 2)],
               [a |-> "Update", sigs |-> Good("packet"), data |-> PacketData(1, GoodPkts)],
               Ctx("VM", Good("packet"), 0), Ctx("VNM", Good("packet"), 0),
               VM("lt", GoodPkts, "P1", "V"), VNM("lt", <<Pk("P", "Z")>>, "P1") }
Hists == { [q |-> q, acts |-> s] : q \in {1, 2}, s \in [1..HLEN -> HAlpha(0)] }

ASSUME PrintT(<<"CASES", Cardinality(Cases), "HISTS", Cardinality(Hists)>>)
ASSUME ndJsonSerialize(OutFile, SetToSeq(Cases))
ASSUME ndJsonSerialize(HistFile, SetToSeq(Hists))

VARIABLE x
Init == x = 0
Next == UNCHANGED x
Spec == Init /\ [][Next]_x
=============================================================================
