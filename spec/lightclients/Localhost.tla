----------------------------- MODULE Localhost -----------------------------
(***************************************************************************)
(* C27.  09-localhost: membership verification succeeds exactly when the   *)
(* chain's own IBC store holds the value at the key, non-membership        *)
(* exactly when the key is absent; both need the sentinel proof, a         *)
(* two-element path and a proof height the chain itself has reached; the   *)
(* localhost client cannot be created, updated, upgraded or recovered.     *)
(*                                                                         *)
(* C04 (localhost part).  A loopback channel (both ends on one chain over  *)
(* connection-localhost): a timeout may be accepted only when the chain    *)
(* ITSELF has reached the packet's timeout height or time -- whatever      *)
(* proof height the relayer claims.                                        *)
(***************************************************************************)
EXTENDS Naturals, Sequences, FiniteSets, TLC

\* =========================== verification table (C27) ===========================
\* store: map key -> value over the test keys ("" is a stored empty value)
Put(m, k, v) == [x \in (DOMAIN m) \cup {k} |-> IF x = k THEN v ELSE m[x]]

\* action: [a |-> "VM", key, val, proof, plen, hc]   [a |-> "VNM", key, proof, plen, hc]
\*         [a |-> "ClientOp", op, shape, via]
\* proof : "sentinel" | "empty" | "nil" | "other" | "sentinelx" (sentinel plus one byte) | "real" (an ICS-23 proof)
\* plen  : number of path elements (the key is the last element for plen = 1, the second otherwise)
\* hc    : class of the proof height argument: "zero", "past", "cur" (the chain's own height, i.e. the height of the
\*         executing block), "next" (own height + 1), "future" (far above)
G_HeightNotAboveSelf(a) == a.hc \notin {"next", "future"}      \* a height beyond the chain's own height proves nothing
G_Sentinel(a) == a.proof = "sentinel"
G_TwoElements(a) == a.plen = 2
G_Holds(S, a)  == a.key \in DOMAIN S.store /\ S.store[a.key] = a.val
G_Absent(S, a) == a.key \notin DOMAIN S.store

Member(S, a)    == G_HeightNotAboveSelf(a) /\ G_Sentinel(a) /\ G_TwoElements(a) /\ G_Holds(S, a)
NonMember(S, a) == G_HeightNotAboveSelf(a) /\ G_Sentinel(a) /\ G_TwoElements(a) /\ G_Absent(S, a)

Step(S, a) ==
    CASE a.a = "VM"       -> [res |-> IF Member(S, a) THEN "ok" ELSE "err", S |-> S]
      [] a.a = "VNM"      -> [res |-> IF NonMember(S, a) THEN "ok" ELSE "err", S |-> S]
      [] a.a = "ClientOp" -> [res |-> "err", S |-> S]

\* C27 over one step: verification succeeds exactly when the store says so (for a height the chain has reached)
P_MembershipIffStore(pre, a, r)     == a.a = "VM" => (r = "ok" <=> Member(pre, a))
P_NonMembershipIffAbsent(pre, a, r) == a.a = "VNM" => (r = "ok" <=> NonMember(pre, a))
P_ClientOpsRefused(a, r) == a.a = "ClientOp" => r # "ok"

\* =========================== loopback channel (C04) =============================
\* L = [h, now, sent: seq -> [toH, toT], commit: set of seq, rcpt: set of seq, log: sequence of [ev, seq]]
\* one transaction = one block: the transaction executes at height L.h + 1 and time L.now + a.dt
LInit == [h |-> 0, now |-> 0, sent |-> <<>>, commit |-> {}, rcpt |-> {}, log |-> <<>>]

ElapsedAt(p, h, t) == (p.toH # 0 /\ h >= p.toH) \/ (p.toT # 0 /\ t >= p.toT)
LG_SelfReachedTimeout(L, a) == ElapsedAt(L.sent[a.seq], L.h + 1, L.now + a.dt)
LG_Committed(L, a)  == a.seq \in L.commit
LG_Unreceived(L, a) == a.seq \notin L.rcpt
\* what the code checks: the CLAIMED proof height (which 09-localhost bounds by the chain's own height) and the real time
LG_ProofHeightNotAboveSelf(L, a) == a.ph <= L.h + 1
LG_ClaimElapsed(L, a) == LET p == L.sent[a.seq] IN (p.toH # 0 /\ a.ph >= p.toH) \/ (p.toT # 0 /\ L.now + a.dt >= p.toT)

Tick(L, a) == [L EXCEPT !.h = @ + 1, !.now = @ + a.dt]
LStep(L, a) ==
    CASE a.a = "LBlock" -> [res |-> "ok", L |-> Tick(L, a)]
      [] a.a = "LSend"  ->
           LET p == [toH |-> a.toH, toT |-> a.toT] IN
           IF (a.toH # 0 \/ a.toT # 0) /\ ~ElapsedAt(p, L.h + 1, L.now + a.dt)
           THEN [res |-> "ok", L |-> [Tick(L, a) EXCEPT !.sent = Append(@, p), !.commit = @ \cup {Len(L.sent) + 1}]]
           ELSE [res |-> "err", L |-> Tick(L, a)]
      [] a.a = "LRecv"  ->
           IF a.seq \in DOMAIN L.sent /\ LG_Committed(L, a) /\ LG_Unreceived(L, a) /\ ~LG_SelfReachedTimeout(L, a)
           THEN [res |-> "ok", L |-> [Tick(L, a) EXCEPT !.rcpt = @ \cup {a.seq}, !.log = Append(@, [ev |-> "recv", seq |-> a.seq])]]
           ELSE [res |-> IF a.seq \in L.rcpt /\ ~LG_SelfReachedTimeout(L, a) THEN "noop" ELSE "err",   \* the timeout is checked first
                 L |-> Tick(L, a)]
      [] a.a = "LTimeout" ->
           IF a.seq \in DOMAIN L.sent /\ LG_Committed(L, a) /\ LG_Unreceived(L, a)
              /\ LG_ProofHeightNotAboveSelf(L, a) /\ LG_ClaimElapsed(L, a)
           THEN [res |-> "ok", L |-> [Tick(L, a) EXCEPT !.commit = @ \ {a.seq}, !.log = Append(@, [ev |-> "timeout", seq |-> a.seq])]]
           ELSE [res |-> IF a.seq \in DOMAIN L.sent /\ ~LG_Committed(L, a) THEN "noop" ELSE "err", L |-> Tick(L, a)]

\* C04 (localhost) over one step and as state invariant
LP_NotEarly(pre, a, r)   == a.a = "LTimeout" /\ r = "ok" => a.seq \in DOMAIN pre.sent /\ LG_SelfReachedTimeout(pre, a)
LP_Unreceived(pre, a, r) == a.a = "LTimeout" /\ r = "ok" => LG_Unreceived(pre, a)
LI_NotBoth(L) == \A i \in DOMAIN L.log : \A j \in DOMAIN L.log :
                    ~(L.log[i].ev = "recv" /\ L.log[j].ev = "timeout" /\ L.log[i].seq = L.log[j].seq)
=============================================================================
