-------------------------- MODULE MC_Attestations --------------------------
(* Exhaustive check of the attestations-client design on a small universe: heights 1..MaxH, timestamps 1..2,      *)
(* every signature list up to LMAX from the pool, every packet list up to 2 entries.                             *)
EXTENDS Attestations

CONSTANTS QUORUM, MaxH, LMAX
VARIABLE S

Kinds == <<"Update", "VM", "VNM", "Freeze", "MemberZero">>
Idx(n) == CHOOSE i \in DOMAIN Kinds : Kinds[i] = n
W(n) == IF TLCGet(Idx(n)) = 0 THEN TLCSet(Idx(n), 1) /\ PrintT(<<"WITNESS", n>>) ELSE TRUE

Updates == { [a |-> "Update", sigs |-> sg, data |-> StateData(h, t)]
             : sg \in Lists(Pool("state"), LMAX) \cup {Good("state")}, h \in 1..MaxH, t \in 1..2 }
PktLists == {<<>>} \cup Lists(PktItems, 2)
Verifs  == { [a |-> "VM", h |-> h, sigs |-> sg, data |-> PacketData(dh, pl), pathc |-> pc, val |-> v]
             : h \in 1..MaxH, dh \in 1..MaxH, sg \in { Good("packet"), <<Sg("a1", "v01", "this", "packet")>>, Good("state") },
               pl \in PktLists, pc \in {"P1", "P2"}, v \in {"V", "Z", "S31"} }
      \cup { [a |-> "VNM", h |-> h, sigs |-> sg, data |-> PacketData(dh, pl), pathc |-> pc]
             : h \in 1..MaxH, dh \in 1..MaxH, sg \in { Good("packet"), <<Sg("a1", "v01", "this", "packet")>>, Good("state") },
               pl \in PktLists, pc \in {"P1", "P2"} }
Cross   == { [a |-> "Update", sigs |-> Good("packet"), data |-> PacketData(1, <<Pk("P", "V")>>)],
             [a |-> "VM", h |-> 1, sigs |-> Good("state"), data |-> StateData(1, 1), pathc |-> "P1", val |-> "V"],
             [a |-> "VNM", h |-> 1, sigs |-> Good("state"), data |-> StateData(1, 1), pathc |-> "P1"] }
Acts == Updates \cup Verifs \cup Cross

Init == /\ S = [frozen |-> FALSE, cons |-> [h \in {1} |-> 1], latest |-> 1, quorum |-> QUORUM]
        /\ \A i \in DOMAIN Kinds : TLCSet(i, 0)
Next == \E a \in Acts : LET r == Step(S, a) IN
           /\ r.res = "ok" /\ S' = r.S /\ W(a.a)
           /\ (r.S.frozen /\ ~S.frozen => W("Freeze"))
           /\ (a.a = "VM" /\ a.val = "Z" => W("MemberZero"))
Spec == Init /\ [][Next]_S

\* every accepted request satisfies what C28 states; every request is refused once frozen
Inv == \A a \in Acts : LET r == Step(S, a) IN
          /\ P_QuorumOfDistinctValidAttestors(S, a, r.res)
          /\ P_NotInterchangeable(S, a, r.res)
          /\ P_Membership(S, a, r.res) /\ P_NonMembership(S, a, r.res)
          /\ P_UpdateEffect(S, a, r.res, r.S) /\ P_ConflictFreezes(S, a, r.res, r.S)
          /\ P_FrozenAcceptsNothing(S, r.res, r.S)
          /\ P_ChangesOnlyByAcceptedUpdate(S, a, r.res, r.S)
          /\ P_FrozenOnlyByConflict(S, a, r.res, r.S)
FrozenFinal == [][S.frozen => S'.frozen]_S
StoredTimestampsImmutable == [][\A h \in DOMAIN S.cons : h \in DOMAIN S'.cons /\ S'.cons[h] = S.cons[h]]_S
=============================================================================
