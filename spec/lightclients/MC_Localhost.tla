---------------------------- MODULE MC_Localhost ----------------------------
(* Exhaustive check of (a) the verification table on every store over two keys and (b) the loopback design:      *)
(* with the chain's own height/time as the only clock no packet is both received and timed out.                   *)
EXTENDS Localhost

CONSTANTS MODE, MaxH, MaxSeqL      \* MODE "table": all stores x all verifications;  "loop": loopback channel
VARIABLES S, L

Keys == {"k1", "k2"}
Vals == {"v1", "v2", ""}
Proofs == {"sentinel", "empty", "nil", "other", "sentinelx", "real"}
HCs == {"zero", "cur", "next", "future"}
Stores == UNION { [d -> Vals] : d \in SUBSET Keys }
VActs == [a : {"VM"}, key : Keys, val : Vals, proof : Proofs, plen : 1..3, hc : HCs]
    \cup [a : {"VNM"}, key : Keys, proof : Proofs, plen : 1..3, hc : HCs]
    \cup [a : {"ClientOp"}, op : {"Create", "Update", "Upgrade", "Recover"}, shape : {"s1"}, via : {"keeper"}]

Kinds == <<"VM", "VNM", "LSend", "LRecv", "LTimeout", "LBlock", "TimeoutByTime", "RecvRefusedAtTimeout">>
Idx(n) == CHOOSE i \in DOMAIN Kinds : Kinds[i] = n
W(n) == IF TLCGet(Idx(n)) = 0 THEN TLCSet(Idx(n), 1) /\ PrintT(<<"WITNESS", n>>) ELSE TRUE

LActs(L0) == { [a |-> "LBlock", dt |-> d] : d \in {1, 2} }
        \cup { [a |-> "LSend", dt |-> 1, toH |-> h, toT |-> t] : h \in {0, L0.h + 3}, t \in {0, L0.now + 3} }
        \cup { [a |-> "LRecv", dt |-> 1, seq |-> q] : q \in DOMAIN L0.sent }
        \cup { [a |-> "LTimeout", dt |-> 1, seq |-> q, ph |-> p] : q \in DOMAIN L0.sent, p \in {L0.h, L0.h + 1, L0.h + 100} }

Init == /\ IF MODE = "table" THEN S \in [store : Stores] ELSE S = [store |-> [k \in {"k1"} |-> "v1"]]
        /\ L = LInit /\ \A i \in DOMAIN Kinds : TLCSet(i, 0)
Next == \/ /\ MODE = "table" /\ UNCHANGED L
           /\ \E a \in VActs : LET r == Step(S, a) IN S' = r.S /\ (r.res = "ok" => W(a.a))
        \/ /\ MODE = "loop" /\ UNCHANGED S
           /\ \E a \in LActs(L) : LET r == LStep(L, a) IN
                /\ r.res = "ok" /\ L' = r.L /\ W(a.a)
                /\ (a.a = "LTimeout" /\ L.sent[a.seq].toH = 0 => W("TimeoutByTime"))
           /\ \A a \in LActs(L) : (a.a = "LRecv" /\ a.seq \in L.commit /\ a.seq \notin L.rcpt /\ LStep(L, a).res = "err")
                                     => W("RecvRefusedAtTimeout")
Spec == Init /\ [][Next]_<<S, L>>
Bound == L.h <= MaxH /\ Len(L.sent) <= MaxSeqL

TableInv == \A a \in VActs : LET r == Step(S, a).res IN
               /\ P_MembershipIffStore(S, a, r) /\ P_NonMembershipIffAbsent(S, a, r) /\ P_ClientOpsRefused(a, r)
               /\ (a.a = "VM" /\ r = "ok" => a.key \in DOMAIN S.store /\ S.store[a.key] = a.val)
               /\ (a.a = "VNM" /\ r = "ok" => a.key \notin DOMAIN S.store)
               /\ ~(a.a \in {"VM", "VNM"} /\ r = "ok" /\ (a.proof # "sentinel" \/ a.hc \in {"next", "future"}))
LoopInv == /\ LI_NotBoth(L) /\ L.rcpt \subseteq L.commit \cup { L.log[i].seq : i \in DOMAIN L.log }
           \* the design satisfies C04: whatever proof height is claimed, an accepted timeout is never early
           /\ \A a \in LActs(L) : LP_NotEarly(L, a, LStep(L, a).res) /\ LP_Unreceived(L, a, LStep(L, a).res)
\* a receive and a timeout of the same packet are never both enabled in one state
Exclusive == \A q \in DOMAIN L.sent : \A p \in {L.h, L.h + 100} :
                ~(LStep(L, [a |-> "LRecv", dt |-> 1, seq |-> q]).res = "ok"
                  /\ LStep(L, [a |-> "LTimeout", dt |-> 1, seq |-> q, ph |-> p]).res = "ok")
Inv == (MODE = "table" => TableInv) /\ (MODE = "loop" => LoopInv /\ Exclusive)
=============================================================================
