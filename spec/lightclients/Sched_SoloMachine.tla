-------------------------- MODULE Sched_SoloMachine --------------------------
(***************************************************************************)
(* Behaviour generation for C26 (tlc -simulate): random walks of the solo  *)
(* machine specification.  Every honest verification is preceded by two of *)
(* its single-field mutants (signature term or message field) and followed *)
(* by its exact replay; earlier accepted signatures are replayed verbatim  *)
(* and re-targeted to the current state; misbehaviour (valid with either   *)
(* path encoding, and mutated) is submitted late in the walk and always    *)
(* six steps before its end, after which every further request must be     *)
(* refused.  Proof verifications carry the claimed proof height (current   *)
(* sequence or zero); replays are also presented at the height their       *)
(* signature was made at, at the zero height and at the current sequence.  *)
(***************************************************************************)
EXTENDS SoloMachine, Json

CONSTANTS KIND, Depth, OutDir, MISB_PCT

VARIABLES S, sched, todo, oks

Init == S = InitState /\ sched = <<>> /\ todo = <<>> /\ oks = <<>>

Thaw(S0) == [S0 EXCEPT !.frozen = FALSE]

Next ==
    /\ Len(sched) < Depth
    /\ \E roll \in { RandomElement(1..100) } :
       \E h  \in { RandomElement(OkVerifs(Thaw(S))) } :
       \E c  \in { RandomElement(OkVerifs(Thaw(S))) } :
       \E m  \in { RandomElement(OkMisbs(Thaw(S))) } :
       \E h1 \in { RandomElement(Mutants(h)) } :
       \E h2 \in { RandomElement(Mutants(h)) } :
       \E mm \in { RandomElement(Mutants(m)) } :
       \E g  \in { RandomElement(SigMutants(h1.sig)) } :
       \E o  \in { IF oks = <<>> THEN h ELSE oks[RandomElement(1..Len(oks))] } :
       \E mr \in { RandomElement({ x \in OkMisbs(Thaw(S)) : x.pform = "raw" }) } :
       \E mk \in { RandomElement({ x \in OkMisbs(Thaw(S)) : x.pform = "merkle" }) } :
       \E plan \in { IF Len(sched) = Depth - 6      \* forced ending: misbehaviour (freeze), then four more requests
                     THEN (IF roll <= 50 THEN <<mr, mk, h, c, o, h1>> ELSE <<mm, mk, h, c, o, h1>>)
                     ELSE IF todo # <<>> THEN todo
                     ELSE IF roll <= 50 THEN <<h1, h2, h, h, IF roll <= 25 THEN AtSigSeq(h) ELSE AtZero(h)>>
                     ELSE IF roll <= 65 THEN <<o, AtSigSeq(o), AtCurrent(S, o), [c EXCEPT !.sig = o.sig]>>
                     ELSE IF roll <= 78 THEN <<mm>>
                     ELSE IF roll <= 78 + MISB_PCT /\ 3 * Len(sched) > 2 * Depth THEN <<mm, m>>
                     ELSE <<[c EXCEPT !.sig = g]>> } :
       LET a == Head(plan)
           r == Step(S, a)
       IN /\ S' = r.S
          /\ sched' = Append(sched, a)
          /\ todo' = Tail(plan)
          /\ oks' = IF r.res = "ok" /\ IsVerif(a) THEN Append(oks, a) ELSE oks
          /\ Len(sched') = Depth =>
                JsonSerialize(OutDir \o "/s" \o ToString(TLCGet("stats").traces) \o "_" \o ToString(RandomElement(1..1000000)) \o ".json",
                              [kind |-> KIND, acts |-> sched'])

Spec == Init /\ [][Next]_<<S, sched, todo, oks>>
=============================================================================
