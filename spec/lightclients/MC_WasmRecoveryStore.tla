----------------------- MODULE MC_WasmRecoveryStore -----------------------
(* Exhaustive check of the recovery-store design: every pair of maps is an initial state, every operation     *)
(* (all prefix classes, all iterator bound pairs) is applied in every reachable state.                         *)
EXTENDS WasmRecoveryStore, TLC

CONSTANT SUBVALS      \* values the substitute may hold initially
VARIABLE S

Kinds == <<"Get", "Has", "Set", "Delete", "Iter", "RIter", "SetNoop", "IterEmptyMixed", "IterNonEmptyT", "GetT">>
Idx(n) == CHOOSE i \in DOMAIN Kinds : Kinds[i] = n
W(n) == IF TLCGet(Idx(n)) = 0 THEN TLCSet(Idx(n), 1) /\ PrintT(<<"WITNESS", n>>) ELSE TRUE
Witness(S0, a, r) ==
    /\ W(a.op)
    /\ (a.op = "Set" /\ a.p # "S" => W("SetNoop"))
    /\ (a.op = "Iter" /\ ~G_ConsistentPrefix(a.s, a.e) /\ a.s.p = "S" /\ a.e.p = "T" => W("IterEmptyMixed"))
    /\ (a.op = "Iter" /\ a.s.p = "T" /\ r.out.items # <<>> => W("IterNonEmptyT"))
    /\ (a.op = "Get" /\ a.p = "T" /\ r.out.found => W("GetT"))

IsMap(m, R) == DOMAIN m \subseteq KEYS /\ \A k \in DOMAIN m : m[k] \in R
Init == /\ S \in [sub : Maps(KEYS, VALS), subst : Maps(KEYS, SUBVALS)]
        /\ \A i \in DOMAIN Kinds : TLCSet(i, 0)
Next == \E a \in AllOps(TRUE) : LET r == Step(S, a) IN r.res = "ok" /\ S' = r.S /\ Witness(S, a, r)
Spec == Init /\ [][Next]_S

TypeOK == IsMap(S.sub, VALS) /\ IsMap(S.subst, SUBVALS)

\* C29 as properties of every operation in every reachable state of the design
SubstituteNeverWritten == \A a \in AllOps(TRUE) : Step(S, a).S.subst = S.subst
SubjectChangesOnlyBySubjectWrites ==
    \A a \in AllOps(TRUE) : Step(S, a).S.sub # S.sub => a.op \in {"Set", "Delete"} /\ a.p = "S"
SubjectWritesTakeEffect ==
    \A a \in MutOps : LET T == Step(S, a).S IN
       /\ (a.op = "Set" /\ a.p = "S" => a.k \in DOMAIN T.sub /\ T.sub[a.k] = a.v
                                        /\ \A k \in KEYS \ {a.k} : (k \in DOMAIN T.sub) = (k \in DOMAIN S.sub)
                                                                    /\ (k \in DOMAIN S.sub => T.sub[k] = S.sub[k]))
       /\ (a.op = "Delete" /\ a.p = "S" => a.k \notin DOMAIN T.sub
                                        /\ \A k \in KEYS \ {a.k} : (k \in DOMAIN T.sub) = (k \in DOMAIN S.sub)
                                                                    /\ (k \in DOMAIN S.sub => T.sub[k] = S.sub[k]))

\* reads: routed by prefix, empty without one consistent prefix (state predicate over all operations)
ReadsRouted ==
    /\ \A a \in GetOps : LET o == Step(S, a).out IN
          /\ (a.p = "S" => o.found = (a.k \in DOMAIN S.sub) /\ (o.found => o.v = S.sub[a.k]))
          /\ (a.p = "T" => o.found = (a.k \in DOMAIN S.subst) /\ (o.found => o.v = S.subst[a.k]))
          /\ (a.p \in {"N", "M"} => ~o.found)
    /\ \A a \in IterOps : LET it == Step(S, a).out.items IN
          /\ (~(a.s.p = a.e.p /\ a.s.p \in {"S", "T"}) => it = <<>>)
          /\ \A i \in DOMAIN it : LET m == IF a.s.p = "S" THEN S.sub ELSE S.subst IN
                 /\ it[i].k \in DOMAIN m /\ it[i].v = m[it[i].k]
                 /\ Pos(it[i].k) >= a.s.pos /\ Pos(it[i].k) < a.e.pos
          /\ (a.s.p = a.e.p /\ a.s.p \in {"S", "T"} =>
                 Len(it) = Cardinality({ k \in DOMAIN (IF a.s.p = "S" THEN S.sub ELSE S.subst) :
                                          Pos(k) >= a.s.pos /\ Pos(k) < a.e.pos }))
          /\ \A i \in DOMAIN it : \A j \in DOMAIN it :
                 i < j => IF a.op = "Iter" THEN Pos(it[i].k) < Pos(it[j].k) ELSE Pos(it[i].k) > Pos(it[j].k)
Inv == TypeOK /\ ReadsRouted /\ SubstituteNeverWritten /\ SubjectChangesOnlyBySubjectWrites /\ SubjectWritesTakeEffect
=============================================================================
