---------------------------- MODULE Attestations ----------------------------
(***************************************************************************)
(* C28.  Attestations light client: an update or proof is accepted only    *)
(* with at least `quorum` valid 65-byte signatures of distinct configured  *)
(* attestors over the domain-separated hash of exactly that attestation    *)
(* data; state and packet attestations are not interchangeable;            *)
(* membership needs an attested 32-byte commitment at the hashed path and  *)
(* height, non-membership a path attested with zero commitments only; a    *)
(* conflicting timestamp for a stored height freezes the client; a frozen  *)
(* client accepts nothing.                                                 *)
(*                                                                         *)
(* A signature is the abstract term [signer, enc, over, tag]:              *)
(*   enc  "v01" 65 bytes, recovery id 0/1     "v27" recovery id 27/28      *)
(*        "mall" the malleated twin (r, n-s, v^1) -- valid, same signer    *)
(*        "short"/"long" 64/66 bytes          "badrec" recovery id flipped *)
(*   over "this" (the attestation data of the message) or "other"          *)
(*   tag  the type tag mixed into the digest when signing                  *)
(* Attestation data: [kind, h, ts, pkts]; a packet entry is [path, com]    *)
(*   path "P" keccak of the queried key, "Q" of another key, "R" the raw   *)
(*        (unhashed) key;  com "V" the value, "W" another value, "Z" 32    *)
(*        zero bytes, "S" the first 31 bytes of the value (zero padded).   *)
(***************************************************************************)
EXTENDS Naturals, Sequences, FiniteSets, TLC

CONSTANTS ATTESTORS, STRANGERS

ValidEncs == {"v01", "v27", "mall"}
Range(s) == { s[i] : i \in DOMAIN s }
Put(m, k, v) == [x \in (DOMAIN m) \cup {k} |-> IF x = k THEN v ELSE m[x]]
MaxOf(a, b) == IF a >= b THEN a ELSE b

TagOf(kind) == kind                      \* "state" | "packet"
ValidSig(s, tag) == s.enc \in ValidEncs /\ s.over = "this" /\ s.tag = tag

\* ---- what the property counts: distinct configured attestors with a valid signature --------
ValidAttestors(sigs, tag) == { s.signer : s \in { x \in Range(sigs) : ValidSig(x, tag) /\ x.signer \in ATTESTORS } }
G_Quorum(S, sigs, tag) == Cardinality(ValidAttestors(sigs, tag)) >= S.quorum

\* ---- what the code demands in addition (every listed signature good) -----------------------
G_AllGood(S, sigs, tag) ==
    /\ Len(sigs) > 0 /\ Len(sigs) >= S.quorum
    /\ \A i \in DOMAIN sigs : ValidSig(sigs[i], tag) /\ sigs[i].signer \in ATTESTORS
    /\ \A i \in DOMAIN sigs : \A j \in DOMAIN sigs : i # j => sigs[i].signer # sigs[j].signer

G_NotFrozen(S)   == ~S.frozen
G_HeightKnown(S, h) == h \in DOMAIN S.cons
Is32(v)          == v \in {"V", "W", "Z"}
G_Member(a) ==
    /\ a.data.kind = "packet" /\ a.data.h = a.h /\ a.pathc = "P1" /\ Is32(a.val)
    /\ \E i \in DOMAIN a.data.pkts : a.data.pkts[i].path = "P" /\ a.data.pkts[i].com = a.val
G_NonMember(a) ==
    /\ a.data.kind = "packet" /\ a.data.h = a.h /\ a.pathc = "P1"
    /\ \E i \in DOMAIN a.data.pkts : a.data.pkts[i].path = "P"
    /\ \A i \in DOMAIN a.data.pkts : a.data.pkts[i].path = "P" => a.data.pkts[i].com = "Z"
Conflict(S, d) == d.h \in DOMAIN S.cons /\ S.cons[d.h] # d.ts

Step(S, a) ==
    CASE a.a = "Update" ->
           IF G_NotFrozen(S) /\ a.data.kind = "state" /\ G_AllGood(S, a.sigs, "state")
           THEN IF Conflict(S, a.data)
                THEN [res |-> "ok", S |-> [S EXCEPT !.frozen = TRUE]]
                ELSE [res |-> "ok", S |-> [S EXCEPT !.cons = Put(@, a.data.h, a.data.ts), !.latest = MaxOf(@, a.data.h)]]
           ELSE [res |-> "err", S |-> S]
      [] a.a = "VM" ->
           [res |-> IF G_NotFrozen(S) /\ G_HeightKnown(S, a.h) /\ G_AllGood(S, a.sigs, "packet") /\ G_Member(a)
                    THEN "ok" ELSE "err", S |-> S]
      [] a.a = "VNM" ->
           [res |-> IF G_NotFrozen(S) /\ G_HeightKnown(S, a.h) /\ G_AllGood(S, a.sigs, "packet") /\ G_NonMember(a)
                    THEN "ok" ELSE "err", S |-> S]

\* ---- C28 over one step ------------------------------------------------------------------------
CtxTag(a) == IF a.a = "Update" THEN "state" ELSE "packet"
P_QuorumOfDistinctValidAttestors(pre, a, r) == r = "ok" => G_Quorum(pre, a.sigs, CtxTag(a))
P_NotInterchangeable(pre, a, r) == r = "ok" => a.data.kind = CtxTag(a)
P_Membership(pre, a, r)    == a.a = "VM" /\ r = "ok" => G_HeightKnown(pre, a.h) /\ G_Member(a)
P_NonMembership(pre, a, r) == a.a = "VNM" /\ r = "ok" => G_HeightKnown(pre, a.h) /\ G_NonMember(a)
P_UpdateEffect(pre, a, r, post) ==
    a.a = "Update" /\ r = "ok" /\ a.data.kind = "state" =>
        IF Conflict(pre, a.data) THEN post.frozen /\ post.cons = pre.cons
        ELSE post.cons = Put(pre.cons, a.data.h, a.data.ts) /\ post.frozen = pre.frozen /\ post.latest = MaxOf(pre.latest, a.data.h)
P_ConflictFreezes(pre, a, r, post) ==
    a.a = "Update" /\ G_NotFrozen(pre) /\ a.data.kind = "state" /\ G_AllGood(pre, a.sigs, "state") /\ Conflict(pre, a.data)
        => r = "ok" /\ post.frozen
P_FrozenAcceptsNothing(pre, r, post) == pre.frozen => r # "ok" /\ post = pre
P_ChangesOnlyByAcceptedUpdate(pre, a, r, post) == post # pre => a.a = "Update" /\ r = "ok"
P_FrozenOnlyByConflict(pre, a, r, post) == post.frozen /\ ~pre.frozen => a.a = "Update" /\ r = "ok" /\ a.data.kind = "state" /\ Conflict(pre, a.data)

\* ---- enumeration vocabulary ---------------------------------------------------------------------
Other(tag) == IF tag = "state" THEN "packet" ELSE "state"
Sg(who, enc, over, tag) == [signer |-> who, enc |-> enc, over |-> over, tag |-> tag]
\* the pool named in DESIGN.md: a1 a2 a3, a stranger, a1 again in other encodings, malformed lengths, other data, other tag
Pool(T) == { Sg("a1", "v01", "this", T), Sg("a2", "v01", "this", T), Sg("a3", "v01", "this", T), Sg("x", "v01", "this", T),
             Sg("a1", "v27", "this", T), Sg("a1", "mall", "this", T), Sg("a1", "short", "this", T), Sg("a1", "long", "this", T),
             Sg("a1", "v01", "other", T), Sg("a1", "v01", "this", Other(T)), Sg("a1", "badrec", "this", T),
             Sg("a2", "v27", "this", T) }
Lists(X, n) == UNION { [1..k -> X] : k \in 1..n }
Good(T) == << Sg("a1", "v01", "this", T), Sg("a2", "v27", "this", T), Sg("a3", "v01", "this", T) >>

StateData(h, ts) == [kind |-> "state", h |-> h, ts |-> ts, pkts |-> <<>>]
PacketData(h, pkts) == [kind |-> "packet", h |-> h, ts |-> 0, pkts |-> pkts]
Pk(p, c) == [path |-> p, com |-> c]
PktItems == { Pk("P", "V"), Pk("P", "Z"), Pk("P", "W"), Pk("P", "S"), Pk("Q", "V"), Pk("Q", "Z"), Pk("R", "V") }
=============================================================================
