---------------------------- MODULE Gen_Localhost ----------------------------
(***************************************************************************)
(* Case generation for C27 and the localhost part of C04 (full             *)
(* enumeration, serialised once).                                          *)
(*  Table  : [pre |-> store over the test keys, act |-> verification]      *)
(*           keys: k1, k2 (test keys set by the harness), conn (the real   *)
(*           connection-localhost end, value "R")                          *)
(*  Ops    : client messages addressed to 09-localhost                     *)
(*  Loops  : loopback schedules around the timeout boundary: send, n       *)
(*           blocks, timeout with a claimed proof height, receive,         *)
(*           timeout again -- and the receive-first order                  *)
(***************************************************************************)
EXTENDS Localhost, Json, SequencesExt

CONSTANTS BOTHKEYS, LOOPK, LOOPD, OutFile, OpsFile, LoopFile

StoreVals == {"v1", "v2", ""}
TestKeys == IF BOTHKEYS THEN {"k1", "k2"} ELSE {"k1"}
Stores == UNION { [d -> StoreVals] : d \in SUBSET TestKeys }
Keys == {"k1", "k2", "conn"}
Vals == {"v1", "v2", "", "R"}
Proofs == {"sentinel", "empty", "nil", "other", "sentinelx", "real"}
HCs == {"zero", "cur", "past", "next", "future"}
VActs == [a : {"VM"}, key : Keys, val : Vals, proof : Proofs, plen : 1..3, hc : HCs]
    \cup [a : {"VNM"}, key : Keys \cup {"absentreal"}, proof : Proofs, plen : 1..3, hc : HCs]
Table == { [pre |-> s, act |-> a] : s \in Stores, a \in VActs }

Ops == [a : {"ClientOp"}, op : {"Create"}, shape : {"nil", "tmstate", "garbage"}, via : {"keeper"}]
  \cup [a : {"ClientOp"}, op : {"Update"}, shape : {"tmheader", "soloheader", "tmmisb", "attest"}, via : {"tx", "keeper"}]
  \cup [a : {"ClientOp"}, op : {"Upgrade"}, shape : {"empty", "garbage", "tmstate"}, via : {"tx", "keeper"}]
  \cup [a : {"ClientOp"}, op : {"Recover"}, shape : {"self", "tmsubstitute", "missing"}, via : {"msgserver", "keeper"}]

Rep(x, n) == [i \in 1..n |-> x]
Blk(d) == [a |-> "LBlock", dt |-> d]
\* the send executes at height 1 / time 1; the timeout is k blocks / ticks later
Send(kind, k) == [a |-> "LSend", dt |-> 1, toH |-> IF kind \in {"H", "HT"} THEN 1 + k ELSE 0,
                                        toT |-> IF kind \in {"T", "HT"} THEN 1 + k ELSE 0]
Tmo(ph) == [a |-> "LTimeout", dt |-> 1, seq |-> 1, ph |-> ph]
Rcv == [a |-> "LRecv", dt |-> 1, seq |-> 1]
\* claimed proof heights at the moment of the timeout (the chain is at height n + 1, the transaction executes at
\* n + 2): the last committed height, the executing height, the timeout height itself, and far above everything
PHs(n, k) == {n + 1, n + 2, 1 + k, 100000 + k}
Loops == UNION { UNION { { [acts |-> <<Send(kind, k)>> \o Rep(Blk(d), n) \o <<Tmo(ph), Rcv, Tmo(ph)>>]
                           : kind \in {"H", "T", "HT"}, d \in LOOPD, ph \in PHs(n, k) } : n \in 0..5 } : k \in LOOPK }
    \cup UNION { { [acts |-> <<Send(kind, 3)>> \o Rep(Blk(d), n) \o <<Rcv, Tmo(ph), Rcv>>]
                   : kind \in {"H", "T"}, d \in LOOPD, ph \in {n + 2, 100000} } : n \in 0..4 }

ASSUME PrintT(<<"TABLE", Cardinality(Table), "OPS", Cardinality(Ops), "LOOPS", Cardinality(Loops)>>)
ASSUME ndJsonSerialize(OutFile, SetToSeq(Table))
ASSUME ndJsonSerialize(OpsFile, SetToSeq(Ops))
ASSUME ndJsonSerialize(LoopFile, SetToSeq(Loops))

VARIABLE x
Init == x = 0
Next == UNCHANGED x
Spec == Init /\ [][Next]_x
=============================================================================
