---------------------------- MODULE SoloMachine ----------------------------
(***************************************************************************)
(* C26.  06-solomachine light client: every successful verification        *)
(* (header, membership, non-membership) consumes the current sequence, a   *)
(* signature is accepted at most once and only over exactly                *)
(* (sequence, timestamp, diversifier, path, data), the consensus timestamp *)
(* never decreases, misbehaviour freezes the client and a frozen client    *)
(* accepts nothing.                                                        *)
(*                                                                         *)
(* Signatures are abstract terms (DESIGN.md section 4): the record of what *)
(* was signed, by which key, in which form:                                *)
(*   [pk, seq, ts, div, path, data, enc, form]                             *)
(*   enc  : how the path is put into the sign bytes ("raw" key bytes, as   *)
(*          proof verification does, or a "merkle"-encoded MerklePath)     *)
(*   form : "full" (a well-formed signature of the whole key), "partial"   *)
(*          (multisig with a signer missing), "wrongtype" (single/multi    *)
(*          signature data of the other kind).  Only "full" verifies.      *)
(* The harness turns each term into a REAL signature over sign bytes built *)
(* from the term's own fields.                                             *)
(***************************************************************************)
EXTENDS Naturals, Sequences, FiniteSets, TLC

CONSTANTS KEYS,      \* public key ids
          DIVS,      \* diversifiers
          PATHS,     \* abstract store keys
          DATA,      \* abstract values
          FORMS,     \* signature forms available for this key kind
          MaxTs      \* largest timestamp used by generation

HdrPath == "hdr"          \* the sentinel header path "solomachine:header"
NoData  == "none"         \* empty data (what a non-membership proof signs)
HdrData(npk, ndiv) == "H" \o ToString(npk) \o ndiv      \* HeaderData{new key, new diversifier}

InitState == [seq |-> 1, ts |-> 1, pk |-> 1, div |-> "d1", frozen |-> FALSE]

SigTerm(pk, seq, ts, div, path, data, enc) ==
    [pk |-> pk, seq |-> seq, ts |-> ts, div |-> div, path |-> path, data |-> data, enc |-> enc, form |-> "full"]

\* the one signature term the client may accept in state S for (ts, path, data)
Expect(S, ts, path, data) == SigTerm(S.pk, S.seq, ts, S.div, path, data, "raw")

\* ---- guards (named clauses) ------------------------------------------------------------
G_NotFrozen(S)          == ~S.frozen
G_TsNotDecreasing(S, t) == t >= S.ts
G_PathLen(a)            == a.plen = 2
G_SigExact(S, a) ==
    CASE a.a = "Header" -> a.sig = Expect(S, a.ts, HdrPath, HdrData(a.npk, a.ndiv))
      [] a.a = "VM"     -> a.sig = Expect(S, a.ts, a.path, a.data)
      [] a.a = "VNM"    -> a.sig = Expect(S, a.ts, a.path, NoData)
      [] OTHER          -> FALSE

\* misbehaviour: two valid signatures of the current key over different data for one sequence
MisbSigOk(S, a, sig, ts, path, data) ==
    sig = SigTerm(S.pk, a.seq, ts, S.div, path, data, a.pform)
G_MisbValid(S, a) ==
    /\ a.seq >= 1 /\ a.ts1 >= 1 /\ a.ts2 >= 1
    /\ a.data1 # NoData /\ a.data2 # NoData
    /\ MisbSigOk(S, a, a.sig1, a.ts1, a.path1, a.data1)
    /\ MisbSigOk(S, a, a.sig2, a.ts2, a.path2, a.data2)
    /\ <<a.path1, a.data1>> # <<a.path2, a.data2>>

\* ---- the step function -------------------------------------------------------------------
Accept(S, a, t) == G_NotFrozen(S) /\ G_TsNotDecreasing(S, t) /\ G_SigExact(S, a)

Step(S, a) ==
    CASE a.a = "Header" ->
           IF Accept(S, a, a.ts)
           THEN [res |-> "ok", S |-> [S EXCEPT !.seq = @ + 1, !.ts = a.ts, !.pk = a.npk, !.div = a.ndiv]]
           ELSE [res |-> "err", S |-> S]
      [] a.a \in {"VM", "VNM"} ->
           IF Accept(S, a, a.ts) /\ G_PathLen(a)
           THEN [res |-> "ok", S |-> [S EXCEPT !.seq = @ + 1, !.ts = a.ts]]
           ELSE [res |-> "err", S |-> S]
      [] a.a = "Misb" ->
           IF G_NotFrozen(S) /\ G_MisbValid(S, a)
           THEN [res |-> "ok", S |-> [S EXCEPT !.frozen = TRUE]]
           ELSE [res |-> "err", S |-> S]

\* ---- action sets ---------------------------------------------------------------------------
NextTs(S) == { t \in {S.ts, S.ts + 1, S.ts + 2} : t <= MaxTs }

OkHeaders(S) == { [a |-> "Header", sig |-> Expect(S, t, HdrPath, HdrData(n, d)), ts |-> t, npk |-> n, ndiv |-> d]
                  : t \in NextTs(S), n \in KEYS, d \in DIVS }
\* ph = the proof height handed to the verification call (0 = the zero height, n = revision height n).  It is not part
\* of the sign bytes and the client verifies at its CURRENT sequence whatever the caller claims, so no guard reads it;
\* honest callers pass the current sequence or the zero height, replays pass the height the signature was made at.
ProofHeights(S) == {S.seq, 0}
OkVMs(S)     == { [a |-> "VM", sig |-> Expect(S, t, p, d), ts |-> t, path |-> p, data |-> d, plen |-> 2, ph |-> h]
                  : t \in NextTs(S), p \in PATHS, d \in DATA \cup {NoData}, h \in ProofHeights(S) }
OkVNMs(S)    == { [a |-> "VNM", sig |-> Expect(S, t, p, NoData), ts |-> t, path |-> p, plen |-> 2, ph |-> h]
                  : t \in NextTs(S), p \in PATHS, h \in ProofHeights(S) }
OkVerifs(S)  == OkHeaders(S) \cup OkVMs(S) \cup OkVNMs(S)

MisbOf(S, q, t1, p1, d1, t2, p2, d2, pf) ==
    [a |-> "Misb", seq |-> q, pform |-> pf,
     sig1 |-> SigTerm(S.pk, q, t1, S.div, p1, d1, pf), ts1 |-> t1, path1 |-> p1, data1 |-> d1,
     sig2 |-> SigTerm(S.pk, q, t2, S.div, p2, d2, pf), ts2 |-> t2, path2 |-> p2, data2 |-> d2]
\* valid evidence (both encodings of the signed path), for the current or an earlier sequence
OkMisbs(S) == { MisbOf(S, q, S.ts, x[1], x[2], S.ts, x[3], x[4], pf)
                : q \in {S.seq} \cup (IF S.seq > 1 THEN {S.seq - 1} ELSE {}),
                  x \in { y \in PATHS \X DATA \X PATHS \X DATA : <<y[1], y[2]>> # <<y[3], y[4]>> },
                  pf \in {"merkle", "raw"} }

\* single-field mutations of a signature term (what the signer signed differs in one field from what is claimed)
SigMutants(sig) ==
       { [sig EXCEPT !.seq = q]   : q \in ({sig.seq + 1} \cup (IF sig.seq > 1 THEN {sig.seq - 1} ELSE {})) }
  \cup { [sig EXCEPT !.ts = t]    : t \in ({sig.ts + 1} \cup (IF sig.ts > 1 THEN {sig.ts - 1} ELSE {})) }
  \cup { [sig EXCEPT !.div = d]   : d \in (DIVS \cup {""}) \ {sig.div} }      \* "" = diversifier left out of the sign bytes
  \cup { [sig EXCEPT !.path = p]  : p \in (PATHS \cup {HdrPath}) \ {sig.path} }
  \cup { [sig EXCEPT !.data = d]  : d \in (DATA \cup {NoData, "other"}) \ {sig.data} }
  \cup { [sig EXCEPT !.pk = k]    : k \in KEYS \ {sig.pk} }
  \cup { [sig EXCEPT !.enc = e]   : e \in {"raw", "merkle"} \ {sig.enc} }
  \cup { [sig EXCEPT !.form = f]  : f \in FORMS \ {sig.form} }

\* single-field mutations of the message around an honest signature, and of the signature around the message
Mutants(a) ==
    IF a.a = "Misb"
    THEN { [a EXCEPT !.sig1 = m] : m \in SigMutants(a.sig1) } \cup { [a EXCEPT !.sig2 = m] : m \in SigMutants(a.sig2) }
         \cup { [a EXCEPT !.seq = a.seq + 1], [a EXCEPT !.seq = 0], [a EXCEPT !.ts2 = a.ts2 + 1],
                [a EXCEPT !.data2 = a.data1, !.path2 = a.path1, !.sig2 = [a.sig2 EXCEPT !.data = a.data1, !.path = a.path1]],
                [a EXCEPT !.data1 = "other"] }
    ELSE { [a EXCEPT !.sig = m] : m \in SigMutants(a.sig) }
         \cup { [a EXCEPT !.ts = a.ts + 1] }
         \cup (IF a.ts > 1 THEN { [a EXCEPT !.ts = a.ts - 1] } ELSE {})
         \cup (IF a.a = "Header"
               THEN { [a EXCEPT !.npk = k] : k \in KEYS \ {a.npk} } \cup { [a EXCEPT !.ndiv = d] : d \in DIVS \ {a.ndiv} }
               ELSE { [a EXCEPT !.path = p] : p \in PATHS \ {a.path} } \cup { [a EXCEPT !.plen = n] : n \in {1, 3} })
         \cup (IF a.a = "VM" THEN { [a EXCEPT !.data = d] : d \in (DATA \cup {NoData}) \ {a.data} } ELSE {})

\* the same request under another claimed proof height: at the sequence the signature was made at (what a replay
\* presents), at the zero height, at the client's current sequence
HasPh(a)       == a.a \in {"VM", "VNM"}
AtSigSeq(a)    == IF HasPh(a) THEN [a EXCEPT !.ph = a.sig.seq] ELSE a
AtZero(a)      == IF HasPh(a) THEN [a EXCEPT !.ph = 0] ELSE a
AtCurrent(S, a) == IF HasPh(a) THEN [a EXCEPT !.ph = S.seq] ELSE a

\* ---- what C26 states, over one step (pre, a, res, post) and the history of accepted signatures ----------------
IsVerif(a) == a.a \in {"Header", "VM", "VNM"}
P_ConsumesSequence(pre, a, r, post) == IsVerif(a) /\ r = "ok" => post.seq = pre.seq + 1
P_SequenceOnlyBySuccess(pre, a, r, post) == post.seq # pre.seq => IsVerif(a) /\ r = "ok" /\ post.seq = pre.seq + 1
P_TsMonotone(pre, post) == post.ts >= pre.ts
P_SingleUse(acc, a, r) == IsVerif(a) /\ r = "ok" => a.sig \notin acc
P_ExactSignBytes(pre, a, r) == IsVerif(a) /\ r = "ok" => G_SigExact(pre, a) /\ (a.a # "Header" => G_PathLen(a))
P_MessageTsNotBelowState(pre, a, r) == IsVerif(a) /\ r = "ok" => G_TsNotDecreasing(pre, a.ts)
P_FrozenAcceptsNothing(pre, r, post) == pre.frozen => r # "ok" /\ post = pre
P_MisbGuard(pre, a, r) == a.a = "Misb" /\ r = "ok" => G_MisbValid(pre, a)
P_MisbFreezes(pre, a, r, post) == a.a = "Misb" /\ G_NotFrozen(pre) /\ G_MisbValid(pre, a) => r = "ok" /\ post.frozen
P_FrozenOnlyByMisb(pre, a, r, post) == post.frozen /\ ~pre.frozen => a.a = "Misb" /\ r = "ok"
P_FrozenIsFinal(pre, post) == pre.frozen => post.frozen
P_KeyChangesOnlyByHeader(pre, a, r, post) ==
    (post.pk # pre.pk \/ post.div # pre.div) => a.a = "Header" /\ r = "ok" /\ post.pk = a.npk /\ post.div = a.ndiv
=============================================================================
