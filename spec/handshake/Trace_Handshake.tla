--------------------------- MODULE Trace_Handshake ---------------------------
(***************************************************************************)
(* Validation of traces recorded from the real ibc-go code against         *)
(* Handshake.  Every trace line carries the action, the result class of    *)
(* the transaction and the projected state after it (every connection end  *)
(* and channel end of both chains, identifier counters, light client).     *)
(* The specification state is rebuilt from the logged values (linear       *)
(* search), the specification's own operators are evaluated on the logged  *)
(* pre-state and the property monitors below are evaluated on every        *)
(* (pre, action, result, post).  A false monitor is printed as             *)
(*    <<"MONFAIL", trace id, step, <<property, clause>>>>                  *)
(* "X" = harness sanity, "CONF" = full conformance (diagnostic only).      *)
(* C15 / C21 clauses are diagnostics here (claimed by other families).     *)
(***************************************************************************)
EXTENDS Handshake, Json

CONSTANT TraceFile

Trace == ndJsonDeserialize(TraceFile)

\* fgn = the chains that acted as a foreign (not ibc-go) counterparty so far in this trace (ForeignConn / ForeignChan)
VARIABLES l, S, obs, iss, fgn

SetOf(arr) == { arr[i] : i \in DOMAIN arr }

ConnOf(j) == ConnEnd(j.st, j.cl, j.cpcl, j.cpconn, j.pfx, j.vers, j.delay)
ChanOf(j) == ChanEnd(j.port, j.st, j.ord, j.cpport, j.cpchan, j.hops, j.ver)
ProvOf(j) == [conns |-> [n \in { j.conns[i].n : i \in DOMAIN j.conns } |->
                            ConnOf(j.conns[CHOOSE i \in DOMAIN j.conns : j.conns[i].n = n])],
              chans |-> [n \in { j.chans[i].n : i \in DOMAIN j.chans } |->
                            ChanOf(j.chans[CHOOSE i \in DOMAIN j.chans : j.chans[i].n = n])],
              nconn |-> j.nconn, nchan |-> j.nchan]

InitChainOf(j) == [h |-> j.h,
                   bt |-> [p \in 0..j.h |-> j.bt[p + 1]],
                   hist |-> [p \in 0..j.h |-> ProvOf(j.cur)],
                   cur |-> ProvOf(j.cur), cons |-> SetOf(j.cons), frozen |-> j.frozen]
InitOf(ln) == [now |-> ln.st.now, ch |-> [c \in Chains |-> InitChainOf(ln.st.ch[c])]]
ObsOf(ln)  == [c \in Chains |-> [dig |-> ln.st.ch[c].dig, status |-> ln.st.ch[c].status]]
IdsOf(j)   == { j.cur.conns[i].id : i \in DOMAIN j.cur.conns } \cup { j.cur.chans[i].id : i \in DOMAIN j.cur.chans }

(***************************************************************************)
(* Monitors                                                                *)
(***************************************************************************)
Flag(name, bad) == { name : x \in IF bad THEN {1} ELSE {} }

\* the handshake state the counterparty end must be proven in when an end in state st becomes OPEN
PeerStateFor(st) == IF st = "INIT" THEN "TRYOPEN" ELSE "OPEN"

\* fg = chains that played a foreign counterparty up to and including this step.  Scoping: a foreign write is not a step
\* of the code under test (no transition monitor applies to it); end-to-end agreement is promised between two chains
\* that both follow the protocol (fg = {}); state invariants on stored ends are promised for the chains not in fg.
\* Every step-local monitor (pre, action, post of the acting chain's REAL transaction) keeps applying on both chains.
Viol(pre, a, r, post, dig0, dig1, st2, j, seen, fg) ==
  LET c    == a.c
      t    == pre.now + a.dt
      cs   == pre.ch[c]
      cur  == cs.cur
      ps   == post.ch[c]
      pc   == ps.cur
      E    == Step(pre, a)
      ok   == r = "ok"
      isF  == a.a \in ForeignMsgs
      Unchanged == pc = cur /\ ps.cons = cs.cons /\ ps.frozen = cs.frozen /\ dig0 = dig1
      NewConns  == (DOMAIN pc.conns) \ (DOMAIN cur.conns)
      NewChans  == (DOMAIN pc.chans) \ (DOMAIN cur.chans)
      \* --- channel end n became OPEN in this step: the proof obligation of C12
      ChanOpenedOk(n) ==
          LET e0 == cur.chans[n]  e1 == pc.chans[n]  k == HopConn(cur, e1.hops) IN
          /\ ok /\ a.a \in {"ChanOpenAck", "ChanOpenConfirm"} /\ a.chan = n /\ a.port = e1.port
          /\ e0.st \in {"INIT", "TRYOPEN"}
          /\ ChanProven(pre, c, t, k, a.ph, e1.cpport, e1.cpchan,
                        ChanEnd(e1.cpport, PeerStateFor(e0.st), e1.ord, e1.port, n, <<k.cpconn>>, e1.ver))
      ChanTriedOk(n) ==
          LET e1 == pc.chans[n]  k == HopConn(cur, e1.hops) IN
          ChanProven(pre, c, t, k, a.ph, e1.cpport, e1.cpchan,
                     ChanEnd(e1.cpport, "INIT", e1.ord, e1.port, -1, <<k.cpconn>>, a.cpver))
      ChanCloseProven ==
          LET e0 == ChanAt(cur, a.port, a.chan)  k == HopConn(cur, e0.hops) IN
          /\ e0.st \in {"INIT", "TRYOPEN", "OPEN"}
          /\ ChanProven(pre, c, t, k, a.ph, e0.cpport, e0.cpchan,
                        ChanEnd(e0.cpport, "CLOSED", e0.ord, e0.port, a.chan, <<k.cpconn>>, e0.ver))
      \* --- connection end n became OPEN in this step: the proof obligation of C13
      ConnOpenedOk(n) ==
          LET e0 == cur.conns[n]  e1 == pc.conns[n] IN
          /\ ok /\ a.a \in {"ConnOpenAck", "ConnOpenConfirm"} /\ a.conn = n
          /\ e0.st \in {"INIT", "TRYOPEN"}
          /\ ConnProven(pre, c, t, e1.cl, e1.pfx, a.ph, e1.cpconn,
                        ConnEnd(PeerStateFor(e0.st), e1.cpcl, e1.cl, n, OwnPrefix, e1.vers, e1.delay))
      ConnTriedOk(n) ==
          LET e1 == pc.conns[n] IN
          ConnProven(pre, c, t, e1.cl, e1.pfx, a.ph, e1.cpconn,
                     ConnEnd("INIT", e1.cpcl, e1.cl, -1, OwnPrefix, a.cpvers, e1.delay))
      Consumer == a.a \in ConnMsgs \cup ChanMsgs \cup {"Update", "Freeze"}
      conns == j.cur.conns
      chans == j.cur.chans
  IN
  \* ---- C12 channel handshake state machine and end-to-end agreement ---------------------------------
       Flag(<<"C12", "chan-state-moves-only-along-allowed-transitions">>,
            ~isF /\ \E n \in DOMAIN cur.chans : ~(n \in DOMAIN pc.chans /\ ChanStateMove(cur.chans[n].st, pc.chans[n].st)))
  \cup Flag(<<"C12", "new-end-only-INIT-by-init-or-TRYOPEN-by-try">>,
            \E n \in NewChans : ~(ok /\ ( (a.a = "ChanOpenInit" /\ pc.chans[n].st = "INIT")
                                        \/ (a.a = "ChanOpenTry" /\ pc.chans[n].st = "TRYOPEN"))))
  \cup Flag(<<"C12", "open-only-with-proof-of-matching-counterparty-end">>,
            ~isF /\ \E n \in DOMAIN pc.chans : pc.chans[n].st = "OPEN" /\ ChanNo(cur, n).st # "OPEN"
                                       /\ ~(n \in DOMAIN cur.chans /\ ChanOpenedOk(n)))
  \cup Flag(<<"C12", "tryopen-only-with-proof-of-INIT-counterparty-end">>,
            a.a = "ChanOpenTry" /\ ok /\ ~(Cardinality(NewChans) = 1 /\ \A n \in NewChans : ChanTriedOk(n)))
  \cup Flag(<<"C12", "both-open-agree">>, fg = {} /\ ~I_ChanAgree(post))
  \cup Flag(<<"C12", "close-confirm-needs-proof-of-CLOSED">>, a.a = "ChanCloseConfirm" /\ ok /\ ~ChanCloseProven)
  \* ---- C13 connection handshake safety and version negotiation --------------------------------------
  \cup Flag(<<"C13", "conn-state-moves-only-along-allowed-transitions">>,
            ~isF /\ \E n \in DOMAIN cur.conns : ~(n \in DOMAIN pc.conns /\ ConnStateMove(cur.conns[n].st, pc.conns[n].st)))
  \cup Flag(<<"C13", "open-is-absorbing">>,
            ~isF /\ \E n \in DOMAIN cur.conns : cur.conns[n].st = "OPEN" /\ ~(n \in DOMAIN pc.conns /\ pc.conns[n].st = "OPEN"))
  \cup Flag(<<"C13", "new-end-only-INIT-by-init-or-TRYOPEN-by-try">>,
            \E n \in NewConns : ~(ok /\ ( (a.a = "ConnOpenInit" /\ pc.conns[n].st = "INIT")
                                        \/ (a.a = "ConnOpenTry" /\ pc.conns[n].st = "TRYOPEN"))))
  \cup Flag(<<"C13", "open-only-with-proof-of-matching-counterparty-end">>,
            ~isF /\ \E n \in DOMAIN pc.conns : pc.conns[n].st = "OPEN" /\ ConnAt(cur, n).st # "OPEN"
                                       /\ ~(n \in DOMAIN cur.conns /\ ConnOpenedOk(n)))
  \cup Flag(<<"C13", "tryopen-only-with-proof-of-INIT-counterparty-end">>,
            a.a = "ConnOpenTry" /\ ok /\ ~(Cardinality(NewConns) = 1 /\ \A n \in NewConns : ConnTriedOk(n)))
  \cup Flag(<<"C13", "try-negotiates-single-version-id-in-both-features-intersection">>,
            a.a = "ConnOpenTry" /\ ok
            /\ ~(\A n \in NewConns : Len(pc.conns[n].vers) = 1 /\ NegotiatedOk(Compatible, a.cpvers, pc.conns[n].vers[1])))
  \cup Flag(<<"C13", "ack-keeps-single-version-supported-by-init-list">>,
            a.a = "ConnOpenAck" /\ ok
            /\ ~(LET e0 == ConnAt(cur, a.conn)  e1 == ConnAt(pc, a.conn) IN
                 Len(e1.vers) = 1 /\ IsSupported(e0.vers, e1.vers[1])))
  \cup Flag(<<"C13", "negotiated-ends-carry-one-supported-version">>, \E d \in Chains \ fg : ~SingleNegotiatedVersionOn(post, d))
  \cup Flag(<<"C13", "both-open-agree">>, fg = {} /\ ~I_ConnAgree(post))
  \cup Flag(<<"C13", "localhost-handshake-refused">>,
            a.a \in {"ConnOpenInit", "ConnOpenTry"} /\ a.cl = "localhost" /\ ~(~ok /\ Unchanged))
  \cup Flag(<<"C13", "channel-needs-single-version-supporting-ordering">>,
            a.a \in {"ChanOpenInit", "ChanOpenTry"} /\ ok
            /\ ~(\A n \in NewChans : LET k == HopConn(cur, pc.chans[n].hops) IN
                    k.st # "NONE" /\ G_SingleVersionSupportsOrder(k, pc.chans[n].ord)))
  \* ---- C15 (diagnostic here): identifiers issued so far are distinct, valid and parse back -------------
  \cup Flag(<<"C15", "identifiers-valid-and-parse-back">>,
            \/ \E i \in DOMAIN conns : ~(conns[i].valid /\ conns[i].n >= 0 /\ conns[i].id = "connection-" \o ToString(conns[i].n))
            \/ \E i \in DOMAIN chans : ~(chans[i].valid /\ chans[i].n >= 0 /\ chans[i].id = "channel-" \o ToString(chans[i].n)))
  \cup Flag(<<"C15", "identifiers-pairwise-distinct">>,
            \/ Cardinality({ conns[i].id : i \in DOMAIN conns }) # Len(conns)
            \/ Cardinality({ chans[i].id : i \in DOMAIN chans }) # Len(chans))
  \cup Flag(<<"C15", "no-identifier-dropped-or-reissued">>, ~(seen \subseteq IdsOf(j)))
  \cup Flag(<<"C15", "counters-count-the-issued-identifiers">>, ~I_IdsDense(post))
  \cup Flag(<<"C15", "failed-attempt-leaves-counters">>, ~ok /\ (pc.nconn # cur.nconn \/ pc.nchan # cur.nchan))
  \* ---- C21 (diagnostic here): no handshake step succeeds through a client that is not Active ----------
  \cup Flag(<<"C21", "status-gates-use">>, Consumer /\ ok /\ ~G_ClientActive(pre, c, t))
  \cup Flag(<<"C21", "status-exact">>, \E d \in Chains : st2[d] # Status(post, d, post.now))
  \cup Flag(<<"C21", "client-changes-only-by-client-messages">>,
            ~(a.a \in {"Update", "Freeze"} /\ ok) /\ (ps.cons # cs.cons \/ ps.frozen # cs.frozen))
  \* ---- full conformance (diagnostic) -------------------------------------------------------------------
  \cup Flag(<<"CONF", a.a \o ":" \o E.res \o "/" \o r>>, ~(E.res = r /\ E.S = post))
  \cup Flag(<<"CONF", "rejected-changes-nothing">>, ~ok /\ ~Unchanged)

Report(ln, viol) == \A v \in viol : PrintT(<<"MONFAIL", ln.tr, ln.i, v>>)

(***************************************************************************)
(* Trace behaviour                                                         *)
(***************************************************************************)
TraceInit == l = 1 /\ S = InitOf(Trace[1]) /\ obs = ObsOf(Trace[1]) /\ fgn = {}
             /\ iss = [c \in Chains |-> IdsOf(Trace[1].st.ch[c])]

KnownNames(j) ==
    /\ \A i \in DOMAIN j.cur.conns : j.cur.conns[i].cl \in {"clA", "clB", "localhost"} /\ j.cur.conns[i].cpcl \in {"clA", "clB", "clX"}
                                     /\ j.cur.conns[i].cpconn >= -1
    /\ \A i \in DOMAIN j.cur.chans : j.cur.chans[i].port \in RoutedPorts /\ j.cur.chans[i].cpport \in {"mock", "mock2", "nowhere"}
                                     /\ j.cur.chans[i].cpchan >= -1

Sanity(ln, pre) ==
    LET c == ln.a.c  o == Cp(ln.a.c) IN
       Flag(<<"X", "height-not-incremented">>, ln.st.ch[c].h # pre.ch[c].h + 1)
  \cup Flag(<<"X", "time">>, ~(ln.st.now = pre.now + ln.a.dt /\ ln.st.ch[c].bt[ln.st.ch[c].h + 1] = ln.st.now))
  \cup Flag(<<"X", "other-chain-changed">>,
            ~(/\ ln.st.ch[o].h = pre.ch[o].h /\ ProvOf(ln.st.ch[o].cur) = pre.ch[o].cur
              /\ SetOf(ln.st.ch[o].cons) = pre.ch[o].cons /\ ln.st.ch[o].dig = obs[o].dig))
  \cup Flag(<<"X", "value-outside-the-alphabet">>, ~(KnownNames(ln.st.ch["A"]) /\ KnownNames(ln.st.ch["B"])))

TraceNext ==
    /\ l < Len(Trace)
    /\ LET ln == Trace[l + 1] IN
       IF ln.a.a = "Init"
       THEN /\ S' = InitOf(ln) /\ obs' = ObsOf(ln) /\ l' = l + 1 /\ fgn' = {}
            /\ iss' = [c \in Chains |-> IdsOf(ln.st.ch[c])]
       ELSE LET a  == ln.a
                c  == a.c
                j  == ln.st.ch[c]
                S2 == Commit(S, c, S.now + a.dt, ProvOf(j.cur), SetOf(j.cons), j.frozen)
                fg == IF a.a \in ForeignMsgs THEN fgn \cup {c} ELSE fgn
            IN /\ Report(ln, Sanity(ln, S)
                             \cup Viol(S, a, ln.res, S2, obs[c].dig, j.dig,
                                       [d \in Chains |-> ln.st.ch[d].status], j, iss[c], fg))
               /\ S' = S2
               /\ fgn' = fg
               /\ obs' = ObsOf(ln)
               /\ iss' = [iss EXCEPT ![c] = @ \cup IdsOf(j)]
               /\ l' = l + 1
    /\ (l + 1 = Len(Trace) => PrintT(<<"CONSUMED", l + 1>>))

TraceSpec == TraceInit /\ [][TraceNext]_<<l, S, obs, iss, fgn>>
=============================================================================
