------------------------------ MODULE Handshake ------------------------------
(***************************************************************************)
(* Connection (ICS-03) and channel (ICS-04) handshakes of ibc-go between   *)
(* two chains "A" and "B", each holding ONE light client of the other.     *)
(*                                                                         *)
(* As in IBCPacket.tla the module is a FUNCTION  Step(S, a)  from a system *)
(* state record and an action record to [res, S'], shared by               *)
(*   MC_Handshake (exhaustive check of the design),                        *)
(*   Sched_Handshake (behaviour generation for the real chains),           *)
(*   Trace_Handshake (validation of traces recorded from the real code).   *)
(* One action = one transaction = one committed block on the acting chain  *)
(* (a failed transaction commits a block as well).                         *)
(*                                                                         *)
(* Identifiers.  Connection / channel identifiers are the natural numbers  *)
(* n of "connection-n" / "channel-n"; -1 is the empty identifier.  Client  *)
(* identifiers are the names "clA" (A's client of B), "clB", "clX" (valid  *)
(* but not existing), "localhost", "" (invalid).  The store prefix of both *)
(* chains is "ibc".  Ports "mock" and "mock2" are routed to the mock        *)
(* application (05-port routes every port that contains a route name),     *)
(* "nowhere" is valid but not routed.  The application answers             *)
(* OnChanOpenInit with the proposed version ("mock-version" for a blank    *)
(* one) and OnChanOpenTry with the counterparty's version, except that it  *)
(* negotiates <x> (possibly empty) for a proposal "neg:<x>" (AppTryVersion).*)
(*                                                                         *)
(* Proofs.  hist[p] is the provable state a proof "at height p" shows =    *)
(* the state after block p-1.  A proof verifies on c iff c's client is     *)
(* Active, holds a consensus state for p, the path prefix is the true one  *)
(* and the counterparty's state at p holds exactly the expected end under  *)
(* the claimed identifier (ends are compared as whole records: that is the *)
(* byte comparison of the protobuf encoding, hash/encoding injectivity     *)
(* assumed).                                                               *)
(***************************************************************************)
EXTENDS Versions, TLC

CONSTANT TP      \* trusting period of both light clients, in ticks (1 tick = 500 ms)

Chains == {"A", "B"}
Cp(c)  == IF c = "A" THEN "B" ELSE "A"

MaxOf(X) == CHOOSE x \in X : \A y \in X : y <= x
MinOf(X) == CHOOSE x \in X : \A y \in X : x <= y

ClientName(c) == "cl" \o c
OwnPrefix     == "ibc"
AppVersion    == "mock-version"
AppPort       == "mock"
RoutedPorts   == {"mock", "mock2"}

(***************************************************************************)
(* State                                                                   *)
(*  S = [now, ch |-> [c \in Chains |-> [h, bt, hist, cur, cons, frozen]]]  *)
(*  Prov = [conns, chans, nconn, nchan]                                    *)
(*   conns  : function  connection number -> connection end                *)
(*   chans  : function  channel number (port "mock") -> channel end        *)
(*   nconn, nchan : next connection / channel sequence (identifier counters)*)
(***************************************************************************)
EmptyFn == [x \in {} |-> 0]

ConnEnd(st, cl, cpcl, cpconn, pfx, vers, delay) ==
    [st |-> st, cl |-> cl, cpcl |-> cpcl, cpconn |-> cpconn, pfx |-> pfx, vers |-> vers, delay |-> delay]
\* port = the port the end is stored under (part of its store key), the rest is the stored value
ChanEnd(port, st, ord, cpport, cpchan, hops, ver) ==
    [port |-> port, st |-> st, ord |-> ord, cpport |-> cpport, cpchan |-> cpchan, hops |-> hops, ver |-> ver]

NoConn == ConnEnd("NONE", "", "", -1, "", <<>>, 0)
NoChan == ChanEnd("", "NONE", "NONE", "", -1, <<>>, "")

ConnAt(pv, n) == IF n \in DOMAIN pv.conns THEN pv.conns[n] ELSE NoConn
\* channel identifiers are unique per chain; the store key is (port, channel)
ChanAt(pv, port, n) == IF n \in DOMAIN pv.chans /\ pv.chans[n].port = port THEN pv.chans[n] ELSE NoChan
ChanNo(pv, n)       == IF n \in DOMAIN pv.chans THEN pv.chans[n] ELSE NoChan

InitProv == [conns |-> EmptyFn, chans |-> EmptyFn, nconn |-> 0, nchan |-> 0]

InitChainWith(h0, pv) == [h |-> h0, bt |-> [p \in 0..h0 |-> p + 1], hist |-> [p \in 0..h0 |-> pv],
                          cur |-> pv, cons |-> {0}, frozen |-> FALSE]
InitState == [now |-> 2, ch |-> [c \in Chains |-> InitChainWith(1, InitProv)]]

(***************************************************************************)
(* Light client (same abstraction as IBCPacket.tla)                        *)
(***************************************************************************)
Latest(S, c)      == MaxOf(S.ch[c].cons)
\* blocks before the run started (p < 0: the heights the clients were created at) lie 4 s before tick 0 in the
\* harness' set-up (a few ms after it, hence -7: expired at t iff t >= TP - 7)
PreRunTime        == -7
CpTime(S, c, p)   == IF p < 0 THEN PreRunTime ELSE IF p > S.ch[Cp(c)].h THEN S.now + 1 ELSE S.ch[Cp(c)].bt[p]
Status(S, c, t)   ==
    IF S.ch[c].frozen THEN "Frozen"
    ELSE IF S.ch[c].cons = {} THEN "Expired"
    ELSE IF CpTime(S, c, Latest(S, c)) + TP <= t THEN "Expired" ELSE "Active"

ProvAt(S, c, p)   == IF p < 0 THEN S.ch[Cp(c)].hist[0]
                     ELSE IF p > S.ch[Cp(c)].h THEN S.ch[Cp(c)].cur ELSE S.ch[Cp(c)].hist[p]

G_ClientActive(S, c, t)     == Status(S, c, t) = "Active"
G_ProofHeightKnown(S, c, p) == p \in S.ch[c].cons
CanVerify(S, c, p, t)       == G_ClientActive(S, c, t) /\ G_ProofHeightKnown(S, c, p)

Commit(S, c, t, cur2, cons2, frozen2) ==
    LET cs == S.ch[c]
        h2 == cs.h + 1
        cs2 == [h |-> h2,
                bt |-> [p \in 0..h2 |-> IF p = h2 THEN t ELSE cs.bt[p]],
                hist |-> [p \in 0..h2 |-> IF p = h2 THEN cs.cur ELSE cs.hist[p]],
                cur |-> cur2, cons |-> cons2, frozen |-> frozen2]
    IN [now |-> t, ch |-> [S.ch EXCEPT ![c] = cs2]]

NoChange(S, c, t)    == Commit(S, c, t, S.ch[c].cur, S.ch[c].cons, S.ch[c].frozen)
RErr(S, c, t)        == [res |-> "err", S |-> NoChange(S, c, t)]
ROk(S2)              == [res |-> "ok", S |-> S2]
WithCur(S, c, t, cur2) == Commit(S, c, t, cur2, S.ch[c].cons, S.ch[c].frozen)

Trusted(S, c, p) == { x \in S.ch[c].cons : x < p }
UpdateGuard(S, c, p, t) ==
    /\ G_ClientActive(S, c, t)
    /\ p >= 1 /\ p <= S.ch[Cp(c)].h
    /\ Trusted(S, c, p) # {}
    /\ CpTime(S, c, MaxOf(Trusted(S, c, p))) + TP > t
DoUpdate(S, c, a, t) ==
    IF ~UpdateGuard(S, c, a.p, t) THEN RErr(S, c, t)
    ELSE LET cs == S.ch[c]
             m  == MinOf(cs.cons)
             pruned == IF CpTime(S, c, m) + TP <= t THEN cs.cons \ {m} ELSE cs.cons
         IN ROk(Commit(S, c, t, cs.cur, pruned \cup {a.p}, cs.frozen))
DoFreeze(S, c, a, t) ==
    IF ~G_ClientActive(S, c, t) THEN RErr(S, c, t)
    ELSE ROk(Commit(S, c, t, S.ch[c].cur, S.ch[c].cons, TRUE))
DoBlock(S, c, a, t) == ROk(NoChange(S, c, t))

(***************************************************************************)
(* Proof verification through a connection end                             *)
(*   cl / pfx : client identifier and counterparty prefix of the           *)
(*              connection end the verification runs through               *)
(***************************************************************************)
G_ClientIsOwn(c, cl) == cl = ClientName(c)      \* the only client that exists on c under a name of the alphabet
G_PrefixTrue(pfx)    == pfx = OwnPrefix         \* the path is built with the true prefix of the counterparty store

ConnProven(S, c, t, cl, pfx, p, cpconn, expected) ==
    /\ G_ClientIsOwn(c, cl)
    /\ CanVerify(S, c, p, t)
    /\ G_PrefixTrue(pfx)
    /\ ConnAt(ProvAt(S, c, p), cpconn) = expected

ChanProven(S, c, t, conn, p, cpport, cpchan, expected) ==
    /\ G_ClientIsOwn(c, conn.cl)
    /\ CanVerify(S, c, p, t)
    /\ G_PrefixTrue(conn.pfx)
    /\ ChanAt(ProvAt(S, c, p), cpport, cpchan) = expected

(***************************************************************************)
(* Connection handshake (03-connection/keeper/handshake.go)                *)
(***************************************************************************)
G_NotLocalhost(cl)   == cl # "localhost"
ValidClientId(cl)    == cl # ""
ValidPrefix(pfx)     == pfx # ""

\* --- ConnOpenInit:  a = [cl, cpcl, pfx, ivers (<<>> or <<v>>), delay]
ConnInitVB(a) == /\ G_NotLocalhost(a.cl) /\ ValidClientId(a.cl) /\ ValidClientId(a.cpcl) /\ ValidPrefix(a.pfx)
                 /\ Len(a.ivers) <= 1 /\ \A i \in DOMAIN a.ivers : ValidVersion(a.ivers[i])
G_InitVersionSupported(a) == Len(a.ivers) = 1 => IsSupported(Compatible, a.ivers[1])
ConnInitGuard(S, c, a, t) ==
    /\ ConnInitVB(a)
    /\ G_InitVersionSupported(a)
    /\ G_ClientIsOwn(c, a.cl) /\ G_ClientActive(S, c, t)
ConnInitEnd(a) == ConnEnd("INIT", a.cl, a.cpcl, -1, a.pfx, IF Len(a.ivers) = 1 THEN a.ivers ELSE Compatible, a.delay)
DoConnOpenInit(S, c, a, t) ==
    IF ~ConnInitGuard(S, c, a, t) THEN RErr(S, c, t)
    ELSE LET cur == S.ch[c].cur IN
         ROk(WithCur(S, c, t, [cur EXCEPT !.conns = (cur.nconn :> ConnInitEnd(a)) @@ @, !.nconn = @ + 1]))

\* --- ConnOpenTry:  a = [cl, cpcl, cpconn, pfx, cpvers, delay, ph]
ConnTryVB(a) == /\ G_NotLocalhost(a.cl) /\ ValidClientId(a.cl) /\ ValidClientId(a.cpcl) /\ ValidPrefix(a.pfx)
                /\ a.cpconn >= 0
                /\ Len(a.cpvers) >= 1 /\ \A i \in DOMAIN a.cpvers : ValidVersion(a.cpvers[i])
\* the end the initiator must have stored: INIT, same client pair, our prefix, the proposed versions, same delay
ConnTryExpected(a) == ConnEnd("INIT", a.cpcl, a.cl, -1, OwnPrefix, a.cpvers, a.delay)
G_TryProven(S, c, a, t) == ConnProven(S, c, t, a.cl, a.pfx, a.ph, a.cpconn, ConnTryExpected(a))
ConnTryGuard(S, c, a, t) ==
    /\ ConnTryVB(a)
    /\ PickVersion(Compatible, a.cpvers).ok
    /\ G_TryProven(S, c, a, t)
ConnTryEnd(a) == ConnEnd("TRYOPEN", a.cl, a.cpcl, a.cpconn, a.pfx, <<PickVersion(Compatible, a.cpvers).v>>, a.delay)
DoConnOpenTry(S, c, a, t) ==
    IF ~ConnTryGuard(S, c, a, t) THEN RErr(S, c, t)
    ELSE LET cur == S.ch[c].cur IN
         ROk(WithCur(S, c, t, [cur EXCEPT !.conns = (cur.nconn :> ConnTryEnd(a)) @@ @, !.nconn = @ + 1]))

\* --- ConnOpenAck:  a = [conn, ver, cpconn, ph]
ConnAckVB(a) == a.conn >= 0 /\ a.cpconn >= 0 /\ ValidVersion(a.ver)
ConnAckExpected(e, a) == ConnEnd("TRYOPEN", e.cpcl, e.cl, a.conn, OwnPrefix, <<a.ver>>, e.delay)
G_AckProven(S, c, e, a, t) == ConnProven(S, c, t, e.cl, e.pfx, a.ph, a.cpconn, ConnAckExpected(e, a))
ConnAckGuard(S, c, a, t) ==
    LET e == ConnAt(S.ch[c].cur, a.conn) IN
    /\ ConnAckVB(a)
    /\ e.st = "INIT"
    /\ IsSupported(e.vers, a.ver)                      \* G_AckVersionSupported
    /\ G_AckProven(S, c, e, a, t)
DoConnOpenAck(S, c, a, t) ==
    IF ~ConnAckGuard(S, c, a, t) THEN RErr(S, c, t)
    ELSE LET cur == S.ch[c].cur IN
         ROk(WithCur(S, c, t, [cur EXCEPT !.conns[a.conn] =
                                   [@ EXCEPT !.st = "OPEN", !.vers = <<a.ver>>, !.cpconn = a.cpconn]]))

\* --- ConnOpenConfirm:  a = [conn, ph]
ConnConfirmExpected(e, n) == ConnEnd("OPEN", e.cpcl, e.cl, n, OwnPrefix, e.vers, e.delay)
G_ConfirmProven(S, c, e, a, t) == ConnProven(S, c, t, e.cl, e.pfx, a.ph, e.cpconn, ConnConfirmExpected(e, a.conn))
ConnConfirmGuard(S, c, a, t) ==
    LET e == ConnAt(S.ch[c].cur, a.conn) IN
    /\ a.conn >= 0
    /\ e.st = "TRYOPEN"
    /\ G_ConfirmProven(S, c, e, a, t)
DoConnOpenConfirm(S, c, a, t) ==
    IF ~ConnConfirmGuard(S, c, a, t) THEN RErr(S, c, t)
    ELSE LET cur == S.ch[c].cur IN
         ROk(WithCur(S, c, t, [cur EXCEPT !.conns[a.conn] = [@ EXCEPT !.st = "OPEN"]]))

(***************************************************************************)
(* Channel handshake (04-channel/keeper/handshake.go + core msg server)    *)
(***************************************************************************)
ValidOrd(o)   == o \in {"ORDERED", "UNORDERED"}
OrdFeature(o) == IF o = "ORDERED" THEN ORD ELSE IF o = "UNORDERED" THEN UNORD ELSE "ORDER_NONE_UNSPECIFIED"
ValidPort(p)  == p # ""
G_Routed(p)   == p \in RoutedPorts
OneValidHop(hops) == Len(hops) = 1 /\ hops[1] >= 0
HopConn(pv, hops) == IF Len(hops) >= 1 THEN ConnAt(pv, hops[1]) ELSE NoConn

\* "single version must be negotiated on connection before opening channel" and it supports the ordering
G_SingleVersionSupportsOrder(e, ord) == Len(e.vers) = 1 /\ SupportsFeature(e.vers[1], OrdFeature(ord))

\* --- ChanOpenInit:  a = [port, ord, hops, cpport, chver]
ChanInitVB(a) == ValidPort(a.port) /\ ValidOrd(a.ord) /\ OneValidHop(a.hops) /\ ValidPort(a.cpport)
ChanInitGuard(S, c, a, t) ==
    LET e == HopConn(S.ch[c].cur, a.hops) IN
    /\ ChanInitVB(a)
    /\ G_Routed(a.port)
    /\ e.st # "NONE"
    /\ G_SingleVersionSupportsOrder(e, a.ord)
    /\ G_ClientIsOwn(c, e.cl) /\ G_ClientActive(S, c, t)
ChanInitEnd(a) == ChanEnd(a.port, "INIT", a.ord, a.cpport, -1, a.hops, IF Blank(a.chver) THEN AppVersion ELSE a.chver)
DoChanOpenInit(S, c, a, t) ==
    IF ~ChanInitGuard(S, c, a, t) THEN RErr(S, c, t)
    ELSE LET cur == S.ch[c].cur IN
         ROk(WithCur(S, c, t, [cur EXCEPT !.chans = (cur.nchan :> ChanInitEnd(a)) @@ @, !.nchan = @ + 1]))

\* --- ChanOpenTry:  a = [port, ord, hops, cpport, cpchan, cpver, ph]
ChanTryVB(a) == ValidPort(a.port) /\ ValidOrd(a.ord) /\ OneValidHop(a.hops) /\ ValidPort(a.cpport) /\ a.cpchan >= 0
ChanTryExpected(e, a) == ChanEnd(a.cpport, "INIT", a.ord, a.port, -1, <<e.cpconn>>, a.cpver)
G_ChanTryProven(S, c, e, a, t) == ChanProven(S, c, t, e, a.ph, a.cpport, a.cpchan, ChanTryExpected(e, a))
ChanTryGuard(S, c, a, t) ==
    LET e == HopConn(S.ch[c].cur, a.hops) IN
    /\ ChanTryVB(a)
    /\ G_Routed(a.port)
    /\ e.st = "OPEN"
    /\ G_SingleVersionSupportsOrder(e, a.ord)
    /\ G_ChanTryProven(S, c, e, a, t)
\* OnChanOpenTry of the application: channel versions are opaque strings to core, the application on the TRY side may
\* answer the proposal with another version, also with the empty string.  The mock application of the harness echoes
\* the proposal except for the proposals "neg:<x>", which it answers with <x>.
AppTryVersion(v) == CASE v = "neg:" -> "" [] v = "neg:v3" -> "v3" [] OTHER -> v
ChanTryEnd(a) == ChanEnd(a.port, "TRYOPEN", a.ord, a.cpport, a.cpchan, a.hops, AppTryVersion(a.cpver))
DoChanOpenTry(S, c, a, t) ==
    IF ~ChanTryGuard(S, c, a, t) THEN RErr(S, c, t)
    ELSE LET cur == S.ch[c].cur IN
         ROk(WithCur(S, c, t, [cur EXCEPT !.chans = (cur.nchan :> ChanTryEnd(a)) @@ @, !.nchan = @ + 1]))

\* --- ChanOpenAck:  a = [port, chan, cpchan, cpver, ph]
ChanAckExpected(e, ch, a) == ChanEnd(ch.cpport, "TRYOPEN", ch.ord, a.port, a.chan, <<e.cpconn>>, a.cpver)
G_ChanAckProven(S, c, e, ch, a, t) == ChanProven(S, c, t, e, a.ph, ch.cpport, a.cpchan, ChanAckExpected(e, ch, a))
ChanAckGuard(S, c, a, t) ==
    LET ch == ChanAt(S.ch[c].cur, a.port, a.chan)
        e  == HopConn(S.ch[c].cur, ch.hops) IN
    /\ ValidPort(a.port) /\ a.chan >= 0 /\ a.cpchan >= 0
    /\ G_Routed(a.port)
    /\ ch.st = "INIT"
    /\ e.st = "OPEN"
    /\ G_ChanAckProven(S, c, e, ch, a, t)
DoChanOpenAck(S, c, a, t) ==
    IF ~ChanAckGuard(S, c, a, t) THEN RErr(S, c, t)
    ELSE LET cur == S.ch[c].cur IN
         ROk(WithCur(S, c, t, [cur EXCEPT !.chans[a.chan] =
                                   [@ EXCEPT !.st = "OPEN", !.ver = a.cpver, !.cpchan = a.cpchan]]))

\* --- ChanOpenConfirm / ChanCloseConfirm:  a = [port, chan, ph]
ChanPeerExpected(st, e, ch, a) == ChanEnd(ch.cpport, st, ch.ord, a.port, a.chan, <<e.cpconn>>, ch.ver)
G_ChanPeerProven(S, c, st, e, ch, a, t) ==
    ChanProven(S, c, t, e, a.ph, ch.cpport, ch.cpchan, ChanPeerExpected(st, e, ch, a))
ChanConfirmGuard(S, c, a, t) ==
    LET ch == ChanAt(S.ch[c].cur, a.port, a.chan)
        e  == HopConn(S.ch[c].cur, ch.hops) IN
    /\ ValidPort(a.port) /\ a.chan >= 0
    /\ G_Routed(a.port)
    /\ ch.st = "TRYOPEN"
    /\ e.st = "OPEN"
    /\ G_ChanPeerProven(S, c, "OPEN", e, ch, a, t)
DoChanOpenConfirm(S, c, a, t) ==
    IF ~ChanConfirmGuard(S, c, a, t) THEN RErr(S, c, t)
    ELSE LET cur == S.ch[c].cur IN
         ROk(WithCur(S, c, t, [cur EXCEPT !.chans[a.chan] = [@ EXCEPT !.st = "OPEN"]]))

\* --- ChanCloseInit:  a = [port, chan]
ChanCloseInitGuard(S, c, a, t) ==
    LET ch == ChanAt(S.ch[c].cur, a.port, a.chan)
        e  == HopConn(S.ch[c].cur, ch.hops) IN
    /\ ValidPort(a.port) /\ a.chan >= 0
    /\ G_Routed(a.port)
    /\ ch.st \notin {"NONE", "CLOSED"}
    /\ e.st # "NONE"
    /\ G_ClientIsOwn(c, e.cl) /\ G_ClientActive(S, c, t)
    /\ e.st = "OPEN"
DoChanCloseInit(S, c, a, t) ==
    IF ~ChanCloseInitGuard(S, c, a, t) THEN RErr(S, c, t)
    ELSE LET cur == S.ch[c].cur IN
         ROk(WithCur(S, c, t, [cur EXCEPT !.chans[a.chan] = [@ EXCEPT !.st = "CLOSED"]]))

ChanCloseConfirmGuard(S, c, a, t) ==
    LET ch == ChanAt(S.ch[c].cur, a.port, a.chan)
        e  == HopConn(S.ch[c].cur, ch.hops) IN
    /\ ValidPort(a.port) /\ a.chan >= 0
    /\ G_Routed(a.port)
    /\ ch.st \notin {"NONE", "CLOSED"}
    /\ e.st = "OPEN"
    /\ G_ChanPeerProven(S, c, "CLOSED", e, ch, a, t)
DoChanCloseConfirm(S, c, a, t) ==
    IF ~ChanCloseConfirmGuard(S, c, a, t) THEN RErr(S, c, t)
    ELSE LET cur == S.ch[c].cur IN
         ROk(WithCur(S, c, t, [cur EXCEPT !.chans[a.chan] = [@ EXCEPT !.st = "CLOSED"]]))

(***************************************************************************)
(* Foreign counterparty.  C12 / C13 are promises of ONE ibc-go chain about  *)
(* its own ends, whatever the chain on the other side stores (only its      *)
(* light client is assumed honest: proofs show what that chain committed).  *)
(* ForeignConn / ForeignChan are NOT transactions of ibc-go: chain c plays  *)
(* a counterparty implementation that commits, in one block, another value  *)
(* for one of its stored ends (a version it did not intersect, a state it   *)
(* did not reach through the handshake, another ordering, ...).  The other  *)
(* chain is then relayed genuine proofs of that end.                        *)
(*   ForeignConn: a = [conn, e]   e = the connection end stored from now on *)
(*   ForeignChan: a = [chan, e]   e = the channel end (same port = same key)*)
(***************************************************************************)
ForeignMsgs == {"ForeignConn", "ForeignChan"}
NormConn(e) == ConnEnd(e.st, e.cl, e.cpcl, e.cpconn, e.pfx, e.vers, e.delay)
NormChan(e) == ChanEnd(e.port, e.st, e.ord, e.cpport, e.cpchan, e.hops, e.ver)
DoForeignConn(S, c, a, t) ==
    LET cur == S.ch[c].cur IN
    IF a.conn \notin DOMAIN cur.conns THEN RErr(S, c, t)
    ELSE ROk(WithCur(S, c, t, [cur EXCEPT !.conns[a.conn] = NormConn(a.e)]))
DoForeignChan(S, c, a, t) ==
    LET cur == S.ch[c].cur IN
    IF a.chan \notin DOMAIN cur.chans \/ ChanNo(cur, a.chan).port # a.e.port THEN RErr(S, c, t)
    ELSE ROk(WithCur(S, c, t, [cur EXCEPT !.chans[a.chan] = NormChan(a.e)]))

(***************************************************************************)
(* Step: action record a = [a |-> name, c |-> chain, dt |-> 1.., ...]      *)
(***************************************************************************)
Step(S, a) ==
    LET c == a.c  t == S.now + a.dt IN
    CASE a.a = "Block"            -> DoBlock(S, c, a, t)
      [] a.a = "Update"           -> DoUpdate(S, c, a, t)
      [] a.a = "Freeze"           -> DoFreeze(S, c, a, t)
      [] a.a = "ConnOpenInit"     -> DoConnOpenInit(S, c, a, t)
      [] a.a = "ConnOpenTry"      -> DoConnOpenTry(S, c, a, t)
      [] a.a = "ConnOpenAck"      -> DoConnOpenAck(S, c, a, t)
      [] a.a = "ConnOpenConfirm"  -> DoConnOpenConfirm(S, c, a, t)
      [] a.a = "ChanOpenInit"     -> DoChanOpenInit(S, c, a, t)
      [] a.a = "ChanOpenTry"      -> DoChanOpenTry(S, c, a, t)
      [] a.a = "ChanOpenAck"      -> DoChanOpenAck(S, c, a, t)
      [] a.a = "ChanOpenConfirm"  -> DoChanOpenConfirm(S, c, a, t)
      [] a.a = "ChanCloseInit"    -> DoChanCloseInit(S, c, a, t)
      [] a.a = "ChanCloseConfirm" -> DoChanCloseConfirm(S, c, a, t)
      [] a.a = "ForeignConn"      -> DoForeignConn(S, c, a, t)
      [] a.a = "ForeignChan"      -> DoForeignChan(S, c, a, t)

ConnMsgs == {"ConnOpenInit", "ConnOpenTry", "ConnOpenAck", "ConnOpenConfirm"}
ChanMsgs == {"ChanOpenInit", "ChanOpenTry", "ChanOpenAck", "ChanOpenConfirm", "ChanCloseInit", "ChanCloseConfirm"}

(***************************************************************************)
(* State invariants (end-to-end agreement)                                 *)
(***************************************************************************)
Cur(S, c) == S.ch[c].cur

\* C12: whenever both ends of a channel are OPEN they agree on ordering, version and each other's identifiers
ChanAgree(S, c, n) ==
    LET e == Cur(S, c).chans[n]
        f == ChanAt(Cur(S, Cp(c)), e.cpport, e.cpchan) IN
    (e.st = "OPEN" /\ f.st = "OPEN") =>
        /\ f.cpport = e.port
        /\ f.cpchan = n
        /\ f.ord = e.ord
        /\ f.ver = e.ver
        /\ Len(e.hops) = 1 /\ Len(f.hops) = 1
        /\ HopConn(Cur(S, c), e.hops).cpconn = f.hops[1]
        /\ HopConn(Cur(S, Cp(c)), f.hops).cpconn = e.hops[1]
I_ChanAgree(S) == \A c \in Chains : \A n \in DOMAIN Cur(S, c).chans : ChanAgree(S, c, n)

\* C13: two OPEN connection ends that name each other agree on client pair, prefixes, delay and the single version
ConnAgree(S, c, n) ==
    LET e == Cur(S, c).conns[n]
        f == ConnAt(Cur(S, Cp(c)), e.cpconn) IN
    (e.st = "OPEN" /\ f.st = "OPEN") =>
        /\ f.cpconn = n
        /\ f.cl = e.cpcl /\ f.cpcl = e.cl
        /\ e.pfx = OwnPrefix /\ f.pfx = OwnPrefix
        /\ f.delay = e.delay
        /\ Len(e.vers) = 1 /\ f.vers = e.vers
I_ConnAgree(S) == \A c \in Chains : \A n \in DOMAIN Cur(S, c).conns : ConnAgree(S, c, n)

\* every negotiated (TRYOPEN / OPEN) connection end carries exactly one version supported by this chain
SingleNegotiatedVersionOn(S, c) ==
    \A n \in DOMAIN Cur(S, c).conns :
        LET e == Cur(S, c).conns[n] IN
        e.st \in {"TRYOPEN", "OPEN"} => Len(e.vers) = 1 /\ IsSupported(Compatible, e.vers[1])
I_SingleNegotiatedVersion(S) == \A c \in Chains : SingleNegotiatedVersionOn(S, c)

\* design-level strengthening: an OPEN end always has a peer that went at least through TRY and names it back
I_OpenChanHasPeer(S) ==
    \A c \in Chains : \A n \in DOMAIN Cur(S, c).chans :
        LET e == Cur(S, c).chans[n]
            f == ChanAt(Cur(S, Cp(c)), e.cpport, e.cpchan) IN
        e.st = "OPEN" => f.st \in {"TRYOPEN", "OPEN", "CLOSED"} /\ f.cpchan = n /\ f.cpport = e.port /\ f.ord = e.ord /\ f.ver = e.ver
I_OpenConnHasPeer(S) ==
    \A c \in Chains : \A n \in DOMAIN Cur(S, c).conns :
        LET e == Cur(S, c).conns[n]
            f == ConnAt(Cur(S, Cp(c)), e.cpconn) IN
        e.st = "OPEN" => f.st \in {"TRYOPEN", "OPEN"} /\ f.cpconn = n /\ f.vers = e.vers /\ f.delay = e.delay

\* identifiers: the ends present are exactly those numbered below the counters (C15, history part)
I_IdsDense(S) ==
    \A c \in Chains : /\ DOMAIN Cur(S, c).conns = 0..(Cur(S, c).nconn - 1)
                      /\ DOMAIN Cur(S, c).chans = 0..(Cur(S, c).nchan - 1)

AllInvariants(S) == /\ I_ChanAgree(S) /\ I_ConnAgree(S) /\ I_SingleNegotiatedVersion(S)
                    /\ I_OpenChanHasPeer(S) /\ I_OpenConnHasPeer(S) /\ I_IdsDense(S)

(***************************************************************************)
(* Transition relations on single ends (used as action properties)         *)
(***************************************************************************)
ChanStateMove(s1, s2) == \/ s1 = s2
                         \/ s1 = "INIT" /\ s2 = "OPEN"
                         \/ s1 = "TRYOPEN" /\ s2 = "OPEN"
                         \/ s1 # "CLOSED" /\ s2 = "CLOSED"
ConnStateMove(s1, s2) == \/ s1 = s2
                         \/ s1 = "INIT" /\ s2 = "OPEN"
                         \/ s1 = "TRYOPEN" /\ s2 = "OPEN"
=============================================================================
