------------------------------ MODULE Versions ------------------------------
(***************************************************************************)
(* Connection version negotiation of ibc-go                                *)
(* (modules/core/03-connection/types/version.go), transcribed from the     *)
(* documented semantics of each function.                                  *)
(*                                                                         *)
(* A version is the record [id |-> identifier, f |-> sequence of features] *)
(* -- sequences, not sets: the stored connection end is compared byte for  *)
(* byte by the counterparty, so order and duplicates are observable.       *)
(* Used by Handshake.tla (ConnOpenInit/Try/Ack, ChanOpenInit/Try) and, as  *)
(* a function table, by Cases_Versions / Trace_Versions.                   *)
(***************************************************************************)
EXTENDS Integers, Sequences, FiniteSets

ORD   == "ORDER_ORDERED"
UNORD == "ORDER_UNORDERED"

Ver(id, f) == [id |-> id, f |-> f]

\* DefaultIBCVersion / GetCompatibleVersions(): "a descending ordered set of compatible IBC versions"
DefaultVersion == Ver("1", <<ORD, UNORD>>)
Compatible     == <<DefaultVersion>>

\* allowNilFeatureSet: "1" -> false; "any versions supported, but not included in the map default to
\* not supporting nil feature sets"
AllowNil(id) == FALSE

Elems(s)       == { s[i] : i \in DOMAIN s }
HasElem(s, x) == \E i \in DOMAIN s : s[i] = x
Blank(s)       == s \in {"", " ", "  "}              \* strings.TrimSpace(s) = ""

\* ValidateVersion: identifier not blank, no blank feature (the 100-feature limit is outside the alphabet)
ValidVersion(v) == ~Blank(v.id) /\ \A i \in DOMAIN v.f : ~Blank(v.f[i])

\* FindSupportedVersion(version, supportedVersions): "returns the version with a matching version identifier
\* if it exists" -- the first one; 0 when there is none
FindIdx(id, vs) ==
    IF \E i \in DOMAIN vs : vs[i].id = id
    THEN CHOOSE i \in DOMAIN vs : vs[i].id = id /\ \A j \in 1..(i - 1) : vs[j].id # id
    ELSE 0

\* Version.VerifyProposedVersion: "verifies that the entire feature set in the proposed version is supported by
\* this chain.  If the feature set is empty it verifies that this is allowed for the specified version identifier."
VerifyProposed(sup, prop) ==
    /\ prop.id = sup.id
    /\ (Len(prop.f) = 0 => AllowNil(prop.id))
    /\ \A i \in DOMAIN prop.f : HasElem(sup.f, prop.f[i])

\* IsSupportedVersion: "true if the proposed version has a matching version identifier and its entire feature set
\* is supported or the version identifier supports an empty feature set"
IsSupported(vs, prop) ==
    LET i == FindIdx(prop.id, vs) IN i # 0 /\ VerifyProposed(vs[i], prop)

\* VerifySupportedFeature(version, feature)
SupportsFeature(v, feat) == HasElem(v.f, feat)

\* GetFeatureSetIntersection: "iterating over all the features in the source version and seeing if they exist in
\* the feature set for the counterparty version" (order and multiplicity of the source list)
FeatInter(src, cp) == SelectSeq(src, LAMBDA x : HasElem(cp, x))

\* PickVersion: "iterates over the descending ordered set of compatible IBC versions and selects the first version
\* with a version identifier that is supported by the counterparty.  The returned version contains a feature set
\* with the intersection of the features supported by the source and counterparty chains.  If the feature set
\* intersection is nil and this is not allowed for the chosen version identifier then the search for a compatible
\* version continues."
NoVersion == Ver("", <<>>)
RECURSIVE PickFrom(_, _, _)
PickFrom(sup, cp, i) ==
    IF i > Len(sup) THEN [ok |-> FALSE, v |-> NoVersion]
    ELSE LET j == FindIdx(sup[i].id, cp) IN
         IF j = 0 THEN PickFrom(sup, cp, i + 1)
         ELSE LET fs == FeatInter(sup[i].f, cp[j].f) IN
              IF Len(fs) = 0 /\ ~AllowNil(sup[i].id) THEN PickFrom(sup, cp, i + 1)
              ELSE [ok |-> TRUE, v |-> Ver(sup[i].id, fs)]
PickVersion(sup, cp) == PickFrom(sup, cp, 1)

(***************************************************************************)
(* The contract of property C13, stated on a result (whoever computed it): *)
(* "the negotiated version is a single version whose identifier both sides *)
(* support and whose features are the intersection of both feature sets".  *)
(***************************************************************************)
Ids(vs) == { vs[i].id : i \in DOMAIN vs }
NegotiatedOk(sup, cp, v) ==
    /\ v.id \in Ids(sup) /\ v.id \in Ids(cp)
    /\ \E i \in DOMAIN sup : \E j \in DOMAIN cp :
          /\ sup[i].id = v.id /\ cp[j].id = v.id
          /\ Elems(v.f) = Elems(sup[i].f) \cap Elems(cp[j].f)
\* a negotiable pair exists: some identifier is on both lists with a usable feature intersection
Negotiable(sup, cp) ==
    \E i \in DOMAIN sup : \E j \in DOMAIN cp :
        sup[i].id = cp[j].id /\ (Elems(sup[i].f) \cap Elems(cp[j].f) # {} \/ AllowNil(sup[i].id))
=============================================================================
