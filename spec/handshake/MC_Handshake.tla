---------------------------- MODULE MC_Handshake ----------------------------
(***************************************************************************)
(* Exhaustive model check of the handshake design (2.1a of DESIGN.md).     *)
(*                                                                         *)
(* Failed transactions are state-equivalent to an empty block, so only     *)
(* successful transactions and empty blocks are expanded.  To keep the     *)
(* state graph finite and small the block/update scheduler is restricted   *)
(* (handshake messages are not): an empty block is produced only when the  *)
(* chain has state that is not provable yet, and a client is updated only  *)
(* to the counterparty's latest height and only when that height shows     *)
(* something its latest consensus state does not (older consensus states   *)
(* stay available, so stale proofs are explored).  Time is hidden by the   *)
(* VIEW (trusting period = forever in these configurations).               *)
(*                                                                         *)
(* PRE = "none": empty chains, connection handshakes (+ channel INITs).    *)
(* PRE = "conn": a connection is OPEN  A:connection-0 <-> B:connection-1   *)
(*               (B:connection-0 is a stray INIT, see witness PreConn of   *)
(*               the "none" configuration): channel handshakes.            *)
(* ADV = TRUE adds the out-of-order messages (any pair of ends in any      *)
(* state) at every height the client holds.                                *)
(***************************************************************************)
EXTENDS HandshakeActions

CONSTANTS PRE, ADV

VARIABLE S

PreA == [conns |-> (0 :> ConnEnd("OPEN", "clA", "clB", 1, OwnPrefix, <<DefaultVersion>>, 0)),
         chans |-> EmptyFn, nconn |-> 1, nchan |-> 0]
PreB == [conns |-> (0 :> ConnEnd("INIT", "clB", "clA", -1, OwnPrefix, Compatible, 0))
                   @@ (1 :> ConnEnd("OPEN", "clB", "clA", 0, OwnPrefix, <<DefaultVersion>>, 0)),
         chans |-> EmptyFn, nconn |-> 2, nchan |-> 0]
PreState == [now |-> 2, ch |-> [c \in Chains |-> InitChainWith(1, IF c = "A" THEN PreA ELSE PreB)]]

Kinds == <<"Block", "Update", "Freeze", "ConnOpenInit", "ConnOpenTry", "ConnOpenAck", "ConnOpenConfirm",
           "ChanOpenInit", "ChanOpenTry", "ChanOpenAck", "ChanOpenConfirm", "ChanCloseInit", "ChanCloseConfirm",
           "BothConnOpen", "BothChanOpen", "BothChanClosed", "CrossingConnInit", "CrossingChanInit",
           "DuplicateTry", "PreConn", "StaleProof", "OutOfOrderOk", "ChanInitOnInitConn">>
Idx(name) == CHOOSE i \in DOMAIN Kinds : Kinds[i] = name
Mark(name) == IF TLCGet(Idx(name)) = 0 THEN TLCSet(Idx(name), 1) /\ PrintT(<<"WITNESS", name>>) ELSE TRUE

\* state witnesses
BothConnOpen(T) == \E n \in DOMAIN Cur(T, "A").conns :
                      LET e == Cur(T, "A").conns[n] IN e.st = "OPEN" /\ ConnAt(Cur(T, "B"), e.cpconn).st = "OPEN"
BothChanIn(T, st) == \E n \in DOMAIN Cur(T, "A").chans :
                      LET e == Cur(T, "A").chans[n] IN e.st = st /\ ChanAt(Cur(T, "B"), e.cpport, e.cpchan).st = st
CrossingConn(T) == \A c \in Chains : ConnsIn(Cur(T, c), {"INIT"}) # {}
CrossingChan(T) == \A c \in Chains : ChansIn(Cur(T, c), {"INIT"}) # {}
DupTry(T) == \E c \in Chains : \E n, m \in ConnsIn(Cur(T, c), {"TRYOPEN", "OPEN"}) :
                 n # m /\ Cur(T, c).conns[n].cpconn = Cur(T, c).conns[m].cpconn
PreConnReached(T) == Cur(T, "A").conns = PreA.conns /\ Cur(T, "B").conns = PreB.conns

StateWitness(T, a) ==
    /\ (BothConnOpen(T) => Mark("BothConnOpen"))
    /\ (BothChanIn(T, "OPEN") => Mark("BothChanOpen"))
    /\ (BothChanIn(T, "CLOSED") => Mark("BothChanClosed"))
    /\ (CrossingConn(T) => Mark("CrossingConnInit"))
    /\ (CrossingChan(T) => Mark("CrossingChanInit"))
    /\ (DupTry(T) => Mark("DuplicateTry"))
    /\ (PreConnReached(T) => Mark("PreConn"))
    /\ (("ph" \in DOMAIN a /\ a.ph < Latest(S, a.c)) => Mark("StaleProof"))
    /\ ((a.a = "ChanOpenInit" /\ HopConn(Cur(S, a.c), a.hops).st = "INIT") => Mark("ChanInitOnInitConn"))

BlockUseful(T, c)  == T.ch[c].cur # T.ch[c].hist[T.ch[c].h]
UpdateUseful(T, c) == LET o == Cp(c)  h == T.ch[o].h IN
                      h \notin T.ch[c].cons /\ T.ch[o].hist[h] # ProvAt(T, c, Latest(T, c))

MCActs(T) ==
         { a \in BlockActs(T) : BlockUseful(T, a.c) }
    \cup { a \in UpdateActs(T, FALSE) : a.p = T.ch[Cp(a.c)].h /\ UpdateUseful(T, a.c) }
    \cup FreezeActs(T)
    \cup HonestLocal(T) \cup HonestRelay(T)

AdvActs(T) == IF ADV THEN (LooseRelay(T) \cup LooseLocal(T)) \ MCActs(T) ELSE {}

Init == /\ S = (IF PRE = "conn" THEN PreState ELSE InitState)
        /\ \A i \in DOMAIN Kinds : TLCSet(i, 0)

Next == \/ \E a \in MCActs(S) : LET r == Step(S, a) IN
             r.res = "ok" /\ S' = r.S /\ Mark(a.a) /\ StateWitness(r.S, a)
        \/ \E a \in AdvActs(S) : LET r == Step(S, a) IN
             r.res = "ok" /\ S' = r.S /\ Mark("OutOfOrderOk") /\ StateWitness(r.S, a)
Spec == Init /\ [][Next]_S

Bound == \A c \in Chains : S.ch[c].h <= MaxH

\* Heights and time do not influence the future of these configurations (TP = forever, updates only to the
\* latest height): what matters is each chain's current state, the state its next block makes provable, and
\* the SET of its states the counterparty's client can verify proofs against (plus the one its latest
\* consensus state shows).  States equal under this view are bisimilar for every property checked here.
Avail(c) == { S.ch[c].hist[IF p < 0 THEN 0 ELSE p] : p \in S.ch[Cp(c)].cons }
View == [c \in Chains |-> [cur |-> S.ch[c].cur, top |-> S.ch[c].hist[S.ch[c].h], avail |-> Avail(c),
                           shown |-> ProvAt(S, Cp(c), Latest(S, Cp(c))), frozen |-> S.ch[c].frozen]]

Inv == AllInvariants(S)

\* C12: channel ends move only along INIT->OPEN, TRYOPEN->OPEN, *->CLOSED; CLOSED is terminal; ends are never removed
ChanTransitions == [][\A c \in Chains : \A n \in DOMAIN Cur(S, c).chans :
                        /\ n \in DOMAIN Cur(S', c).chans
                        /\ ChanStateMove(Cur(S, c).chans[n].st, Cur(S', c).chans[n].st)]_S
\* C13: connection ends move only INIT->OPEN, TRYOPEN->OPEN; an OPEN end never changes again
ConnTransitions == [][\A c \in Chains : \A n \in DOMAIN Cur(S, c).conns :
                        /\ n \in DOMAIN Cur(S', c).conns
                        /\ ConnStateMove(Cur(S, c).conns[n].st, Cur(S', c).conns[n].st)
                        /\ (Cur(S, c).conns[n].st = "OPEN" => Cur(S', c).conns[n] = Cur(S, c).conns[n])]_S
\* C15 (history part): counters only grow, by one, and exactly when an end is created
CountersMonotone == [][\A c \in Chains :
                        /\ Cur(S', c).nconn \in {Cur(S, c).nconn, Cur(S, c).nconn + 1}
                        /\ Cur(S', c).nchan \in {Cur(S, c).nchan, Cur(S, c).nchan + 1}]_S
\* the static fields of a channel end never change; version / counterparty channel only on INIT -> OPEN
ChanFieldsStable == [][\A c \in Chains : \A n \in DOMAIN Cur(S, c).chans :
                        LET e == Cur(S, c).chans[n]  f == ChanNo(Cur(S', c), n) IN
                        /\ f.port = e.port /\ f.ord = e.ord /\ f.hops = e.hops /\ f.cpport = e.cpport
                        /\ (~(e.st = "INIT" /\ f.st = "OPEN") => f.ver = e.ver /\ f.cpchan = e.cpchan)]_S
=============================================================================
