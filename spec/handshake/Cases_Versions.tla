--------------------------- MODULE Cases_Versions ---------------------------
(***************************************************************************)
(* Exhaustive enumeration, by TLC, of the inputs of the version functions  *)
(* (Versions.tla): feature lists over {ORDER_ORDERED, ORDER_UNORDERED, X}  *)
(* including the empty list, duplicates and reorderings, identifiers       *)
(* {"1","2",""}, version lists of length <= 3.  The cases are written once *)
(* as ndjson; the Go driver evaluates the REAL functions on every case and *)
(* Trace_Versions compares.  While enumerating, TLC also checks that the   *)
(* transcription itself satisfies the contract of property C13 (a failure  *)
(* here is a specification bug, not a verdict).                            *)
(***************************************************************************)
EXTENDS Versions, TLC, Json

CONSTANTS TIER, OutFile

SE == INSTANCE SequencesExt

VARIABLE x

Feat == {ORD, UNORD, "X"}
SeqsUpTo(Sx, n) == UNION { [1..k -> Sx] : k \in 0..n }
IDS == {"1", "2", ""}

\* feature lists
FSmall == { <<>>, <<ORD>>, <<ORD, UNORD>>, <<UNORD, "X">> }
FQuick == SeqsUpTo(Feat, 1) \cup { <<ORD, UNORD>>, <<UNORD, ORD>>, <<ORD, "X">>, <<ORD, ORD>>, <<ORD, UNORD, "X">> }
FFull  == SeqsUpTo(Feat, 2) \cup { <<ORD, UNORD, "X">>, <<"X", UNORD, ORD>>, <<ORD, ORD, UNORD>> }
\* the 8 subsets of the three features (as lists in canonical order) + one reordering + one duplicate
FSub   == { <<>>, <<ORD>>, <<UNORD>>, <<"X">>, <<ORD, UNORD>>, <<ORD, "X">>, <<UNORD, "X">>, <<ORD, UNORD, "X">> }
F      == IF TIER = "quick" THEN FQuick ELSE FFull

Vers(Fs) == { Ver(i, f) : i \in IDS, f \in Fs }
VP == Vers(F)                                                   \* single versions
PROPS == Vers({ <<>>, <<ORD>>, <<UNORD, ORD>>, <<ORD, "X">> })  \* proposals checked against lists

\* version lists (length <= 3)
ListsQuick == SeqsUpTo(Vers(FSmall), 2)
              \cup [1..3 -> { Ver("1", <<ORD, UNORD>>), Ver("1", <<"X">>), Ver("2", <<ORD>>), Ver("", <<UNORD>>) }]
\* thorough: every list of length <= 3 over the 24 versions  {"1","2",""} x subsets of the three features,
\* plus lists of versions with duplicated / reordered features
Lists2 == SeqsUpTo(Vers(FSub), 2)
          \cup SeqsUpTo({ Ver("1", <<UNORD, ORD>>), Ver("1", <<ORD, ORD>>), Ver("2", <<ORD, ORD>>), Ver("1", <<ORD, UNORD>>) }, 3)
Lists3 == [1..3 -> Vers(FSub)]
\* local ("supported") lists of PickVersion: what a chain could offer
SupLists == SeqsUpTo({ DefaultVersion, Ver("1", <<UNORD>>), Ver("2", <<ORD, "X">>), Ver("2", <<>>) }, 2)
SupFew   == { Compatible, <<DefaultVersion, Ver("2", <<ORD, "X">>)>>, <<Ver("2", <<ORD, "X">>), Ver("1", <<UNORD>>)>> }
PropsFew == { Ver("1", <<ORD>>), Ver("1", <<UNORD, ORD>>), Ver("2", <<ORD, "X">>), Ver("", <<>>) }

\* (local list, counterparty list) pairs of PickVersion and (list, proposal) pairs of IsSupportedVersion
PickPairs == IF TIER = "quick" THEN SupLists \X ListsQuick
             ELSE (SupLists \X Lists2) \cup (SupFew \X Lists3)
SuppPairs == IF TIER = "quick" THEN ListsQuick \X PROPS
             ELSE (Lists2 \X PROPS) \cup (Lists3 \X PropsFew)

Specials == { Ver(" ", <<ORD>>), Ver("1", <<ORD, "">>), Ver("1", <<" ">>), Ver("  ", <<>>) }

Cases ==
         { [fn |-> "inter", f1 |-> a, f2 |-> b] : a \in F, b \in F }
    \cup { [fn |-> "verify", v1 |-> a, v2 |-> b] : a \in VP, b \in VP }
    \cup { [fn |-> "valid", v2 |-> a] : a \in VP \cup Specials }
    \cup { [fn |-> "feature", v2 |-> a, feat |-> b] : a \in VP, b \in Feat }
    \cup { [fn |-> "find", vs |-> a, v2 |-> b] : a \in ListsQuick, b \in PROPS }
    \cup { [fn |-> "supported", vs |-> p[1], v2 |-> p[2]] : p \in SuppPairs }
    \cup { [fn |-> "pick", vs |-> p[1], ws |-> p[2]] : p \in PickPairs }

\* the transcription satisfies the contract it is checked against (specification self-check)
SelfCheck ==
    /\ \A p \in PickPairs :
          LET r == PickVersion(p[1], p[2]) IN r.ok => NegotiatedOk(p[1], p[2], r.v) /\ Negotiable(p[1], p[2]) /\ Len(r.v.f) > 0
    /\ \A a \in F : \A b \in F : Elems(FeatInter(a, b)) = Elems(a) \cap Elems(b)
    /\ \A p \in PickPairs : PickVersion(Compatible, p[2]).ok => IsSupported(Compatible, PickVersion(Compatible, p[2]).v)

Init == /\ x = 0
        /\ Assert(SelfCheck, "Versions.tla violates its own contract")
        /\ ndJsonSerialize(OutFile, SE!SetToSeq(Cases))
        /\ PrintT(<<"CASES", Cardinality(Cases)>>)
Next == UNCHANGED x
Spec == Init /\ [][Next]_x
=============================================================================
