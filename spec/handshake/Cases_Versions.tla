--------------------------- MODULE Cases_Versions ---------------------------
(***************************************************************************)
(* Exhaustive enumeration, by TLC, of the inputs of the version functions  *)
(* (Versions.tla): feature lists over {ORDER_ORDERED, ORDER_UNORDERED, X}  *)
(* including the empty list, duplicates and reorderings, identifiers       *)
(* {"1","2",""}, version lists of length <= 3.  The cases are written once *)
(* as ndjson; the Go driver evaluates the REAL functions on every case and *)
(* Trace_Versions compares.  While enumerating, TLC also checks that the   *)
(* transcription itself satisfies the contract of property C13 (a failure  *)
(* here is a specification bug, not a verdict).                            *)
(***************************************************************************)
EXTENDS Versions, TLC, Json

CONSTANTS TIER, OutFile

SE == INSTANCE SequencesExt

VARIABLE x

Feat == {ORD, UNORD, "X"}
SeqsUpTo(Sx, n) == UNION { [1..k -> Sx] : k \in 0..n }
IDS == {"1", "2", ""}

\* feature lists
FSmall == { <<>>, <<ORD>>, <<ORD, UNORD>>, <<UNORD, "X">> }
FQuick == SeqsUpTo(Feat, 1) \cup { <<ORD, UNORD>>, <<UNORD, ORD>>, <<ORD, "X">>, <<ORD, ORD>>, <<ORD, UNORD, "X">> }
FFull  == SeqsUpTo(Feat, 2) \cup { <<ORD, UNORD, "X">>, <<"X", UNORD, ORD>>, <<ORD, ORD, UNORD>> }
\* the 8 subsets of the three features (as lists in canonical order) + one reordering + one duplicate
FSub   == { <<>>, <<ORD>>, <<UNORD>>, <<"X">>, <<ORD, UNORD>>, <<ORD, "X">>, <<UNORD, "X">>, <<ORD, UNORD, "X">> }
F      == IF TIER = "quick" THEN FQuick ELSE FFull

Vers(Fs) == { Ver(i, f) : i \in IDS, f \in Fs }
VP == Vers(F)                                                   \* single versions
PROPS == Vers({ <<>>, <<ORD>>, <<UNORD, ORD>>, <<ORD, "X">> })  \* proposals checked against lists

\* version lists (length <= 3)
ListsQuick == SeqsUpTo(Vers(FSmall), 2)
              \cup [1..3 -> { Ver("1", <<ORD, UNORD>>), Ver("1", <<"X">>), Ver("2", <<ORD>>), Ver("", <<UNORD>>) }]
ListsFull  == SeqsUpTo(Vers(FSub), 3)
              \cup SeqsUpTo({ Ver("1", <<UNORD, ORD>>), Ver("1", <<ORD, ORD>>), Ver("2", <<ORD, ORD>>), Ver("1", <<ORD, UNORD>>) }, 3)
Lists == IF TIER = "quick" THEN ListsQuick ELSE ListsFull
\* local ("supported") lists of PickVersion: what a chain could offer
SupLists == SeqsUpTo({ DefaultVersion, Ver("1", <<UNORD>>), Ver("2", <<ORD, "X">>), Ver("2", <<>>) }, 2)

Specials == { Ver(" ", <<ORD>>), Ver("1", <<ORD, "">>), Ver("1", <<" ">>), Ver("  ", <<>>) }

Cases ==
         { [fn |-> "inter", f1 |-> a, f2 |-> b] : a \in F, b \in F }
    \cup { [fn |-> "verify", v1 |-> a, v2 |-> b] : a \in VP, b \in VP }
    \cup { [fn |-> "valid", v2 |-> a] : a \in VP \cup Specials }
    \cup { [fn |-> "feature", v2 |-> a, feat |-> b] : a \in VP, b \in Feat }
    \cup { [fn |-> "find", vs |-> a, v2 |-> b] : a \in ListsQuick, b \in PROPS }
    \cup { [fn |-> "supported", vs |-> a, v2 |-> b] : a \in Lists, b \in PROPS }
    \cup { [fn |-> "pick", vs |-> a, ws |-> b] : a \in SupLists, b \in Lists }

\* the transcription satisfies the contract it is checked against (specification self-check)
SelfCheck ==
    /\ \A a \in SupLists : \A b \in Lists :
          LET r == PickVersion(a, b) IN r.ok => NegotiatedOk(a, b, r.v) /\ Negotiable(a, b) /\ Len(r.v.f) > 0
    /\ \A a \in F : \A b \in F : Elems(FeatInter(a, b)) = Elems(a) \cap Elems(b)
    /\ \A b \in Lists : PickVersion(Compatible, b).ok => IsSupported(Compatible, PickVersion(Compatible, b).v)

Init == /\ x = 0
        /\ Assert(SelfCheck, "Versions.tla violates its own contract")
        /\ ndJsonSerialize(OutFile, SE!SetToSeq(Cases))
        /\ PrintT(<<"CASES", Cardinality(Cases)>>)
Next == UNCHANGED x
Spec == Init /\ [][Next]_x
=============================================================================
