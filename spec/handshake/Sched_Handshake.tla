--------------------------- MODULE Sched_Handshake ---------------------------
(***************************************************************************)
(* Behaviour generation (2.1b of DESIGN.md): random walks of the           *)
(* specification, run with  tlc -simulate.  Each walk is written as one    *)
(* JSON schedule and later executed against the real chains.               *)
(*                                                                         *)
(* A walk is a sequence of PLANS:                                          *)
(*  - full handshakes driven by an honest relayer (INIT, then for each of  *)
(*    TRY / ACK / CONFIRM: block on the proving chain, client update to    *)
(*    that block, message with the proof at that height),                  *)
(*  - single relay steps of the same shape for any pending end (this is    *)
(*    what interleaves handshakes, crosses INITs and duplicates TRYs),     *)
(*  - the same relay step with ONE FIELD of the message replaced (wrong    *)
(*    identifier / version / ordering / hops / port / client / prefix /    *)
(*    delay / proof height) followed by the correct message,               *)
(*  - single actions: honest ones that succeed, or adversarial ones        *)
(*    (stale and unknown proof heights, steps out of order, mutations,     *)
(*    steps through a frozen or expired client).                           *)
(* Every successful handshake message is re-submitted once its plan is     *)
(* through (a successful re-submitted INIT / TRY creates a second end).     *)
(***************************************************************************)
EXTENDS HandshakeActions, Json

CONSTANTS Depth, OutDir, HONEST_PCT, FULL_PCT, MACRO_PCT, MUT_PCT, OOO_PCT

SE == INSTANCE SequencesExt

VARIABLES S, sched, todo

Init == S = InitState /\ sched = <<>> /\ todo = <<>>

Blk(c, d) == [a |-> "Block", c |-> c, dt |-> d]
Upd(c, p) == [a |-> "Update", c |-> c, dt |-> 1, p |-> p]

RECURSIVE Run(_, _)
Run(S0, plan) == IF plan = <<>> THEN S0 ELSE Run(Step(S0, Head(plan)).S, Tail(plan))

(***************************************************************************)
(* Relay macros: block on the prover, update to it, message at that height *)
(***************************************************************************)
StepMacrosOf(S0, c) ==
    LET o == Cp(c)  h == S0.ch[o].h + 1 IN
    { <<Blk(o, 1), Upd(c, h), m>> : m \in RelayActs(S0, c, S0.ch[o].cur, h, TRUE) }
StepMacros(S0) == UNION { StepMacrosOf(S0, c) : c \in Chains }

\* the same, with one field of the message wrong; the correct message follows.  The message, then the field, then
\* the wrong value are drawn one after the other (each draw bound once), so every FIELD is equally likely however
\* large its alphabet is.
AlphOther(S0, a, f) == Alph(S0, a.c, f) \ {a[f]}
MutOf(S0, a) ==
    UNION { { [a EXCEPT ![f] = v] : v \in { RandomElement(AlphOther(S0, a, f)) } } : f \in { RandomElement(MutFields(a)) } }
\* up to three mutants of a message, in (up to) three different fields
Mut3Of(S0, a) ==
    UNION { { [a EXCEPT ![f] = v] : v \in { RandomElement(AlphOther(S0, a, f)) } }
            : f \in { RandomElement(MutFields(a)), RandomElement(MutFields(a)), RandomElement(MutFields(a)) } }
MutMacros(S0) ==
    IF StepMacros(S0) = {} THEN {} ELSE
    { <<pl[1], pl[2]>> \o SE!SetToSeq(Mut3Of(S0, pl[3])) \o <<pl[3]>> : pl \in { RandomElement(StepMacros(S0)) } }
\* a single mutated message (with the proof heights the client holds, no fresh block)
MutOneAct(S0) ==
    IF MutBase(S0) = {} THEN {} ELSE UNION { MutOf(S0, a) : a \in { RandomElement(MutBase(S0)) } }

\* steps out of order with a fresh proof: the right counterparty end, but the own end is in the wrong state
\* (ack / confirm / close-confirm after the end was closed or already opened)
LinkedMacros(S0) ==
    UNION { LET o == Cp(c)  h == S0.ch[o].h + 1 IN
            { <<Blk(o, 1), Upd(c, h), m>> : m \in LinkedActs(S0, c, S0.ch[o].cur, h) } : c \in Chains }

\* close the own end first, then try to continue its opening handshake with a fresh proof (CLOSED is terminal)
CloseFirstMacros(S0) ==
    IF ~CLOSE THEN {} ELSE
    { <<[a |-> "ChanCloseInit", c |-> pl[3].c, dt |-> 1, port |-> pl[3].port, chan |-> pl[3].chan]>> \o pl
      : pl \in { q \in StepMacros(S0) : q[3].a \in {"ChanOpenAck", "ChanOpenConfirm"} } }

MacroFor(S0, c, P(_)) ==
    LET cands == { pl \in StepMacrosOf(S0, c) : P(pl[3]) } IN
    IF cands = {} THEN <<>> ELSE CHOOSE pl \in cands : TRUE

FullConn(S0, c, init) ==
    LET d  == Cp(c)
        n0 == Cur(S0, c).nconn
        p1 == <<init>>
        S1 == Run(S0, p1)
        m0 == Cur(S1, d).nconn
        p2 == MacroFor(S1, d, LAMBDA m : m.a = "ConnOpenTry" /\ m.cpconn = n0)
        S2 == Run(S1, p2)
        p3 == MacroFor(S2, c, LAMBDA m : m.a = "ConnOpenAck" /\ m.conn = n0 /\ m.cpconn = m0)
        S3 == Run(S2, p3)
        p4 == MacroFor(S3, d, LAMBDA m : m.a = "ConnOpenConfirm" /\ m.conn = m0)
    IN p1 \o p2 \o p3 \o p4

FullChan(S0, c, init) ==
    LET d  == Cp(c)
        n0 == Cur(S0, c).nchan
        p1 == <<init>>
        S1 == Run(S0, p1)
        m0 == Cur(S1, d).nchan
        p2 == MacroFor(S1, d, LAMBDA m : m.a = "ChanOpenTry" /\ m.cpchan = n0)
        S2 == Run(S1, p2)
        p3 == MacroFor(S2, c, LAMBDA m : m.a = "ChanOpenAck" /\ m.chan = n0 /\ m.cpchan = m0)
        S3 == Run(S2, p3)
        p4 == MacroFor(S3, d, LAMBDA m : m.a = "ChanOpenConfirm" /\ m.chan = m0)
    IN p1 \o p2 \o p3 \o p4

OpenConns(S0, c) == ConnsIn(Cur(S0, c), {"OPEN"})
\* connection handshakes while there is no OPEN connection (or sometimes anyway), channel handshakes over OPEN ones
FullMacros(S0, k) ==
    UNION { (IF OpenConns(S0, c) = {} \/ k % 5 = 0
             THEN { FullConn(S0, c, i) : i \in Acts(c, "ConnOpenInit", ConnInitR(S0, c)) } ELSE {})
            \cup { FullChan(S0, c, i) : i \in { j \in Acts(c, "ChanOpenInit", ChanInitR(S0, c)) : j.hops[1] \in OpenConns(S0, c) } }
          : c \in Chains }

\* closing macro: close an OPEN end, prove it to the other side
CloseMacros(S0) ==
    UNION { { <<i>> \o MacroFor(Run(S0, <<i>>), Cp(c), LAMBDA m : m.a = "ChanCloseConfirm"
                                                           /\ Cur(S0, Cp(c)).chans[m.chan].cpchan = i.chan)
              : i \in { j \in Acts(c, "ChanCloseInit", ChanCloseInitR(S0, c, TRUE)) : Cur(S0, c).chans[j.chan].st = "OPEN" } }
          : c \in Chains }

(***************************************************************************)
(* Single actions                                                          *)
(***************************************************************************)
OkActs(S0, pool) == { a \in pool : Step(S0, a).res = "ok" }

HonestWeights == <<"Block", "Update", "Update", "Local", "Local", "Relay", "Relay", "Relay", "Relay", "Freeze">>
HonestClass(S0, cls, late) ==
    CASE cls = "Block"  -> BlockActs(S0)
      [] cls = "Update" -> UpdateActs(S0, FALSE)
      [] cls = "Local"  -> HonestLocal(S0)
      [] cls = "Relay"  -> HonestRelay(S0)
      [] cls = "Freeze" -> IF late THEN FreezeActs(S0) ELSE {}

AdvWeights == <<"DupUpdate", "AnyHeight", "AnyHeight", "Loose", "Linked", "LooseLocal", "Mut", "Mut", "Mut", "Linked">>
AdvClass(S0, cls) ==
    CASE cls = "DupUpdate"  -> UpdateActs(S0, TRUE)
      [] cls = "AnyHeight"  -> AnyHeightRelay(S0)
      [] cls = "Loose"      -> LooseRelay(S0)
      [] cls = "Linked"     -> LinkedRelay(S0)
      [] cls = "LooseLocal" -> LooseLocal(S0)
      [] cls = "Mut"        -> MutOneAct(S0)

\* NOTE: every random draw is bound exactly once through a set binder (never through LET).
Pick(S0) ==
    CHOOSE x \in UNION { UNION { UNION { UNION { UNION {
        { IF roll <= HONEST_PCT
          THEN (IF hs # {} THEN RandomElement(hs) ELSE IF fb # {} THEN RandomElement(fb) ELSE blk)
          ELSE (IF adv # {} THEN RandomElement(adv) ELSE blk) }
        : adv \in { IF roll <= HONEST_PCT THEN {} ELSE AdvClass(S0, AdvWeights[k]) } }
        : fb \in { IF roll <= HONEST_PCT /\ hs = {} THEN OkActs(S0, HonestLocal(S0) \cup HonestRelay(S0)) ELSE {} } }
        : hs \in { IF roll <= HONEST_PCT
                   THEN OkActs(S0, HonestClass(S0, HonestWeights[k], 2 * Len(sched) > Depth /\ roll % 2 = 0)) ELSE {} } }
        : blk \in { RandomElement(BlockActs(S0)) } }
        : k \in { RandomElement(1..10) }, roll \in { RandomElement(1..100) } } : TRUE

Bounded(S0) == \A c \in Chains : S0.ch[c].h <= MaxH

IsHandshakeMsg(a) == a.a \in ConnMsgs \cup ChanMsgs
\* after a successful freeze: the steps that would otherwise succeed on that chain are attempted through the frozen client
FrozenProbes(S1, c) ==
    LET loc == LocalActs(S1, c, TRUE)
        rel == RelayActs(S1, c, ProvAt(S1, c, Latest(S1, c)), Latest(S1, c), TRUE) IN
    (IF loc # {} THEN <<RandomElement(loc)>> ELSE <<>>) \o (IF rel # {} THEN <<RandomElement(rel)>> ELSE <<>>)
    \o (IF S1.ch[Cp(c)].h >= 1 THEN <<Upd(c, S1.ch[Cp(c)].h)>> ELSE <<>>)
Follow(S0, a, r) == IF r.res = "ok" /\ IsHandshakeMsg(a) /\ "fu" \notin DOMAIN a
                    THEN <<[x \in (DOMAIN a) \cup {"fu"} |-> IF x = "fu" THEN TRUE ELSE a[x]]>>
                    ELSE IF r.res = "ok" /\ a.a = "Freeze" THEN FrozenProbes(r.S, a.c)
                    ELSE <<>>

\* Warm-up: three walks out of four start with a full connection handshake (the fourth with crossing INITs), and
\* half of them continue with a full channel handshake once a connection is OPEN, so that the later (random) part of
\* the walk also explores opened / closing channels.
NoChans(S0) == \A c \in Chains : DOMAIN Cur(S0, c).chans = {}
Warmup(S0, k) ==
    IF Len(sched) = 0 /\ k % 4 = 0        \* one walk out of four starts with crossing connection INITs
    THEN { <<i, j>> : i \in Acts("A", "ConnOpenInit", ConnInitR(S0, "A")), j \in Acts("B", "ConnOpenInit", ConnInitR(S0, "B")) }
    ELSE IF Len(sched) = 0
    THEN UNION { { FullConn(S0, c, i) : i \in Acts(c, "ConnOpenInit", ConnInitR(S0, c)) } : c \in Chains }
    ELSE IF Len(sched) > 0 /\ Len(sched) <= 20 /\ k % 2 = 1 /\ NoChans(S0)
    THEN UNION { { FullChan(S0, c, i) : i \in { j \in Acts(c, "ChanOpenInit", ChanInitR(S0, c)) : j.hops[1] \in OpenConns(S0, c) } }
                 : c \in Chains }
    ELSE {}

\* the set of plans offered for this draw (empty: take a single action)
PlanSet(S0, roll, k) ==
    IF Warmup(S0, k) # {} THEN Warmup(S0, k)
    ELSE IF roll <= FULL_PCT THEN (IF CLOSE /\ k % 3 = 1 /\ CloseMacros(S0) # {} THEN CloseMacros(S0)
                                   ELSE { pl \in FullMacros(S0, k) : pl # <<>> })
    ELSE IF roll <= FULL_PCT + MACRO_PCT THEN StepMacros(S0)
    ELSE IF roll <= FULL_PCT + MACRO_PCT + MUT_PCT THEN MutMacros(S0)
    ELSE IF roll <= FULL_PCT + MACRO_PCT + MUT_PCT + OOO_PCT
         THEN (IF k % 2 = 0 /\ CloseFirstMacros(S0) # {} THEN CloseFirstMacros(S0) ELSE LinkedMacros(S0))
    ELSE {}

Next ==
    /\ Len(sched) < Depth
    /\ Bounded(S)
    /\ \E roll \in { RandomElement(1..100) } : \E k \in { RandomElement(1..20) } :
       \E ms \in { IF todo = <<>> THEN PlanSet(S, roll, k) ELSE {} } :
       \E plan \in { IF todo # <<>> THEN todo ELSE IF ms # {} THEN RandomElement(ms) ELSE <<Pick(S)>> } :
       LET a == Head(plan)
           r == Step(S, a)
       IN /\ S' = r.S
          /\ sched' = Append(sched, a)
          /\ todo' = Tail(plan) \o Follow(S, a, r)      \* re-submissions after the plan: plans predict heights
          /\ (Len(sched') = Depth \/ ~Bounded(r.S)) =>
                JsonSerialize(OutDir \o "/s" \o ToString(TLCGet("stats").traces) \o "_" \o ToString(RandomElement(1..1000000)) \o ".json",
                              [kind |-> "HS", tp |-> TP, acts |-> sched'])

Spec == Init /\ [][Next]_<<S, sched, todo>>
=============================================================================
