--------------------------- MODULE Trace_Versions ---------------------------
(***************************************************************************)
(* Function-table conformance of the real version functions of ibc-go      *)
(* (03-connection/types/version.go) with Versions.tla.  Every line of the  *)
(* table holds an enumerated input and what the REAL function returned.    *)
(* Clauses "…-contract" state property C13 literally on the real result;   *)
(* clauses "…-table" compare with the transcription of the documented      *)
(* semantics.  Same MONFAIL protocol as the trace specifications.          *)
(***************************************************************************)
EXTENDS Versions, TLC, Json

CONSTANT TraceFile

Table == ndJsonDeserialize(TraceFile)

VARIABLE x

Flag(name, bad) == { name : y \in IF bad THEN {1} ELSE {} }

Check(ln) ==
    LET i == ln.in  o == ln.out IN
    CASE i.fn = "inter" ->
              Flag(<<"C13", "features-are-the-intersection-contract">>, Elems(o.f) # Elems(i.f1) \cap Elems(i.f2))
         \cup Flag(<<"C13", "GetFeatureSetIntersection-table">>, o.f # FeatInter(i.f1, i.f2))
      [] i.fn = "verify" ->
              Flag(<<"C13", "VerifyProposedVersion-table">>, o.ok # VerifyProposed(i.v1, i.v2))
      [] i.fn = "valid" ->
              Flag(<<"C13", "ValidateVersion-table">>, o.ok # ValidVersion(i.v2))
      [] i.fn = "feature" ->
              Flag(<<"C13", "VerifySupportedFeature-table">>, o.ok # SupportsFeature(i.v2, i.feat))
      [] i.fn = "find" ->
              Flag(<<"C13", "FindSupportedVersion-table">>, o.idx # FindIdx(i.v2.id, i.vs))
      [] i.fn = "supported" ->
              Flag(<<"C13", "supported-version-has-listed-id-and-listed-features-contract">>,
                   o.ok /\ ~(\E k \in DOMAIN i.vs : i.vs[k].id = i.v2.id /\ Elems(i.v2.f) \subseteq Elems(i.vs[k].f)))
         \cup Flag(<<"C13", "IsSupportedVersion-table">>, o.ok # IsSupported(i.vs, i.v2))
      [] i.fn = "pick" ->
              Flag(<<"C13", "negotiated-id-in-both-lists-features-intersection-contract">>,
                   o.ok /\ ~NegotiatedOk(i.vs, i.ws, o.v))
         \cup Flag(<<"C13", "negotiation-fails-only-without-common-usable-version-contract">>,
                   ~o.ok /\ PickVersion(i.vs, i.ws).ok /\ Len(i.vs) <= 1)
         \cup Flag(<<"C13", "PickVersion-table">>,
                   LET e == PickVersion(i.vs, i.ws) IN ~(o.ok = e.ok /\ (e.ok => o.v = e.v)))
      [] OTHER -> {<<"X", "unknown-function">>}

Init == /\ x = 0
        /\ \A k \in DOMAIN Table :
              \A v \in (IF "panic" \in DOMAIN Table[k].out THEN {<<"C13", "version-function-panicked">>} ELSE Check(Table[k])) :
                  PrintT(<<"MONFAIL", Table[k].tr, Table[k].i, v>>)
        /\ PrintT(<<"CONSUMED", Len(Table)>>)
Next == UNCHANGED x
TraceSpec == Init /\ [][Next]_x
=============================================================================
