-------------------------- MODULE HandshakeActions --------------------------
(***************************************************************************)
(* Candidate actions of the environment (relayers, block production) in a  *)
(* state S of Handshake.                                                   *)
(*  Honest(S): messages a correct relayer builds from what the counterparty*)
(*    state really shows at a height the light client holds (this already  *)
(*    includes crossing INITs and duplicate TRYs: nothing stops two        *)
(*    relayers).                                                           *)
(*  Adversarial(S): the same messages at stale / unknown proof heights,    *)
(*    steps out of order (any pair of ends in any state), and one-field    *)
(*    mutations: wrong identifiers, client names, prefix, delay, versions, *)
(*    ordering, hops, ports, channel version.                              *)
(***************************************************************************)
EXTENDS Handshake

CONSTANTS MaxH,      \* bound on every chain height
          MaxConn,   \* connection attempts (identifiers) per chain
          MaxChan,   \* channel attempts per chain
          DTS,       \* admissible time increments per block
          FREEZE,    \* TRUE: misbehaviour may be submitted
          CLOSE,     \* TRUE: channels may be closed
          IVERS,     \* version choices of ConnOpenInit, names from {"none","OU","U","O","UO"}
          DELAYS,    \* delay periods offered to ConnOpenInit
          ORDS,      \* orderings offered to ChanOpenInit
          CHVERS,    \* application versions offered to ChanOpenInit
          PORTS      \* (own, counterparty) ports offered to ChanOpenInit, subset of RoutedPorts

VerByName(n) == CASE n = "none" -> <<>>
                  [] n = "OU"   -> <<Ver("1", <<ORD, UNORD>>)>>
                  [] n = "U"    -> <<Ver("1", <<UNORD>>)>>
                  [] n = "O"    -> <<Ver("1", <<ORD>>)>>
                  [] n = "UO"   -> <<Ver("1", <<UNORD, ORD>>)>>

Merge(b, r) == [x \in (DOMAIN b) \cup (DOMAIN r) |-> IF x \in DOMAIN r THEN r[x] ELSE b[x]]
Base(c, name) == { [a |-> name, c |-> c, dt |-> d] : d \in DTS }
Acts(c, name, R) == { Merge(b, r) : b \in Base(c, name), r \in R }

ConnsIn(pv, sts) == { n \in DOMAIN pv.conns : pv.conns[n].st \in sts }
ChansIn(pv, sts) == { n \in DOMAIN pv.chans : pv.chans[n].st \in sts }
AnySt == {"INIT", "TRYOPEN", "OPEN", "CLOSED"}
FirstVer(e) == IF Len(e.vers) >= 1 THEN e.vers[1] ELSE DefaultVersion

(***************************************************************************)
(* Message builders.  c = acting chain, pv = what the counterparty's state *)
(* shows at proof height p.                                                *)
(*  own = TRUE : only for own ends in the state the step requires          *)
(*  cp  = TRUE : only for counterparty ends in the required state that are *)
(*               linked to the own end (name it as their counterparty)     *)
(* (TRUE, TRUE)  = what a correct relayer sends;                           *)
(* (FALSE, TRUE) = right counterparty end, own end in ANY state (acks and  *)
(*                 confirms after closing / opening, repeated steps);      *)
(* (FALSE, FALSE)= any pair of ends in any state (steps out of order).     *)
(***************************************************************************)
ConnInitR(S, c) ==
    IF Cur(S, c).nconn >= MaxConn THEN {} ELSE
    { [cl |-> ClientName(c), cpcl |-> ClientName(Cp(c)), pfx |-> OwnPrefix, ivers |-> VerByName(v), delay |-> d]
      : v \in IVERS, d \in DELAYS }

ConnTryR(S, c, pv, p, own, cp) ==
    IF Cur(S, c).nconn >= MaxConn THEN {} ELSE
    { [cl |-> pv.conns[n].cpcl, cpcl |-> pv.conns[n].cl, cpconn |-> n, pfx |-> OwnPrefix,
       cpvers |-> pv.conns[n].vers, delay |-> pv.conns[n].delay, ph |-> p]
      : n \in ConnsIn(pv, IF cp THEN {"INIT"} ELSE AnySt) }

ConnAckR(S, c, pv, p, own, cp) ==
    { [conn |-> x[1], ver |-> FirstVer(pv.conns[x[2]]), cpconn |-> x[2], ph |-> p]
      : x \in { y \in ConnsIn(Cur(S, c), IF own THEN {"INIT"} ELSE AnySt)
                      \X ConnsIn(pv, IF cp THEN {"TRYOPEN"} ELSE AnySt) :
                cp => pv.conns[y[2]].cpconn = y[1] } }

ConnConfirmR(S, c, pv, p, own, cp) ==
    { [conn |-> n, ph |-> p]
      : n \in { m \in ConnsIn(Cur(S, c), IF own THEN {"TRYOPEN"} ELSE AnySt) :
                cp => LET f == ConnAt(pv, Cur(S, c).conns[m].cpconn) IN f.st = "OPEN" /\ f.cpconn = m } }

ChanInitR(S, c) ==
    IF Cur(S, c).nchan >= MaxChan THEN {} ELSE
    { [port |-> pp[1], ord |-> o, hops |-> <<n>>, cpport |-> pp[2], chver |-> v]
      : n \in DOMAIN Cur(S, c).conns, o \in ORDS, v \in CHVERS, pp \in PORTS \X PORTS }

ChanTryR(S, c, pv, p, own, cp) ==
    IF Cur(S, c).nchan >= MaxChan THEN {} ELSE
    { [port |-> pv.chans[x[2]].cpport, ord |-> pv.chans[x[2]].ord, hops |-> <<x[1]>>, cpport |-> pv.chans[x[2]].port, cpchan |-> x[2],
       cpver |-> pv.chans[x[2]].ver, ph |-> p]
      : x \in { y \in (DOMAIN Cur(S, c).conns) \X ChansIn(pv, IF cp THEN {"INIT"} ELSE AnySt) :
                cp => pv.chans[y[2]].hops = <<Cur(S, c).conns[y[1]].cpconn>> } }

ChanAckR(S, c, pv, p, own, cp) ==
    { [port |-> Cur(S, c).chans[x[1]].port, chan |-> x[1], cpchan |-> x[2], cpver |-> pv.chans[x[2]].ver, ph |-> p]
      : x \in { y \in ChansIn(Cur(S, c), IF own THEN {"INIT"} ELSE AnySt)
                      \X ChansIn(pv, IF cp THEN {"TRYOPEN"} ELSE AnySt) :
                cp => pv.chans[y[2]].cpchan = y[1] /\ pv.chans[y[2]].port = Cur(S, c).chans[y[1]].cpport } }

ChanConfirmR(S, c, pv, p, own, cp) ==
    { [port |-> Cur(S, c).chans[n].port, chan |-> n, ph |-> p]
      : n \in { m \in ChansIn(Cur(S, c), IF own THEN {"TRYOPEN"} ELSE AnySt) :
                cp => LET f == ChanAt(pv, Cur(S, c).chans[m].cpport, Cur(S, c).chans[m].cpchan) IN f.st = "OPEN" /\ f.cpchan = m } }

ChanCloseInitR(S, c, own) ==
    IF ~CLOSE THEN {} ELSE
    { [port |-> Cur(S, c).chans[n].port, chan |-> n] : n \in ChansIn(Cur(S, c), IF own THEN {"INIT", "TRYOPEN", "OPEN"} ELSE AnySt) }

ChanCloseConfirmR(S, c, pv, p, own, cp) ==
    IF ~CLOSE THEN {} ELSE
    { [port |-> Cur(S, c).chans[n].port, chan |-> n, ph |-> p]
      : n \in { m \in ChansIn(Cur(S, c), IF own THEN {"INIT", "TRYOPEN", "OPEN"} ELSE AnySt) :
                cp => ChanAt(pv, Cur(S, c).chans[m].cpport, Cur(S, c).chans[m].cpchan).st = "CLOSED" } }

\* all relay messages of chain c built from pv at claimed height p
RelayActs2(S, c, pv, p, own, cp) ==
         Acts(c, "ConnOpenTry", ConnTryR(S, c, pv, p, own, cp))
    \cup Acts(c, "ConnOpenAck", ConnAckR(S, c, pv, p, own, cp))
    \cup Acts(c, "ConnOpenConfirm", ConnConfirmR(S, c, pv, p, own, cp))
    \cup Acts(c, "ChanOpenTry", ChanTryR(S, c, pv, p, own, cp))
    \cup Acts(c, "ChanOpenAck", ChanAckR(S, c, pv, p, own, cp))
    \cup Acts(c, "ChanOpenConfirm", ChanConfirmR(S, c, pv, p, own, cp))
    \cup Acts(c, "ChanCloseConfirm", ChanCloseConfirmR(S, c, pv, p, own, cp))
RelayActs(S, c, pv, p, strict) == RelayActs2(S, c, pv, p, strict, strict)
\* right counterparty end, own end in the wrong state
LinkedActs(S, c, pv, p) == RelayActs2(S, c, pv, p, FALSE, TRUE) \ RelayActs2(S, c, pv, p, TRUE, TRUE)

LocalActs(S, c, strict) ==
         Acts(c, "ConnOpenInit", ConnInitR(S, c))
    \cup Acts(c, "ChanOpenInit", ChanInitR(S, c))
    \cup Acts(c, "ChanCloseInit", ChanCloseInitR(S, c, strict))

BlockActs(S)  == UNION { Base(c, "Block") : c \in Chains }
UpdateActs(S, dup) == UNION { Acts(c, "Update", { [p |-> p] : p \in { q \in 1..S.ch[Cp(c)].h : dup \/ q \notin S.ch[c].cons } })
                              : c \in Chains }
FreezeActs(S) == IF FREEZE THEN UNION { Base(c, "Freeze") : c \in Chains } ELSE {}

HonestRelay(S) == UNION { UNION { RelayActs(S, c, ProvAt(S, c, p), p, TRUE) : p \in S.ch[c].cons } : c \in Chains }
HonestLocal(S) == UNION { LocalActs(S, c, TRUE) : c \in Chains }

Honest(S) == BlockActs(S) \cup UpdateActs(S, FALSE) \cup FreezeActs(S) \cup HonestLocal(S) \cup HonestRelay(S)

(***************************************************************************)
(* Adversarial extension                                                   *)
(***************************************************************************)
AllHeights(S, c) == 0..(S.ch[Cp(c)].h + 1)

\* correct messages at stale / never verified heights
AnyHeightRelay(S) == UNION { UNION { RelayActs(S, c, ProvAt(S, c, p), p, TRUE) : p \in AllHeights(S, c) } : c \in Chains }
\* right counterparty end but own end in the wrong state, at heights the client holds
LinkedRelay(S)    == UNION { UNION { LinkedActs(S, c, ProvAt(S, c, p), p) : p \in S.ch[c].cons } : c \in Chains }
\* steps out of order, at heights the client holds
LooseRelay(S)     == UNION { UNION { RelayActs(S, c, ProvAt(S, c, p), p, FALSE) : p \in S.ch[c].cons } : c \in Chains }
LooseLocal(S)     == UNION { LocalActs(S, c, FALSE) : c \in Chains }

VersionPool == { DefaultVersion, Ver("1", <<UNORD>>), Ver("1", <<ORD>>), Ver("1", <<UNORD, ORD>>), Ver("1", <<ORD, "X">>),
                 Ver("1", <<>>), Ver("2", <<ORD, UNORD>>), Ver("", <<ORD>>), Ver("1", <<ORD, "">>), Ver("1", <<ORD, ORD>>) }
VersionLists == { <<v>> : v \in VersionPool }
                \cup { <<>>, <<Ver("2", <<ORD, UNORD>>), DefaultVersion>>, <<Ver("1", <<UNORD>>), DefaultVersion>>,
                       <<DefaultVersion, DefaultVersion>>, <<Ver("1", <<"X">>), Ver("1", <<ORD>>)>> }

\* alphabet of a message field
Alph(S, c, f) ==
    CASE f = "cl"     -> {"clA", "clB", "clX", "localhost", ""}
      [] f = "cpcl"   -> {"clA", "clB", "clX", ""}
      [] f = "pfx"    -> {"ibc", "bad", ""}
      [] f = "ivers"  -> {<<>>} \cup { <<v>> : v \in VersionPool }
      [] f = "cpvers" -> VersionLists
      [] f = "ver"    -> VersionPool
      [] f = "delay"  -> {0, 1, 2}
      [] f \in {"conn", "cpconn", "chan", "cpchan"} -> -1..3
      [] f = "ord"    -> {"ORDERED", "UNORDERED", "NONE"}
      [] f = "hops"   -> {<<>>, <<0>>, <<1>>, <<2>>, <<0, 1>>, <<-1>>}
      [] f \in {"port", "cpport"} -> {"mock", "mock2", "nowhere", ""}
      [] f \in {"chver", "cpver"} -> {"", "mock-version", "v2", "neg:", "neg:v3", "v3"}
      [] f \in {"ph", "p"} -> AllHeights(S, c)

MutFields(a) == (DOMAIN a) \ {"a", "c", "dt"}
Mutants(S, a) == { [a EXCEPT ![x[1]] = x[2]] : x \in UNION { {f} \X Alph(S, a.c, f) : f \in MutFields(a) } } \ {a}

\* the messages one-field mutations are applied to
MutBase(S) == HonestLocal(S) \cup HonestRelay(S)
MutActs(S) == UNION { Mutants(S, a) : a \in MutBase(S) }

Adversarial(S) == UpdateActs(S, TRUE) \cup AnyHeightRelay(S) \cup LinkedRelay(S) \cup LooseRelay(S) \cup LooseLocal(S) \cup MutActs(S)
=============================================================================
