---------------------------- MODULE MC_TMClient ----------------------------
(***************************************************************************)
(* Exhaustive model check of the light-client design (DESIGN.md 2.1a).     *)
(* Rejected transactions only advance time / host height, so only          *)
(* successful transactions and empty blocks are expanded; that every       *)
(* single-attribute mutation of an acceptable header is rejected and that  *)
(* the code-level acceptance condition implies the stated one is checked   *)
(* as a state predicate over the whole candidate set of every state.       *)
(***************************************************************************)
EXTENDS TMActions

CONSTANTS MaxHH,     \* bound on host blocks
          DTS,       \* time increments per block
          ROOTIDS,   \* plain app hashes
          NVS,       \* next-validator sets a header may announce
          VSS,       \* own validator sets of non-adjacent headers
          PLANS,     \* upgrade plan variants the counterparty commits
          SUBDIFFS,  \* parameter differences of the second client
          MISB,      \* TRUE: misbehaviour messages are explored
          MAXCL      \* number of clients (1: only the subject; 2: a second client is created with a parameter difference)

VARIABLES S, last

Kinds == <<"create", "tick", "store", "dup", "freeze-conflict", "freeze-time", "prune", "gapfill",
           "misb-freeze", "misb-noconflict", "recover-frozen", "recover-expired", "upgrade", "upgrade-scaled", "revision1-update">>
Idx(name) == CHOOSE i \in DOMAIN Kinds : Kinds[i] = name
Wit(name) == IF TLCGet(Idx(name)) = 0 THEN TLCSet(Idx(name), 1) /\ PrintT(<<"WITNESS", name>>) ELSE TRUE

RootsFor(ts) == { PlainRoot(x) : x \in ROOTIDS } \cup { PlanRoot(v, ts) : v \in PLANS }

UpdCands(S0, i, d) ==
    LET c == S0.cl[i] IN
    UNION { { UpdAct(i, d, hd) : hd \in GoodHdrs(c, Heights(c.par.rev), {ts}, RootsFor(ts), VSS, NVS) } : ts \in 1..MaxT }

\* misbehaviour: two fully signed headers trusted at stored heights
MisbCands(S0, i, d) ==
    IF ~MISB THEN {} ELSE
    LET c == S0.cl[i]
        hs == GoodHdrs(c, Heights(c.par.rev), 1..MaxT, { PlainRoot(x) : x \in ROOTIDS }, {"V"}, {"V"})
    IN { MisbAct(i, d, x[1], x[2]) : x \in { y \in hs \X hs : HLE(y[2].h, y[1].h) } }

Cands(S0) ==
    UNION { UNION { UpdCands(S0, i, d) \cup MisbCands(S0, i, d)
                    \cup { UpgAct(i, d, v, v, "own", "none") : v \in PLANS }
                    \cup { RecAct(i, j, d) : j \in TMClients(S0) }
                  : i \in TMClients(S0) }
            \cup { TickAct(d) }
            \cup (IF Len(S0.cl) < MAXCL
                  THEN { CreateAct(d, ParDiff(StdPar, f), <<0, k>>, ts, "r1", "V") : f \in SUBDIFFS, k \in 1..NH, ts \in 1..MaxT }
                  ELSE {})
          : d \in DTS }

Witness(S0, a, r) ==
    CASE a.a = "Create" -> Wit("create")
      [] a.a = "Tick"   -> Wit("tick")
      [] a.a = "Update" ->
           LET c == S0.cl[a.c]  c2 == r.S.cl[a.c]  o == UpdateOutcome(c, a.hd) IN
           /\ (o = "dup" => Wit("dup"))
           /\ (o = "freeze" /\ a.hd.h \in DOMAIN c.cons => Wit("freeze-conflict"))
           /\ (o = "freeze" /\ a.hd.h \notin DOMAIN c.cons => Wit("freeze-time"))
           /\ (o = "store" => Wit("store"))
           /\ (o = "store" /\ HLT(a.hd.h, c.latest) => Wit("gapfill"))
           /\ (o = "store" /\ a.hd.h[1] = 1 => Wit("revision1-update"))
           /\ (~((DOMAIN c.cons) \subseteq (DOMAIN c2.cons)) => Wit("prune"))
      [] a.a = "Misb"   -> IF r.S.cl[a.c].frozen THEN Wit("misb-freeze") ELSE Wit("misb-noconflict")
      [] a.a = "Recover" -> IF S0.cl[a.c].frozen THEN Wit("recover-frozen") ELSE Wit("recover-expired")
      [] a.a = "Upgrade" -> Wit("upgrade") /\ (r.S.cl[a.c].par.tp # S0.cl[a.c].par.tp => Wit("upgrade-scaled"))

Init == /\ S = Step(InitState, CreateAct(1, StdPar, <<0, 1>>, 1, "r1", "V")).S
        /\ last = [a |-> "Init"]
        /\ \A i \in DOMAIN Kinds : TLCSet(i, 0)

Next == \E a \in Cands(S) : LET r == Step(S, a) IN
            /\ r.res = "ok" /\ S' = r.S /\ last' = a /\ Witness(S, a, r)

Spec == Init /\ [][Next]_<<S, last>>

Bound == S.now <= MaxT /\ S.hh <= MaxHH
View == S      \* the last action is a history variable only

(***************************************************************************)
(* Invariants                                                              *)
(***************************************************************************)
Inv == \A i \in 1..Len(S.cl) : ClientInv(S.cl[i])

\* every single-attribute mutation of an acceptable header is rejected, for updates and inside misbehaviour
MutantsRejected ==
    \A i \in TMClients(S) : \A d \in DTS : \A u \in UpdCands(S, i, d) :
        LET c == S.cl[i]  t == S.now + d IN
        (Status(c, t) = "Active" /\ VerifyHeader(c, u.hd, t)) =>
            \A k \in MutKinds : LET m == Mut(c, u.hd, t, k) IN
                /\ ~VerifyHeader(c, m, t) /\ ~HeaderOK(c, m, t)
                /\ (k # "rev" /\ k # "ts-le" /\ k # "ts-future" => ~MisbHeaderLib(c, m, t) /\ ~MisbHeaderOK(c, m, t))

\* the code-level acceptance condition implies the condition the property states, except in the
\* adjacent-header class when the client's trust level exceeds 2/3
LibImpliesStated ==
    \A i \in TMClients(S) : \A d \in DTS : \A u \in UpdCands(S, i, d) : \A k \in MutKinds \cup {"none"} :
        LET c == S.cl[i]  t == S.now + d
            m == IF k = "none" THEN u.hd ELSE Mut(c, u.hd, t, k) IN
        /\ (VerifyHeader(c, m, t) => HeaderOK(c, m, t) \/ AdjacentBelowLevel(c, m))
        /\ (MisbHeaderLib(c, m, t) => MisbHeaderOK(c, m, t))
        /\ (AdjacentBelowLevel(c, m) => 3 * c.par.lvl[1] > 2 * c.par.lvl[2])

(***************************************************************************)
(* Action properties                                                       *)
(***************************************************************************)
Both(i) == i \in 1..Len(S.cl) /\ i \in 1..Len(S'.cl)

\* C20: a stored consensus state never changes; it disappears only when expired
NoOverwrite == [][\A i \in 1..Len(S.cl) : \A h \in DOMAIN S.cl[i].cons :
                    \/ h \in DOMAIN S'.cl[i].cons /\ S'.cl[i].cons[h] = S.cl[i].cons[h]
                    \/ h \notin DOMAIN S'.cl[i].cons /\ Expired(S.cl[i].cons[h].ts, S.cl[i].par.tp, S'.now)]_<<S, last>>

\* C22: only an update removes consensus states, and only the oldest one
PruneOnlyOldest == [][\A i \in 1..Len(S.cl) :
                    LET gone == (DOMAIN S.cl[i].cons) \ (DOMAIN S'.cl[i].cons) IN
                    gone # {} => /\ last'.a = "Update" /\ last'.c = i
                                 /\ gone = {HMin(DOMAIN S.cl[i].cons)}]_<<S, last>>

\* C23: a consensus state stored by an update lies strictly between its neighbours in time
UpdateKeepsOrder == [][last'.a = "Update" =>
                    LET c == S'.cl[last'.c]  h == last'.hd.h IN
                    (h \notin DOMAIN S.cl[last'.c].cons /\ h \in DOMAIN c.cons) => TimeFits(c, h, c.cons[h].ts)]_<<S, last>>

\* C21: latest height never decreases; C24: a client is frozen only by update / misbehaviour, unfrozen only by recovery
LatestMonotone == [][\A i \in 1..Len(S.cl) : HLE(S.cl[i].latest, S'.cl[i].latest)]_<<S, last>>
FreezeOnlyByEvidence == [][\A i \in 1..Len(S.cl) :
                    /\ (~S.cl[i].frozen /\ S'.cl[i].frozen => last'.a \in {"Update", "Misb"} /\ last'.c = i)
                    /\ (S.cl[i].frozen /\ ~S'.cl[i].frozen => last'.a = "Recover" /\ last'.c = i)]_<<S, last>>

\* C25: recovery and upgrade change only their subject
OnlySubject == [][last'.a \in {"Update", "Misb", "Recover", "Upgrade"} =>
                    \A i \in 1..Len(S.cl) : i # last'.c => S'.cl[i] = S.cl[i]]_<<S, last>>
=============================================================================
