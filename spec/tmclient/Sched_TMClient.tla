--------------------------- MODULE Sched_TMClient ---------------------------
(***************************************************************************)
(* Behaviour generation (DESIGN.md 2.1b): random walks of TMClient run     *)
(* with  tlc -simulate.  Every walk becomes one JSON schedule that the Go  *)
(* driver executes on the real code.  A walk starts with the creation of   *)
(* a subject, a substitute, a bystander and a solo machine client and then *)
(* alternates goal-directed macros (store / gap-fill / duplicate /         *)
(* conflicting header / neighbour-time violation / misbehaviour / recover  *)
(* / upgrade), boundary macros (time exactly at the trusting period, at    *)
(* the clock drift, prune exactly-expired, header time equal to a          *)
(* neighbour's) and adversarial noise (single-attribute header mutations,  *)
(* arbitrary recover pairs, unproven upgrades).                            *)
(* All random draws of a step are taken ONCE into the vector rv.           *)
(***************************************************************************)
EXTENDS TMActions, Json, SequencesExt

CONSTANTS Depth, OutDir, SUBDIFF,
          LAYOUT    \* height layout the harness realises the height indices with ("slash" | "dec", see Cases_TMClient)

VARIABLES S, sched, todo

Sel(X, r) == LET s == SetToSeq(X) IN s[(r % Len(s)) + 1]
Clamp(x, lo, hi) == IF x < lo THEN lo ELSE IF x > hi THEN hi ELSE x
HMinInt(X) == CHOOSE x \in X : \A y \in X : x <= y
HMaxInt(X) == CHOOSE x \in X : \A y \in X : y <= x

RootOf(r, ts) == CASE r % 8 = 0 -> PlanRoot("up", ts)
                   [] r % 8 = 1 -> PlanRoot(Sel(PlanVariants, r \div 8), ts)
                   [] OTHER     -> PlainRoot(Sel({"r1", "r2", "r3"}, r \div 8))
VsOf(r) == Sel({"V", "V", "W", "U"}, r)
NvOf(r) == IF r % 4 = 0 THEN "W" ELSE IF r % 11 = 0 THEN "U" ELSE "V"

Prelude == << CreateAct(1, StdPar, <<0, 1>>, 1, "r1", "V"),
              CreateAct(0, ParDiff(StdPar, SUBDIFF), <<0, 1>>, 1, "r1", "V"),
              CreateAct(0, StdPar, <<0, 2>>, 1, "r2", "V"),
              [a |-> "CreateSolo", dt |-> 0] >>

Init == S = InitState /\ sched = <<>> /\ todo = Prelude

Live(S0, t)   == { i \in TMClients(S0) : Status(S0.cl[i], t) = "Active" }
Subjects(S0)  == TMClients(S0) \ {3}                \* the bystander is never the target of a generated message

\* header for client c built on trusted height th
Hdr(c, h, th, ts, r1, r2, r3) ==
    GoodHdr(h, th, ts, RootOf(r1, ts), (IF Adjacent(th, h) THEN c.cons[th].nv ELSE VsOf(r2)), NvOf(r3), c.cons[th].nv)

FreshTrusted(c, h, t) == { x \in TrustedFor(c, h) : ~Expired(c.cons[x].ts, c.par.tp, t) }

\* times strictly between the neighbours of h, after the trusted time and not in the future
FitTimes(c, h, th, t) ==
    LET lo == (IF HasPrev(c, h) THEN PrevCS(c, h).ts ELSE 0) + 1
        hi == IF HasNext(c, h) THEN NextCS(c, h).ts - 1 ELSE t + c.par.drift - 1
    IN { x \in lo..hi : x > c.cons[th].ts /\ x < t + c.par.drift /\ x >= 1 }

(***************************************************************************)
(* Macros: sequences of actions computed from the current state            *)
(***************************************************************************)
\* store a new height (above the latest or filling a gap), time fitting
MStore(S0, i, d, rv, gap) ==
    LET c == S0.cl[i]  t == S0.now + d
        hs == { h \in Heights(c.par.rev) : h \notin DOMAIN c.cons /\ FreshTrusted(c, h, t) # {}
                                           /\ (gap => HLT(h, c.latest)) /\ (~gap => HLT(c.latest, h)) }
    IN IF hs = {} THEN <<>> ELSE
       LET h  == IF ~gap /\ rv[2] % 5 # 0 THEN HMin(hs) ELSE Sel(hs, rv[2])
           th == Sel(FreshTrusted(c, h, t), rv[3])
           ft == FitTimes(c, h, th, t)
       IN IF ft = {} THEN <<>>
          ELSE << UpdAct(i, d, Hdr(c, h, th, (IF gap THEN Sel(ft, rv[4]) ELSE Clamp(t - (rv[4] % 2), HMinInt(ft), HMaxInt(ft))), rv[5], rv[6], rv[7])) >>

\* resubmit a stored header (same consensus state) or a conflicting one
MStored(S0, i, d, rv, conflict) ==
    LET c == S0.cl[i]  t == S0.now + d
        hs == { h \in DOMAIN c.cons : FreshTrusted(c, h, t) # {} }
    IN IF hs = {} THEN <<>> ELSE
       LET h  == Sel(hs, rv[2])
           th == Sel(FreshTrusted(c, h, t), rv[3])
           cs == c.cons[h]
           g  == GoodHdr(h, th, cs.ts, cs.root, (IF Adjacent(th, h) THEN c.cons[th].nv ELSE "V"), cs.nv, c.cons[th].nv)
           k  == rv[4] % 3
           m  == IF ~conflict THEN g
                 ELSE IF k = 0 THEN [g EXCEPT !.root = PlainRoot(IF @.v = "r9" THEN "r8" ELSE "r9")]
                 ELSE IF k = 1 THEN [g EXCEPT !.ts = IF @ + 1 < t + c.par.drift THEN @ + 1 ELSE @ - 1]
                 ELSE [g EXCEPT !.nv = OtherVS(@)]
       IN << UpdAct(i, d, m) >>

\* a new height whose time is NOT strictly between its neighbours (k: 0 equal to previous, 1 below previous,
\* 2 equal to next, 3 above next)
MBadTime(S0, i, d, rv) ==
    LET c == S0.cl[i]  t == S0.now + d
        hs == { h \in Heights(c.par.rev) : h \notin DOMAIN c.cons /\ FreshTrusted(c, h, t) # {} /\ (HasNext(c, h) \/ HasPrev(c, h)) }
    IN IF hs = {} THEN <<>> ELSE
       LET h  == Sel(hs, rv[2])
           th == Sel(FreshTrusted(c, h, t), rv[3])
           k  == rv[4] % 4
           ts == IF k >= 2 /\ HasNext(c, h) THEN NextCS(c, h).ts + (k - 2)
                 ELSE IF HasPrev(c, h) THEN PrevCS(c, h).ts - (k % 2) ELSE NextCS(c, h).ts
       IN IF ts < 1 THEN <<>> ELSE << UpdAct(i, d, Hdr(c, h, th, ts, rv[5], rv[6], rv[7])) >>

\* one attribute of an otherwise acceptable header mutated
MMutant(S0, i, d, rv) ==
    LET c == S0.cl[i]  t == S0.now + d
        base == MStore(S0, i, d, rv, rv[8] % 3 = 0)
    IN IF base = <<>> THEN <<>>
       ELSE << UpdAct(i, d, Mut(c, base[1].hd, t, Sel(MutKinds, rv[1] \div 7))) >>

\* boundary: the update is executed when the trusted (latest) state is k ticks before its expiry
\* (k = 1: last moment, accepted; k = 0: exactly expired, rejected)
MExpiryEdge(S0, i, rv) ==
    LET c == S0.cl[i]  k == rv[2] % 2
        t == c.cons[c.latest].ts + c.par.tp - k
    IN IF c.latest \notin DOMAIN c.cons \/ t < S0.now \/ t > MaxT THEN <<>>
       ELSE LET hs == { h \in Heights(c.par.rev) : HLT(c.latest, h) } IN
            IF hs = {} THEN <<>>
            ELSE << UpdAct(i, t - S0.now, Hdr(c, Sel(hs, rv[3]), c.latest, t, rv[5], rv[6], rv[7])) >>

\* boundary: header time k ticks below now + drift (k = 1 accepted, k = 0 rejected)
MDriftEdge(S0, i, d, rv) ==
    LET c == S0.cl[i]  t == S0.now + d  k == rv[2] % 2
        hs == { h \in Heights(c.par.rev) : HLT(c.latest, h) }
    IN IF hs = {} \/ c.latest \notin DOMAIN c.cons THEN <<>>
       ELSE << UpdAct(i, d, Hdr(c, Sel(hs, rv[3]), c.latest, t + c.par.drift - k, rv[5], rv[6], rv[7])) >>

WithDt(seq, d) == IF seq = <<>> THEN <<>> ELSE << [seq[1] EXCEPT !.dt = d] >>

\* boundary: update at the moment the OLDEST consensus state is k ticks before expiry (k = 0: pruned, 1: kept)
MPruneEdge(S0, i, rv) ==
    LET c == S0.cl[i]  k == rv[2] % 2 IN
    IF Cardinality(DOMAIN c.cons) < 2 THEN <<>> ELSE
    LET m == HMin(DOMAIN c.cons)
        t == c.cons[m].ts + c.par.tp - k
    IN IF t < S0.now \/ t > MaxT THEN <<>>
       ELSE LET S1 == [S0 EXCEPT !.now = t]
                s1 == MStore(S1, i, 0, rv, FALSE)
                s2 == MStore(S1, i, 0, rv, TRUE)
            IN IF s1 # <<>> THEN WithDt(s1, t - S0.now) ELSE WithDt(s2, t - S0.now)

\* boundary: trusted state expired but the client still Active
MTrustedExpired(S0, i, rv) ==
    LET c == S0.cl[i] IN
    IF Cardinality(DOMAIN c.cons) < 2 \/ c.latest \notin DOMAIN c.cons THEN <<>> ELSE
    LET ths == { x \in DOMAIN c.cons : x # c.latest /\ c.cons[x].ts < c.cons[c.latest].ts /\ x[1] = c.par.rev }
    IN IF ths = {} THEN <<>> ELSE
       LET th == Sel(ths, rv[2])
           t  == c.cons[th].ts + c.par.tp
           hs == { h \in Heights(c.par.rev) : HLT(th, h) /\ h \notin DOMAIN c.cons }
       IN IF t < S0.now \/ t > MaxT \/ hs = {} THEN <<>>
          ELSE << UpdAct(i, t - S0.now, Hdr(c, Sel(hs, rv[3]), th, t, rv[5], rv[6], rv[7])) >>

\* misbehaviour: k = 0 fork at one height, 1 time violation across heights, 2 identical headers (no conflict),
\* 3 ordered headers (no conflict), 4 a mutated header, 5 header1 below header2, 6 the same mutation in both headers
MMisb(S0, i, d, rv) ==
    LET c == S0.cl[i]  t == S0.now + d  k == rv[2] % 7
        ths == { x \in DOMAIN c.cons : ~Expired(c.cons[x].ts, c.par.tp, t) }
    IN IF ths = {} THEN <<>> ELSE
       LET th == Sel(ths, rv[3])
           hs == { h \in Heights(th[1]) : HLT(th, h) }
       IN IF Cardinality(hs) < 2 THEN <<>> ELSE
          LET hA == Sel(hs, rv[4])
              hB == Sel(hs \ {hA}, rv[5])
              hi == IF HLT(hA, hB) THEN hB ELSE hA
              lo == IF HLT(hA, hB) THEN hA ELSE hB
              tt == c.cons[th].ts + 1 + (rv[6] % 3)
              g(h, ts, rt) == GoodHdr(h, th, ts, PlainRoot(rt), "V", "V", c.cons[th].nv)
          IN CASE k = 0 -> << MisbAct(i, d, g(hi, tt, "r1"), g(hi, tt, "r2")) >>
               [] k = 1 -> << MisbAct(i, d, g(hi, tt, "r1"), g(lo, tt + (rv[7] % 2), "r1")) >>
               [] k = 2 -> << MisbAct(i, d, g(hi, tt, "r1"), g(hi, tt, "r1")) >>
               [] k = 3 -> << MisbAct(i, d, g(hi, tt + 1, "r1"), g(lo, tt, "r1")) >>
               [] k = 4 -> << MisbAct(i, d, Mut(c, g(hi, tt, "r1"), t, Sel(MutKinds, rv[7])), g(hi, tt, "r2")) >>
               [] k = 5 -> << MisbAct(i, d, g(lo, tt, "r1"), g(hi, tt, "r2")) >>
               [] k = 6 -> << MisbAct(i, d, Mut(c, g(hi, tt, "r1"), t, Sel(MutKinds, rv[7])), Mut(c, g(hi, tt, "r2"), t, Sel(MutKinds, rv[7]))) >>

\* recovery of subject i with substitute j: make the subject non-Active (k = 0 freeze by a conflicting header,
\* 1 let it expire while the substitute is refreshed), lift the substitute above it, recover
MRecover(S0, i, j, rv) ==
    LET ci == S0.cl[i]  k == rv[2] % 2 IN
    IF i = j \/ ci.latest \notin DOMAIN ci.cons THEN <<>> ELSE
    LET a1 == IF k = 0 THEN MStored(S0, i, 0, rv, TRUE) ELSE <<>>
        S1 == IF a1 = <<>> THEN S0 ELSE Step(S0, a1[1]).S
        \* refresh / lift the substitute
        t2 == IF k = 0 THEN S1.now ELSE ci.cons[ci.latest].ts + ci.par.tp - 1
        S1b == [S1 EXCEPT !.now = IF t2 > S1.now THEN t2 ELSE S1.now]
        cj == S1b.cl[j]
        hs == { h \in Heights(cj.par.rev) : HLT(ci.latest, h) /\ HLT(cj.latest, h) }
    IN IF hs = {} \/ cj.latest \notin DOMAIN cj.cons \/ S1b.now > MaxT THEN a1 ELSE
       LET ts2 == IF S1b.now > cj.cons[cj.latest].ts THEN S1b.now ELSE cj.cons[cj.latest].ts + 1
           a2 == UpdAct(j, S1b.now - S1.now, Hdr(cj, Sel(hs, rv[3]), cj.latest, ts2, 2, 0, 1))
           a3 == RecAct(i, j, IF k = 0 THEN rv[4] % 2 ELSE 1 + (rv[4] % 2))
           \* afterwards (every second time): a header below / next to the recovered consensus state whose time is
           \* not strictly between its neighbours -- the recovered state is a neighbour like any other
           S3 == Step(Step(S1, a2).S, a3).S
       IN a1 \o << a2, a3 >> \o (IF rv[6] % 2 = 0 /\ i \in Live(S3, S3.now) THEN MBadTime(S3, i, 0, rv) ELSE <<>>)

\* upgrade of client i with plan variant v: update to a new latest height whose root is the plan snapshot, upgrade
MUpgrade(S0, i, d, rv) ==
    LET c == S0.cl[i]  t == S0.now + d
        v == Sel(PlanVariants, rv[2])
        hs == { h \in Heights(c.par.rev) : HLT(c.latest, h) }
    IN IF hs = {} \/ c.latest \notin DOMAIN c.cons \/ Expired(c.cons[c.latest].ts, c.par.tp, t) THEN <<>> ELSE
       LET h  == HMin(hs)
           ts == IF t > c.cons[c.latest].ts THEN t ELSE c.cons[c.latest].ts + 1
           hd == GoodHdr(h, c.latest, ts, PlanRoot(v, ts), (IF Adjacent(c.latest, h) THEN c.cons[c.latest].nv ELSE "V"), "V", c.cons[c.latest].nv)
           k  == rv[3] % 8
           up == CASE k = 0 -> UpgAct(i, 0, v, Sel(PlanVariants \ {v}, rv[4]), "own", "none")   \* proofs of another plan
                   [] k = 1 -> UpgAct(i, 0, v, v, "own", Sel({"cproof", "sproof"}, rv[4]))       \* a mutated proof
                   [] k = 2 -> UpgAct(i, 0, Sel(PlanVariants \ {v}, rv[4]), v, "own", "none")     \* another client than proven
                   [] OTHER -> UpgAct(i, 0, v, v, Sel({"own", "evil"}, rv[4]), "none")
       IN IF ts >= t + c.par.drift THEN <<>> ELSE
          << UpdAct(i, d, hd), up >> \o (IF k <= 2 THEN << UpgAct(i, 0, v, v, "evil", "none") >> ELSE <<>>)

(***************************************************************************)
(* Choice                                                                  *)
(***************************************************************************)
Noise(S0, rv) ==
    LET n == Len(S0.cl)  k == rv[2] % 6  d == rv[3] % 2 IN
    CASE k = 0 -> << RecAct(1 + (rv[4] % (n + 1)), 1 + (rv[5] % (n + 1)), d) >>
      [] k = 1 -> << UpgAct(1 + (rv[4] % n), d, Sel(PlanVariants, rv[5]), Sel(PlanVariants, rv[6]), "own", "none") >>
      [] k = 2 -> << TickAct(1 + (rv[4] % 4)) >>
      [] k = 3 -> << CreateAct(d, ParDiff(StdPar, Sel(MustMatch \cup MayDiffer, rv[4])), <<IF rv[4] % 5 = 0 THEN 1 ELSE 0, 1 + (rv[5] % NH)>>,
                               Clamp(S0.now - (rv[6] % (TP + 2)), 1, S0.now + 1), "r1", NvOf(rv[7])) >>
      [] k = 4 -> << CreateAct(d, [StdPar EXCEPT !.tp = UBD0 - 2 * (rv[4] % 2)], <<0, 1>>, S0.now, "r1", "V") >>
      [] k = 5 -> << TickAct(0) >>

Plan(S0, rv) ==
    LET t    == S0.now
        live == Live(S0, t) \cap Subjects(S0)
        i    == IF live = {} THEN 1 ELSE Sel(live, rv[1])
        d    == IF rv[8] % 4 = 0 THEN 1 ELSE 0
        w    == rv[1] % 100
        subj == Subjects(S0)
    IN IF live = {} THEN
            \* nothing alive: recover somebody with an Active substitute, create a fresh client, or noise
            LET dead == { x \in subj : Status(S0.cl[x], t) # "Active" } IN
            IF dead # {} /\ Live(S0, t) # {} /\ w < 30 THEN << RecAct(Sel(dead, rv[2]), Sel(Live(S0, t), rv[3]), 0) >>
            ELSE IF w < 80 THEN << CreateAct(d, StdPar, <<0, 1 + (rv[5] % 2)>>, Clamp(S0.now, 1, S0.now + 1), "r1", "V") >>
            ELSE Noise(S0, rv)
       ELSE CASE w < 30 -> MStore(S0, i, d, rv, FALSE)
              [] w < 40 -> MStore(S0, i, d, rv, TRUE)
              [] w < 48 -> MStored(S0, i, d, rv, FALSE)
              [] w < 51 -> MStored(S0, i, d, rv, TRUE)
              [] w < 54 -> MBadTime(S0, i, d, rv)
              [] w < 64 -> MMutant(S0, i, d, rv)
              [] w < 67 -> MExpiryEdge(S0, i, rv)
              [] w < 71 -> MDriftEdge(S0, i, d, rv)
              [] w < 76 -> MPruneEdge(S0, i, rv)
              [] w < 79 -> MTrustedExpired(S0, i, rv)
              [] w < 84 -> MMisb(S0, i, d, rv)
              [] w < 90 -> MRecover(S0, Sel(subj, rv[1] \div 100), Sel(subj, rv[5]), rv)
              [] w < 95 -> MUpgrade(S0, i, d, rv)
              [] OTHER  -> Noise(S0, rv)

\* when the drawn macro does not apply: store something, else let time pass
Fallback(S0, rv) ==
    LET live == Live(S0, S0.now) \cap Subjects(S0) IN
    IF live = {} THEN << TickAct(1) >>
    ELSE LET i  == Sel(live, rv[7])
             s1 == MStore(S0, i, 0, rv, FALSE)
             s2 == MStore(S0, i, 0, rv, TRUE)
         IN IF s1 # <<>> THEN s1 ELSE IF s2 # <<>> THEN s2 ELSE << TickAct(1) >>

Choose(S0, rv) == LET p == Plan(S0, rv) IN IF p # <<>> THEN p ELSE Fallback(S0, rv)

Bounded(S0) == S0.now <= MaxT

Next ==
    /\ Len(sched) < Depth
    /\ Bounded(S)
    /\ \E rv \in { [k \in 1..8 |-> RandomElement(0..9999)] } :
       \E plan \in { IF todo # <<>> THEN todo
                     ELSE Choose(S, rv) } :
       LET a == Head(plan)
           r == Step(S, a)
       IN /\ S' = r.S
          /\ sched' = Append(sched, a)
          /\ todo' = Tail(plan)
          /\ (Len(sched') = Depth \/ ~Bounded(r.S)) =>
                JsonSerialize(OutDir \o "/s" \o ToString(TLCGet("stats").traces) \o "_" \o ToString(RandomElement(1..1000000)) \o ".json",
                              [ubd0 |-> UBD0, lay |-> LAYOUT, acts |-> sched'])

Spec == Init /\ [][Next]_<<S, sched, todo>>
=============================================================================
