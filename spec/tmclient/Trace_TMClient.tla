--------------------------- MODULE Trace_TMClient ---------------------------
(***************************************************************************)
(* Validation of traces recorded from the real ibc-go code against         *)
(* TMClient.  Every trace line carries the action (verbatim from the       *)
(* schedule), the result class of the transaction (ok | err | panic) and   *)
(* the full projection of every client store of the run after the step     *)
(* (consensus states, processed time/height, iteration keys in raw store   *)
(* order, client state parameters, Status(), LatestHeight, the answers of  *)
(* GetNext/GetPreviousConsensusState for every probe height, a digest of   *)
(* the raw client store) plus the set of IBC-store namespaces whose bytes  *)
(* changed.  The specification state is rebuilt from the logged values,    *)
(* the specification's own operators are evaluated on (pre, action) and    *)
(* every false monitor is printed as                                       *)
(*     <<"MONFAIL", trace id, step, <<property, clause>>>>                 *)
(* "X" entries are harness sanity checks, "CONF" is full conformance with  *)
(* Step (diagnostic), "C21" entries are diagnostics of the packet family's *)
(* property.                                                               *)
(***************************************************************************)
EXTENDS TMClient, Json, SequencesExt

CONSTANT TraceFile

Trace == ndJsonDeserialize(TraceFile)

VARIABLES l, S, obs

SetOf(arr) == { arr[i] : i \in DOMAIN arr }
MapOf(arr) == [ k \in { arr[i].k : i \in DOMAIN arr } |-> arr[CHOOSE i \in DOMAIN arr : arr[i].k = k].v ]

ClientOf(j) == [type |-> j.type, cons |-> MapOf(j.cons), pt |-> MapOf(j.pt), ph |-> MapOf(j.ph), iter |-> SetOf(j.iter),
                latest |-> j.latest, frozen |-> j.frozen, par |-> j.par]
StateOf(st) == [now |-> st.now, hh |-> st.hh, cl |-> [i \in DOMAIN st.cl |-> ClientOf(st.cl[i])]]
ObsOf(st)   == [i \in DOMAIN st.cl |-> [status |-> st.cl[i].status, iter |-> st.cl[i].iter, itv |-> st.cl[i].itv,
                                        stray |-> st.cl[i].stray, nx |-> st.cl[i].nx, pv |-> st.cl[i].pv,
                                        dig |-> st.cl[i].dig, llat |-> st.cl[i].llat]]

NormHdr(hd) == [hd EXCEPT !.sg = SetOf(@)]
Norm(a) == IF a.a = "Update" THEN [a EXCEPT !.hd = NormHdr(@)]
           ELSE IF a.a = "Misb" THEN [a EXCEPT !.h1 = NormHdr(@), !.h2 = NormHdr(@)]
           ELSE a

Flag(p, c, bad) == IF bad THEN {<<p, c>>} ELSE {}

(***************************************************************************)
(* Monitors                                                                *)
(***************************************************************************)
Viol(pre, a, r, post, O1, O2, diff) ==
  LET t   == pre.now + a.dt
      n1  == Len(pre.cl)
      n2  == Len(post.cl)
      TMs == { i \in 1..n1 : i <= n2 /\ pre.cl[i].type = "07" /\ post.cl[i].type = "07" }
      Same(i)  == i <= n1 /\ i <= n2 /\ post.cl[i] = pre.cl[i] /\ O2[i].dig = O1[i].dig
      AllSame  == n1 = n2 /\ (\A i \in 1..n1 : Same(i)) /\ diff = {}
      Rejected == r # "ok"
      Targets  == a.a \in {"Update", "Misb", "Recover", "Upgrade"}
      i0  == IF Targets THEN a.c ELSE 0
      HasT == Targets /\ i0 \in TMs
      c   == IF HasT THEN pre.cl[i0] ELSE SoloClient
      c2  == IF HasT THEN post.cl[i0] ELSE SoloClient
      OnlySubject == /\ n1 = n2 /\ (\A j \in 1..n1 : j # i0 => Same(j)) /\ diff \subseteq {ToString(i0)}
      E   == Step(pre, a)
      \* ---------------- update
      IsUpd == a.a = "Update" /\ HasT
      hd  == IF a.a = "Update" THEN a.hd ELSE [h |-> <<0, 0>>, th |-> <<0, 0>>, ts |-> 0, root |-> NoCS.root, vs |-> "V", nv |-> "V",
                                              tvs |-> "V", sg |-> {}, sig |-> "ok", cid |-> "ok", vh |-> TRUE]
      UpdOk == IsUpd /\ r = "ok"
      WasStored == hd.h \in DOMAIN c.cons
      NowStored == hd.h \in DOMAIN c2.cons
      \* ---------------- misbehaviour
      IsMisb == a.a = "Misb" /\ HasT
      m1  == IF a.a = "Misb" THEN a.h1 ELSE hd
      m2  == IF a.a = "Misb" THEN a.h2 ELSE hd
      \* ---------------- recover / upgrade
      IsRec == a.a = "Recover"
      RecOk == IsRec /\ r = "ok"
      sub == IF IsRec /\ Exists(pre, a.sub) THEN pre.cl[a.sub] ELSE SoloClient
      IsUpg == a.a = "Upgrade"
      UpgOk == IsUpg /\ r = "ok" /\ HasT
  IN
  \* ======== C20 consensus states are never overwritten ===================================================
     Flag("C20", "cons-state-changed-or-lost",
          \E i \in TMs : \E h \in DOMAIN pre.cl[i].cons :
             ~( \/ (h \in DOMAIN post.cl[i].cons /\ post.cl[i].cons[h] = pre.cl[i].cons[h])
                \/ (h \notin DOMAIN post.cl[i].cons /\ Expired(pre.cl[i].cons[h].ts, pre.cl[i].par.tp, t)) ))
  \cup Flag("C20", "duplicate-changed-state",
          UpdOk /\ WasStored /\ c.cons[hd.h] = HdrCons(hd)
          /\ ~(/\ NowStored /\ c2.cons[hd.h] = c.cons[hd.h] /\ c2.frozen = c.frozen /\ c2.latest = c.latest
               /\ hd.h \in DOMAIN c2.pt /\ c2.pt[hd.h] = c.pt[hd.h] /\ hd.h \in DOMAIN c2.ph /\ c2.ph[hd.h] = c.ph[hd.h]))
  \cup Flag("C20", "conflict-did-not-freeze",
          UpdOk /\ WasStored /\ c.cons[hd.h] # HdrCons(hd) /\ ~(c2.frozen /\ NowStored /\ c2.cons[hd.h] = c.cons[hd.h]))
  \cup Flag("C20", "misbehaviour-did-not-freeze",
          IsMisb /\ r = "ok" /\ Conflict(m1, m2) /\ ~(c2.frozen /\ c2.cons = c.cons))
  \cup Flag("C20", "wrote-other-cons-state",
          UpdOk /\ ~(/\ (DOMAIN c2.cons) \ (DOMAIN c.cons) \subseteq {hd.h}
                     /\ (~WasStored /\ NowStored => c2.cons[hd.h] = HdrCons(hd))))
  \cup Flag("C20", "cons-state-without-update",
          \E i \in TMs : (DOMAIN post.cl[i].cons) \ (DOMAIN pre.cl[i].cons) # {}
                         /\ ~(r = "ok" /\ i = i0 /\ a.a \in {"Update", "Recover", "Upgrade"}))
  \* ======== C22 metadata consistent and ordered ============================================================
  \cup Flag("C22", "metadata-domains-differ", \E i \in 1..n2 : post.cl[i].type = "07" /\ ~I_MetaDomains(post.cl[i]))
  \cup Flag("C22", "iteration-out-of-order",
          \E i \in 1..n2 : post.cl[i].type = "07" /\
             LET s == O2[i].iter IN \E k \in 1..(Len(s) - 1) : ~HLT(s[k], s[k + 1]))
  \cup Flag("C22", "iteration-key-mispointed",
          \E i \in 1..n2 : post.cl[i].type = "07" /\ O2[i].itv # O2[i].iter)
  \cup Flag("C22", "stray-key", \E i \in 1..n2 : post.cl[i].type = "07" /\ O2[i].stray # <<>>)
  \cup Flag("C22", "next-lookup-wrong",
          \E i \in 1..n2 : post.cl[i].type = "07" /\
             \E k \in DOMAIN O2[i].nx : O2[i].nx[k].v # NextCS(post.cl[i], O2[i].nx[k].k))
  \cup Flag("C22", "prev-lookup-wrong",
          \E i \in 1..n2 : post.cl[i].type = "07" /\
             \E k \in DOMAIN O2[i].pv : O2[i].pv[k].v # PrevCS(post.cl[i], O2[i].pv[k].k))
  \cup Flag("C22", "pruned-not-oldest-expired",
          \E i \in TMs : LET gone == (DOMAIN pre.cl[i].cons) \ (DOMAIN post.cl[i].cons) IN
             gone # {} /\ ~(/\ UpdOk /\ i = i0
                            /\ gone = {HMin(DOMAIN pre.cl[i].cons)}
                            /\ Expired(pre.cl[i].cons[HMin(DOMAIN pre.cl[i].cons)].ts, pre.cl[i].par.tp, t)))
  \cup Flag("C22", "processed-values-wrong",
          \/ (UpdOk /\ ~WasStored /\ NowStored /\ hd.h \in DOMAIN c2.pt /\ hd.h \in DOMAIN c2.ph
                    /\ ~(c2.pt[hd.h] = t /\ c2.ph[hd.h] = pre.hh + 1))
          \/ (a.a = "Create" /\ r = "ok" /\ n2 = n1 + 1
                    /\ ~(LET k == post.cl[n2] IN a.h \in DOMAIN k.pt /\ a.h \in DOMAIN k.ph /\ k.pt[a.h] = t /\ k.ph[a.h] = pre.hh + 1)))
  \cup Flag("C22", "kept-metadata-changed",
          \E i \in TMs : \E h \in (DOMAIN pre.cl[i].cons) \cap (DOMAIN post.cl[i].cons) :
             h \in DOMAIN pre.cl[i].pt /\ h \in DOMAIN pre.cl[i].ph /\ h \in DOMAIN post.cl[i].pt /\ h \in DOMAIN post.cl[i].ph
             /\ ~(post.cl[i].pt[h] = pre.cl[i].pt[h] /\ post.cl[i].ph[h] = pre.cl[i].ph[h]))
  \* ======== C23 timestamps increase with height ============================================================
  \cup Flag("C23", "time-not-between-neighbours",
          UpdOk /\ ~WasStored /\ NowStored /\ ~(TimeFits(c, hd.h, c2.cons[hd.h].ts) /\ TimeFits(c2, hd.h, c2.cons[hd.h].ts)))
  \cup Flag("C23", "time-violation-not-frozen",
          UpdOk /\ ~WasStored /\ ~TimeFits(c, hd.h, hd.ts) /\ ~(c2.frozen /\ ~NowStored))
  \* ======== C24 accepted only when verified ================================================================
  \cup Flag("C24", "ok:trusted-not-stored",   UpdOk /\ ~G_TrustedStored(c, hd))
  \cup Flag("C24", "ok:trusted-vals-mismatch", UpdOk /\ ~G_TrustedVals(c, hd))
  \cup Flag("C24", "ok:other-revision",              UpdOk /\ ~G_SameRevision(hd))
  \cup Flag("C24", "ok:height-not-above",    UpdOk /\ ~G_HeightAbove(hd))
  \cup Flag("C24", "ok:trusted-expired",       UpdOk /\ ~G_TrustedFresh(c, hd, t))
  \cup Flag("C24", "ok:time-not-after-trusted",      UpdOk /\ ~G_TimeAfterTrusted(c, hd))
  \cup Flag("C24", "ok:time-beyond-drift",     UpdOk /\ ~G_TimeNotFuture(c, hd, t))
  \cup Flag("C24", "ok:wrong-chain-id",              UpdOk /\ ~G_ChainId(c, hd))
  \cup Flag("C24", "ok:bad-sig-or-valset-hash", UpdOk /\ ~G_Integrity(hd))
  \cup Flag("C24", "ok:own-power-low",  UpdOk /\ ~G_OwnPower(hd))
  \cup Flag("C24", "ok:trust-power-low", UpdOk /\ ~G_TrustPower(c, hd))
  \cup Flag("C24", "rejected-update-changed", a.a = "Update" /\ Rejected /\ ~AllSame)
  \cup Flag("C24", "update-changed-other", a.a = "Update" /\ r = "ok" /\ ~OnlySubject)
  \cup Flag("C24", "misb-ok:h1-unverified", IsMisb /\ r = "ok" /\ ~(MisbShape(m1, m2) /\ MisbHeaderOK(c, m1, t)))
  \cup Flag("C24", "misb-ok:h2-unverified", IsMisb /\ r = "ok" /\ ~(MisbShape(m1, m2) /\ MisbHeaderOK(c, m2, t)))
  \cup Flag("C24", "misb-froze-no-conflict", IsMisb /\ r = "ok" /\ ~Conflict(m1, m2) /\ ~Same(i0))
  \cup Flag("C24", "rejected-misb-changed", a.a = "Misb" /\ Rejected /\ ~AllSame)
  \cup Flag("C24", "misb-changed-other", a.a = "Misb" /\ r = "ok" /\ ~OnlySubject)
  \cup Flag("C24", "frozen-without-evidence",
          \E i \in TMs : ~pre.cl[i].frozen /\ post.cl[i].frozen /\ ~(r = "ok" /\ i = i0 /\ a.a \in {"Update", "Misb"}))
  \* ======== C25 recover / upgrade gated, subject only ======================================================
  \cup Flag("C25", "rec-ok:subject-active",       RecOk /\ ~G_RecSubjectNotActive(pre, a, t))
  \cup Flag("C25", "rec-ok:substitute-inactive", RecOk /\ ~G_RecSubstituteActive(pre, a, t))
  \cup Flag("C25", "rec-ok:height-not-greater",   RecOk /\ ~G_RecHeight(pre, a))
  \cup Flag("C25", "rec-ok:type-differs",       RecOk /\ ~G_RecSameType(pre, a))
  \cup Flag("C25", "rec-ok:params-differ",    RecOk /\ ~G_RecParams(pre, a))
  \cup Flag("C25", "recover-effect",
          RecOk /\ HasT /\ Exists(pre, a.sub) /\ sub.latest \in DOMAIN sub.cons /\ sub.latest \in DOMAIN sub.pt /\ sub.latest \in DOMAIN sub.ph
          /\ ~(/\ ~c2.frozen /\ c2.latest = sub.latest
               /\ sub.latest \in DOMAIN c2.cons /\ c2.cons[sub.latest] = sub.cons[sub.latest]
               /\ sub.latest \in DOMAIN c2.pt /\ c2.pt[sub.latest] = sub.pt[sub.latest]
               /\ sub.latest \in DOMAIN c2.ph /\ c2.ph[sub.latest] = sub.ph[sub.latest]
               /\ ParamsMatch(c2.par, c.par) /\ c2.par.tp = sub.par.tp
               /\ \A h \in DOMAIN c.cons : h \in DOMAIN c2.cons))
  \cup Flag("C25", "recover-changed-other", RecOk /\ ~OnlySubject)
  \cup Flag("C25", "rejected-recover-changed", IsRec /\ Rejected /\ ~AllSame)
  \cup Flag("C25", "upg-ok:not-active",    UpgOk /\ ~G_UpgActive(c, t))
  \cup Flag("C25", "upg-ok:height-not-greater",   UpgOk /\ ~G_UpgHeight(c, a))
  \cup Flag("C25", "upg-ok:unproven",             UpgOk /\ ~G_UpgProofs(c, a))
  \cup Flag("C25", "upg-ok:not-tendermint",   IsUpg /\ r = "ok" /\ ~HasT)
  \cup Flag("C25", "upgrade-effect",
          UpgOk /\ a.v \in PlanVariants
          /\ ~(/\ c2.par.lvl = c.par.lvl /\ c2.par.drift = c.par.drift
               \* (durations are logged in whole ticks: the scaled value is comparable when the division is exact,
               \*  otherwise the logged value must be the 'not a whole number of ticks' marker)
               /\ c2.par.tp = (IF PlanUbd(a.v) >= c.par.ubd \/ (c.par.tp * PlanUbd(a.v)) % c.par.ubd = 0 THEN ScaledTP(c, a.v) ELSE 0 - 1)
               /\ c2.par.ubd = PlanUbd(a.v) /\ c2.par.rev = PlanNL(a.v)[1]
               /\ c2.latest = PlanNL(a.v)
               /\ PlanNL(a.v) \in DOMAIN c2.cons
               /\ c2.cons[PlanNL(a.v)] = [ts |-> LatestRoot(c).ts, root |-> Sentinel, nv |-> "V"]
               /\ \A h \in DOMAIN c.cons : h \in DOMAIN c2.cons))
  \cup Flag("C25", "upgrade-changed-other", IsUpg /\ r = "ok" /\ ~OnlySubject)
  \cup Flag("C25", "rejected-upgrade-changed", IsUpg /\ Rejected /\ ~AllSame)
  \cup Flag("C25", "unfrozen-without-recover",
          \E i \in TMs : pre.cl[i].frozen /\ ~post.cl[i].frozen /\ ~(RecOk /\ i = i0))
  \cup Flag("C25", "params-changed",
          \E i \in TMs : post.cl[i].par # pre.cl[i].par /\ ~(r = "ok" /\ i = i0 /\ a.a \in {"Recover", "Upgrade"}))
  \* ======== C21 (diagnostics for the packet family's property) ==============================================
  \cup Flag("C21", "status-exact", \E i \in 1..n2 : O2[i].status # Status(post.cl[i], post.now))
  \cup Flag("C21", "latest-height-monotone", \E i \in 1..n1 : i <= n2 /\ ~HLE(pre.cl[i].latest, post.cl[i].latest))
  \cup Flag("C21", "latest-height-query", \E i \in 1..n2 : O2[i].llat # post.cl[i].latest)
  \cup Flag("C21", "latest-not-maximum", \E i \in 1..n2 : post.cl[i].type = "07" /\ ~I_LatestIsMax(post.cl[i]))
  \cup Flag("C21", "status-gates-use", (UpdOk \/ (IsMisb /\ r = "ok") \/ UpgOk) /\ Status(c, t) # "Active")
  \* ======== full conformance (diagnostic) ===================================================================
  \cup Flag("CONF", a.a \o ":" \o E.res \o "/" \o r, ~(E.res = (IF r = "ok" THEN "ok" ELSE "err") /\ E.S = post))

Report(ln, viol) == \A v \in viol : PrintT(<<"MONFAIL", ln.tr, ln.i, v>>)

Sanity(ln, pre, post) ==
       Flag("X", "time", post.now # pre.now + ln.a.dt)
  \cup Flag("X", "host-height", post.hh # pre.hh + 1)
  \cup Flag("X", "clients-disappeared", Len(post.cl) < Len(pre.cl))
  \cup Flag("X", "unmapped-value", \E i \in 1..Len(post.cl) : \E h \in DOMAIN post.cl[i].cons :
                  post.cl[i].cons[h].root.k = "?" \/ post.cl[i].cons[h].nv = "?" \/ h[2] < 0)

(***************************************************************************)
(* Trace behaviour                                                         *)
(***************************************************************************)
TraceInit == l = 1 /\ S = StateOf(Trace[1].st) /\ obs = ObsOf(Trace[1].st)

TraceNext ==
    /\ l < Len(Trace)
    /\ LET ln == Trace[l + 1] IN
       IF ln.a.a = "Init"
       THEN /\ S' = StateOf(ln.st) /\ obs' = ObsOf(ln.st) /\ l' = l + 1
       ELSE LET a  == Norm(ln.a)
                S2 == StateOf(ln.st)
                O2 == ObsOf(ln.st)
            IN /\ Report(ln, Sanity(ln, S, S2) \cup Viol(S, a, ln.res, S2, obs, O2, SetOf(ln.diff)))
               /\ S' = S2
               /\ obs' = O2
               /\ l' = l + 1
    /\ (l + 1 = Len(Trace) => PrintT(<<"CONSUMED", l + 1>>))

TraceSpec == TraceInit /\ [][TraceNext]_<<l, S, obs>>
=============================================================================
