------------------------------ MODULE TMClient ------------------------------
(***************************************************************************)
(* The 07-tendermint light client of ibc-go as driven through 02-client    *)
(* (MsgCreateClient, MsgUpdateClient with a Header or a Misbehaviour,      *)
(* MsgUpgradeClient, MsgRecoverClient) on ONE host chain holding several   *)
(* clients.                                                                *)
(*                                                                         *)
(* Written as a function  Step(S, a)  from a state record and an action    *)
(* record to [res, S'] (res \in {"ok","err"}) so that the same operators   *)
(* are used by MC_TMClient (exhaustive), Sched_TMClient / Cases_TMClient   *)
(* (behaviour and case generation) and Trace_TMClient (validation of what  *)
(* the real code did).  One action = one transaction = one host block; a   *)
(* failed transaction commits a block too (time and host height advance).  *)
(*                                                                         *)
(* Heights are pairs <<revision, height>>.  Model revision r and model     *)
(* height index k stand for fixed real numbers chosen by the harness       *)
(* (revision 0 -> 1, 1 -> 47 = 0x2f;  k -> 46, 47, 48, 0x2f00, 0x2f01,     *)
(* 0x2f2f, 0x2f0000002f, 0x2f2f2f2f2f2f2f2f) so that big-endian iteration  *)
(* keys contain '/' bytes and cross revision boundaries; ADJ is            *)
(* the set of index pairs whose real heights are consecutive.              *)
(*                                                                         *)
(* Time is in ticks of 500 ms.  Hashes are modelled by the hashed term:    *)
(* a root is the record [k, v, ts] (plain root / upgrade-plan snapshot /   *)
(* sentinel), a validator-set hash is the name of the set.                 *)
(***************************************************************************)
EXTENDS Integers, Sequences, FiniteSets, TLC

CONSTANT UBD0    \* unbonding period (ticks) the counterparty commits in its upgrade plans ("eq" variant)

ADJ == {<<1, 2>>, <<2, 3>>, <<4, 5>>}
SMH == <<0 - 1, 1>>                   \* latest height of the solo machine client (its real revision 0 is below every tendermint revision used)

\* validator sets of equal-power validators
VS == [V |-> {"a", "b", "c", "d"},
       W |-> {"a", "b", "e", "f"},
       X |-> {"e", "f", "g", "h"},
       U |-> {"a", "b", "c", "d", "e", "f", "g"},
       Y |-> {"c", "d", "g", "h"},
       Z |-> {"h"}]
Members(id) == IF id \in DOMAIN VS THEN VS[id] ELSE {}

HLT(x, y) == x[1] < y[1] \/ (x[1] = y[1] /\ x[2] < y[2])
HLE(x, y) == x = y \/ HLT(x, y)
HMax(H)   == CHOOSE x \in H : \A y \in H : HLE(y, x)
HMin(H)   == CHOOSE x \in H : \A y \in H : HLE(x, y)
Below(H, h) == { x \in H : HLT(x, h) }
Above(H, h) == { x \in H : HLT(h, x) }
Adjacent(t, h) == t[1] = h[1] /\ <<t[2], h[2]>> \in ADJ

PlainRoot(id)  == [k |-> "plain", v |-> id, ts |-> 0]
PlanRoot(v, ts) == [k |-> "plan", v |-> v, ts |-> ts]
Sentinel       == [k |-> "sentinel", v |-> "", ts |-> 0]
NoCS           == [ts |-> 0 - 1, root |-> [k |-> "none", v |-> "", ts |-> 0], nv |-> "none"]

(***************************************************************************)
(* Upgrade plans the counterparty can commit.  A plan snapshot (root       *)
(* PlanRoot(v, ts)) holds, for EVERY plan height, the upgraded client of   *)
(* variant v and the upgraded consensus state [ts, nv = "V"].              *)
(***************************************************************************)
PlanVariants == {"up", "lt", "gt", "low", "same", "sh"}
PlanNL(v)  == CASE v = "low" -> <<0, 1>> [] v = "same" -> <<0, 4>> [] OTHER -> <<1, 1>>
\* "sh": the unbonding period shrinks but stays above a standard trusting period (UBD0 / 2): the trusting period must
\* be scaled although it would still fit
PlanUbd(v) == CASE v = "lt" -> UBD0 \div 2 [] v = "gt" -> 2 * UBD0 [] v = "sh" -> (3 * UBD0) \div 4 [] OTHER -> UBD0

(***************************************************************************)
(* State                                                                   *)
(*  S = [now, hh, cl]   now: time of the last host block; hh: number of    *)
(*  host blocks so far; cl: sequence of clients in creation order          *)
(*  client = [type, cons, pt, ph, iter, latest, frozen, par]               *)
(*   cons  : height -> [ts, root, nv]   consensus states                   *)
(*   pt,ph : height -> processed time / processed host height              *)
(*   iter  : set of heights that have an iteration key                     *)
(*   par   : [tp, ubd, drift, lvl = <<num, den>>, rev, upath, specs]       *)
(***************************************************************************)
EmptyFn == [x \in {} |-> 0]
InitState == [now |-> 0, hh |-> 0, cl |-> <<>>]

Expired(ts, tp, t) == ts + tp <= t

Status(c, t) ==
    IF c.frozen THEN "Frozen"
    ELSE IF c.type = "06" THEN "Active"
    ELSE IF c.latest \notin DOMAIN c.cons THEN "Expired"
    ELSE IF Expired(c.cons[c.latest].ts, c.par.tp, t) THEN "Expired" ELSE "Active"

Exists(S, i) == i \in 1..Len(S.cl)
IsTM(S, i)   == Exists(S, i) /\ S.cl[i].type = "07"

Tick(S, a)       == [now |-> S.now + a.dt, hh |-> S.hh + 1, cl |-> S.cl]
Err(S, a)        == [res |-> "err", S |-> Tick(S, a)]
OkWith(S, a, i, c) == [res |-> "ok", S |-> [Tick(S, a) EXCEPT !.cl[i] = c]]
OkSame(S, a)     == [res |-> "ok", S |-> Tick(S, a)]

(***************************************************************************)
(* Create                                                                  *)
(***************************************************************************)
ParValid(p) == /\ p.tp > 0 /\ p.ubd > 0 /\ p.drift > 0 /\ p.tp < p.ubd
               /\ p.lvl[2] > 0 /\ 3 * p.lvl[1] >= p.lvl[2] /\ p.lvl[1] <= p.lvl[2]

NewClient(par, h, cs, t, hh) ==
    [type |-> "07", cons |-> (h :> cs), pt |-> (h :> t), ph |-> (h :> hh), iter |-> {h},
     latest |-> h, frozen |-> FALSE, par |-> par]

DoCreate(S, a) ==
    LET t  == S.now + a.dt
        cs == [ts |-> a.ts, root |-> a.root, nv |-> a.nv]
    IN IF ~(/\ ParValid(a.par)
            /\ a.h[1] = a.par.rev /\ a.h[2] >= 1
            /\ a.ts >= 1
            /\ ~Expired(a.ts, a.par.tp, t))          \* a client must be Active after initialisation
       THEN Err(S, a)
       ELSE [res |-> "ok", S |-> [Tick(S, a) EXCEPT !.cl = Append(@, NewClient(a.par, a.h, cs, t, S.hh + 1))]]

SoloClient == [type |-> "06", cons |-> EmptyFn, pt |-> EmptyFn, ph |-> EmptyFn, iter |-> {},
               latest |-> SMH, frozen |-> FALSE,
               par |-> [tp |-> 0, ubd |-> 0, drift |-> 0, lvl |-> <<0, 1>>, rev |-> 0, upath |-> "none", specs |-> "none"]]

DoCreateSolo(S, a) == [res |-> "ok", S |-> [Tick(S, a) EXCEPT !.cl = Append(@, SoloClient)]]

(***************************************************************************)
(* Header verification.  A header is the attribute record                  *)
(*  [h, th, ts, root, vs, nv, tvs, sg, sig, cid, vh]                       *)
(*   h    height; the header's chain id carries revision h[1]              *)
(*   th   trusted height                                                   *)
(*   ts   header time, root app hash, vs own validator set, nv next set    *)
(*   tvs  the validator set supplied as TrustedValidators                  *)
(*   sg   set of validators whose precommit is in the commit               *)
(*   sig  "ok" | "flip" (first signature has a flipped byte)               *)
(*        | "block" (commit is for another block id)                       *)
(*        | "chain" (votes signed for another chain id)                    *)
(*   cid  "ok" | "other" (header of a chain with another name)             *)
(*   vh   TRUE iff the supplied ValidatorSet hashes to ValidatorsHash      *)
(***************************************************************************)
TrustedCS(c, hd) == IF hd.th \in DOMAIN c.cons THEN c.cons[hd.th] ELSE NoCS
HdrCons(hd)      == [ts |-> hd.ts, root |-> hd.root, nv |-> hd.nv]

Signed(hd)            == hd.sg \cap Members(hd.vs)
OwnTally(hd)          == Cardinality(Signed(hd))
TrustTally(hd)        == Cardinality(Signed(hd) \cap Members(hd.tvs))

G_TrustedStored(c, hd)    == hd.th \in DOMAIN c.cons
G_TrustedVals(c, hd)      == hd.tvs = TrustedCS(c, hd).nv
G_SameRevision(hd)        == hd.h[1] = hd.th[1]
G_HeightAbove(hd)         == HLT(hd.th, hd.h)
G_TrustedFresh(c, hd, t)  == G_TrustedStored(c, hd) /\ ~Expired(TrustedCS(c, hd).ts, c.par.tp, t)
G_TimeAfterTrusted(c, hd) == hd.ts > TrustedCS(c, hd).ts
G_TimeNotFuture(c, hd, t) == hd.ts < t + c.par.drift
G_ChainId(c, hd)          == hd.cid = "ok" /\ hd.h[1] = c.par.rev
G_Integrity(hd)           == hd.sig = "ok" /\ hd.vh
G_OwnPower(hd)            == 3 * OwnTally(hd) > 2 * Cardinality(Members(hd.vs))
\* "at least the trust level of the trusted set", as the property states it
G_TrustPower(c, hd)       == Members(hd.tvs) # {} /\
                             TrustTally(hd) * c.par.lvl[2] >= c.par.lvl[1] * Cardinality(Members(hd.tvs))
\* what the light-client library computes for non-adjacent headers (strictly more than floor(total*num/den))
TrustPowerLib(c, hd)      == TrustTally(hd) > (Cardinality(Members(hd.tvs)) * c.par.lvl[1]) \div c.par.lvl[2]

\* The acceptance condition of the property (C24) for an update header
HeaderOK(c, hd, t) ==
    /\ G_TrustedStored(c, hd) /\ G_TrustedVals(c, hd) /\ G_SameRevision(hd) /\ G_HeightAbove(hd)
    /\ G_TrustedFresh(c, hd, t) /\ G_TimeAfterTrusted(c, hd) /\ G_TimeNotFuture(c, hd, t)
    /\ G_ChainId(c, hd) /\ G_Integrity(hd) /\ G_OwnPower(hd) /\ G_TrustPower(c, hd)

\* What verifyHeader + light.Verify do (adjacent headers: the validator set is pinned by the trusted
\* next-validators hash and the trust level is not consulted)
VerifyHeader(c, hd, t) ==
    /\ G_Integrity(hd) /\ G_HeightAbove(hd)                     \* Header.ValidateBasic (stateless)
    /\ G_TrustedStored(c, hd) /\ G_TrustedVals(c, hd) /\ G_SameRevision(hd)
    /\ G_TrustedFresh(c, hd, t) /\ G_ChainId(c, hd)
    /\ G_TimeAfterTrusted(c, hd) /\ G_TimeNotFuture(c, hd, t)
    /\ IF Adjacent(hd.th, hd.h) THEN hd.vs = TrustedCS(c, hd).nv /\ G_OwnPower(hd)
                                ELSE TrustPowerLib(c, hd) /\ G_OwnPower(hd)

\* the input class in which the library's adjacent path accepts less than the client's trust level
AdjacentBelowLevel(c, hd) == Adjacent(hd.th, hd.h) /\ hd.vs = hd.tvs /\ G_OwnPower(hd) /\ ~G_TrustPower(c, hd)

(***************************************************************************)
(* Update                                                                  *)
(***************************************************************************)
PrevCS(c, h) == IF Below(DOMAIN c.cons, h) = {} THEN NoCS ELSE c.cons[HMax(Below(DOMAIN c.cons, h))]
NextCS(c, h) == IF Above(DOMAIN c.cons, h) = {} THEN NoCS ELSE c.cons[HMin(Above(DOMAIN c.cons, h))]
HasPrev(c, h) == Below(DOMAIN c.cons, h) # {}
HasNext(c, h) == Above(DOMAIN c.cons, h) # {}

\* strictly between the stored neighbours
TimeFits(c, h, ts) == (HasPrev(c, h) => PrevCS(c, h).ts < ts) /\ (HasNext(c, h) => ts < NextCS(c, h).ts)

Without(f, h) == [x \in (DOMAIN f) \ {h} |-> f[x]]

\* pruning inside UpdateState: only the oldest consensus state, only if it has expired
Pruned(c, t) ==
    IF c.iter = {} THEN c
    ELSE LET m == HMin(c.iter) IN
         IF m \in DOMAIN c.cons /\ Expired(c.cons[m].ts, c.par.tp, t)
         THEN [c EXCEPT !.cons = Without(@, m), !.pt = Without(@, m), !.ph = Without(@, m), !.iter = @ \ {m}]
         ELSE c

Frozen(c) == [c EXCEPT !.frozen = TRUE]

StoreHeader(c, hd, t, hh) ==
    [c EXCEPT !.cons = (hd.h :> HdrCons(hd)) @@ @, !.pt = (hd.h :> t) @@ @, !.ph = (hd.h :> hh) @@ @,
              !.iter = @ \cup {hd.h}, !.latest = IF HLT(@, hd.h) THEN hd.h ELSE @]

UpdateOutcome(c, hd) ==      \* CheckForMisbehaviour on a verified header
    IF hd.h \in DOMAIN c.cons THEN (IF c.cons[hd.h] = HdrCons(hd) THEN "dup" ELSE "freeze")
    ELSE IF TimeFits(c, hd.h, hd.ts) THEN "store" ELSE "freeze"

DoUpdate(S, a) ==
    LET t == S.now + a.dt  i == a.c  hd == a.hd IN
    IF ~IsTM(S, i) THEN Err(S, a)
    ELSE LET c == S.cl[i] IN
         IF ~(Status(c, t) = "Active" /\ VerifyHeader(c, hd, t)) THEN Err(S, a)
         ELSE LET o == UpdateOutcome(c, hd) IN
              IF o = "freeze" THEN OkWith(S, a, i, Frozen(c))
              ELSE LET p == Pruned(c, t) IN
                   IF hd.h \in DOMAIN p.cons THEN OkWith(S, a, i, p)
                   ELSE OkWith(S, a, i, StoreHeader(p, hd, t, S.hh + 1))

(***************************************************************************)
(* Misbehaviour (two headers h1, h2)                                       *)
(***************************************************************************)
\* what a header inside a Misbehaviour must satisfy (C24, "HeaderOK for misbehaviour")
MisbHeaderOK(c, hd, t) ==
    /\ G_Integrity(hd) /\ G_HeightAbove(hd) /\ G_OwnPower(hd)
    /\ G_TrustedStored(c, hd) /\ G_TrustedVals(c, hd) /\ G_TrustedFresh(c, hd, t)
    /\ hd.cid = "ok" /\ G_TrustPower(c, hd)

MisbHeaderLib(c, hd, t) ==
    /\ G_Integrity(hd) /\ G_HeightAbove(hd) /\ G_OwnPower(hd)
    /\ G_TrustedStored(c, hd) /\ G_TrustedVals(c, hd) /\ G_TrustedFresh(c, hd, t)
    /\ hd.cid = "ok" /\ TrustPowerLib(c, hd)

\* the fields that enter the block hash
BlockOf(hd) == [h |-> hd.h, ts |-> hd.ts, root |-> hd.root, vs |-> hd.vs, nv |-> hd.nv, cid |-> hd.cid]

Conflict(h1, h2) == IF h1.h = h2.h THEN BlockOf(h1) # BlockOf(h2) ELSE h1.ts <= h2.ts

MisbShape(h1, h2) == HLE(h2.h, h1.h) /\ h1.h[1] = h2.h[1] /\ h1.cid = h2.cid   \* Misbehaviour.ValidateBasic

DoMisb(S, a) ==
    LET t == S.now + a.dt  i == a.c IN
    IF ~IsTM(S, i) THEN Err(S, a)
    ELSE LET c == S.cl[i] IN
         IF ~(/\ MisbShape(a.h1, a.h2)
              /\ Status(c, t) = "Active"
              /\ MisbHeaderLib(c, a.h1, t) /\ MisbHeaderLib(c, a.h2, t)) THEN Err(S, a)
         ELSE IF Conflict(a.h1, a.h2) THEN OkWith(S, a, i, Frozen(c))
         ELSE OkSame(S, a)

(***************************************************************************)
(* Recover(subject c, substitute sub)                                      *)
(***************************************************************************)
ParamsMatch(p, q) == /\ p.lvl = q.lvl /\ p.ubd = q.ubd /\ p.drift = q.drift
                     /\ p.upath = q.upath /\ p.specs = q.specs

G_RecSubjectNotActive(S, a, t) == Exists(S, a.c) /\ Status(S.cl[a.c], t) # "Active"
G_RecSubstituteActive(S, a, t) == Exists(S, a.sub) /\ Status(S.cl[a.sub], t) = "Active"
G_RecHeight(S, a)     == Exists(S, a.c) /\ Exists(S, a.sub) /\ HLT(S.cl[a.c].latest, S.cl[a.sub].latest)
G_RecSameType(S, a)   == Exists(S, a.c) /\ Exists(S, a.sub) /\ S.cl[a.c].type = S.cl[a.sub].type
G_RecParams(S, a)     == Exists(S, a.c) /\ Exists(S, a.sub) /\ ParamsMatch(S.cl[a.c].par, S.cl[a.sub].par)

RecoverGuard(S, a, t) ==
    /\ G_RecSubjectNotActive(S, a, t) /\ G_RecSubstituteActive(S, a, t)
    /\ G_RecHeight(S, a) /\ G_RecSameType(S, a) /\ G_RecParams(S, a)

Recovered(subj, sub) ==
    LET h == sub.latest IN
    [subj EXCEPT !.frozen = FALSE, !.latest = h,
                 !.cons = (h :> sub.cons[h]) @@ @, !.pt = (h :> sub.pt[h]) @@ @, !.ph = (h :> sub.ph[h]) @@ @,
                 !.iter = @ \cup {h},
                 !.par = [@ EXCEPT !.tp = sub.par.tp, !.rev = sub.par.rev]]

DoRecover(S, a) ==
    LET t == S.now + a.dt IN
    IF ~(RecoverGuard(S, a, t) /\ S.cl[a.c].type = "07") THEN Err(S, a)
    ELSE OkWith(S, a, a.c, Recovered(S.cl[a.c], S.cl[a.sub]))

(***************************************************************************)
(* Upgrade(c, v, pv, cust, mut): the message carries the upgraded client   *)
(* and consensus state of plan variant v (with relayer-chosen custom       *)
(* fields cust) and proofs taken from the plan snapshot pv at the key of   *)
(* the client's latest height; mut mutates one of the proofs.              *)
(***************************************************************************)
LatestRoot(c) == IF c.latest \in DOMAIN c.cons THEN c.cons[c.latest].root ELSE NoCS.root

G_UpgActive(c, t)   == Status(c, t) = "Active"
G_UpgHeight(c, a)   == a.v \in PlanVariants /\ HLT(c.latest, PlanNL(a.v))
G_UpgProofs(c, a)   == /\ a.v \in PlanVariants /\ a.v = a.pv /\ a.mut = "none"
                       /\ c.par.upath = "std"
                       /\ LatestRoot(c).k = "plan" /\ LatestRoot(c).v = a.pv

ScaledTP(c, v) == IF PlanUbd(v) < c.par.ubd THEN (c.par.tp * PlanUbd(v)) \div c.par.ubd ELSE c.par.tp

UpgradedPar(c, v) == [c.par EXCEPT !.tp = ScaledTP(c, v), !.ubd = PlanUbd(v), !.rev = PlanNL(v)[1],
                                   !.upath = "std", !.specs = "sdk"]

Upgraded(c, v, t, hh) ==
    LET h == PlanNL(v)  r == LatestRoot(c) IN
    [c EXCEPT !.par = UpgradedPar(c, v), !.latest = h, !.frozen = FALSE,
              !.cons = (h :> [ts |-> r.ts, root |-> Sentinel, nv |-> "V"]) @@ @,
              !.pt = (h :> t) @@ @, !.ph = (h :> hh) @@ @, !.iter = @ \cup {h}]

DoUpgrade(S, a) ==
    LET t == S.now + a.dt  i == a.c IN
    IF ~IsTM(S, i) THEN Err(S, a)
    ELSE LET c == S.cl[i] IN
         IF ~(/\ G_UpgActive(c, t) /\ G_UpgHeight(c, a) /\ G_UpgProofs(c, a)
              /\ ParValid(UpgradedPar(c, a.v))) THEN Err(S, a)
         ELSE OkWith(S, a, i, Upgraded(c, a.v, t, S.hh + 1))

(***************************************************************************)
(* Step                                                                    *)
(***************************************************************************)
Step(S, a) ==
    CASE a.a = "Tick"       -> OkSame(S, a)
      [] a.a = "Create"     -> DoCreate(S, a)
      [] a.a = "CreateSolo" -> DoCreateSolo(S, a)
      [] a.a = "Update"     -> DoUpdate(S, a)
      [] a.a = "Misb"       -> DoMisb(S, a)
      [] a.a = "Recover"    -> DoRecover(S, a)
      [] a.a = "Upgrade"    -> DoUpgrade(S, a)

(***************************************************************************)
(* State invariants of a tendermint client                                 *)
(***************************************************************************)
\* C22: one processed time, one processed height and one iteration entry per consensus state, none without
I_MetaDomains(c) == DOMAIN c.cons = DOMAIN c.pt /\ DOMAIN c.cons = DOMAIN c.ph /\ DOMAIN c.cons = c.iter
\* C23 (for clients that were only ever updated): timestamps increase with height
I_TimeMonotone(c) == \A x \in DOMAIN c.cons : \A y \in DOMAIN c.cons : HLT(x, y) => c.cons[x].ts < c.cons[y].ts
\* C21: the latest height bounds every stored height
I_LatestIsMax(c)  == \A x \in DOMAIN c.cons : HLE(x, c.latest)

ClientInv(c) == c.type = "07" => I_MetaDomains(c) /\ I_LatestIsMax(c)
=============================================================================
