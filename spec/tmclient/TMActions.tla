----------------------------- MODULE TMActions -----------------------------
(***************************************************************************)
(* Candidate actions of the environment (relayers honest and adversarial,  *)
(* the governance authority, the counterparty's validators signing forged  *)
(* headers) in a state S of TMClient.                                      *)
(***************************************************************************)
EXTENDS TMClient

CONSTANTS NH,       \* height indices 1..NH per revision
          MaxT,     \* bound on time (and header times)
          TP,       \* trusting period of a standard client
          DRIFT,    \* max clock drift of a standard client
          LN, LD    \* trust level of a standard client

Heights(r) == { <<r, k>> : k \in 1..NH }
AllHeights == Heights(0) \cup Heights(1)

StdPar == [tp |-> TP, ubd |-> UBD0, drift |-> DRIFT, lvl |-> <<LN, LD>>, rev |-> 0, upath |-> "std", specs |-> "sdk"]

\* a parameter set that differs from p in exactly one field
ParDiff(p, f) ==
    CASE f = "none"  -> p
      [] f = "lvl"   -> [p EXCEPT !.lvl = IF @ = <<2, 3>> THEN <<1, 2>> ELSE <<2, 3>>]
      [] f = "ubd"   -> [p EXCEPT !.ubd = @ * 2]
      [] f = "drift" -> [p EXCEPT !.drift = @ + 1]
      [] f = "upath" -> [p EXCEPT !.upath = "alt"]
      [] f = "nopath" -> [p EXCEPT !.upath = "none"]
      [] f = "specs" -> [p EXCEPT !.specs = "alt"]
      [] f = "tp"    -> [p EXCEPT !.tp = @ + 2]
      [] f = "rev"   -> [p EXCEPT !.rev = 1]
\* differences that IsMatchingClientState must notice / may ignore
MustMatch == {"lvl", "ubd", "drift", "upath", "nopath", "specs"}
MayDiffer == {"none", "tp", "rev"}

CreateAct(d, par, h, ts, rootid, nv) ==
    [a |-> "Create", dt |-> d, par |-> par, h |-> h, ts |-> ts, root |-> PlainRoot(rootid), nv |-> nv]

GoodHdr(h, th, ts, root, vs, nv, tvs) ==
    [h |-> h, th |-> th, ts |-> ts, root |-> root, vs |-> vs, nv |-> nv, tvs |-> tvs,
     sg |-> Members(vs), sig |-> "ok", cid |-> "ok", vh |-> TRUE]

UpdAct(i, d, hd) == [a |-> "Update", c |-> i, dt |-> d, hd |-> hd]
TickAct(d)       == [a |-> "Tick", dt |-> d]

\* stored heights usable as trusted height for a header at h
TrustedFor(c, h) == { x \in DOMAIN c.cons : x[1] = h[1] /\ HLT(x, h) }

\* headers an honest-looking (fully signed, consistent) counterparty fork could produce for client c
GoodHdrs(c, hs, tss, roots, vss, nvs) ==
    { GoodHdr(x[1], x[2], x[3], x[4], (IF Adjacent(x[2], x[1]) THEN c.cons[x[2]].nv ELSE x[5]), x[6], c.cons[x[2]].nv)
      : x \in { y \in hs \X (DOMAIN c.cons) \X tss \X roots \X vss \X nvs : y[2] \in TrustedFor(c, y[1]) } }

(***************************************************************************)
(* Single-attribute mutations of a header hd built for client c at time t  *)
(***************************************************************************)
MutKinds == {"tvs", "th-unstored", "th-eq", "rev", "ts-le", "ts-future", "own", "trust",
             "sig-flip", "sig-block", "sig-chain", "cid", "vh"}

OtherVS(id) == IF id = "V" THEN "W" ELSE "V"
\* a validator set without any member of the given one
DisjointVS(id) == CASE id = "V" -> "X" [] id = "W" -> "Y" [] id = "X" -> "V" [] id = "Y" -> "W" [] id = "Z" -> "V" [] OTHER -> "Z"
Unstored(c, h) == { x \in AllHeights : x \notin DOMAIN c.cons /\ x[1] = h[1] /\ HLT(x, h) }
TwoOf(vs)   == CHOOSE s \in SUBSET Members(vs) : 3 * Cardinality(s) <= 2 * Cardinality(Members(vs))
                                                /\ 3 * (Cardinality(s) + 1) > 2 * Cardinality(Members(vs))

Mut(c, hd, t, kind) ==
    CASE kind = "tvs"         -> [hd EXCEPT !.tvs = OtherVS(@)]
      [] kind = "th-unstored" -> IF Unstored(c, hd.h) = {} THEN [hd EXCEPT !.th = <<hd.h[1], 0>>]
                                 ELSE [hd EXCEPT !.th = HMax(Unstored(c, hd.h))]
      [] kind = "th-eq"       -> [hd EXCEPT !.th = hd.h]
      [] kind = "rev"         -> [hd EXCEPT !.h = <<1 - @[1], @[2]>>]
      [] kind = "ts-le"       -> [hd EXCEPT !.ts = TrustedCS(c, hd).ts]
      [] kind = "ts-future"   -> [hd EXCEPT !.ts = t + c.par.drift]
      [] kind = "own"         -> [hd EXCEPT !.sg = TwoOf(hd.vs)]
      [] kind = "trust"       -> [hd EXCEPT !.vs = DisjointVS(hd.tvs), !.sg = Members(DisjointVS(hd.tvs))]
      [] kind = "sig-flip"    -> [hd EXCEPT !.sig = "flip"]
      [] kind = "sig-block"   -> [hd EXCEPT !.sig = "block"]
      [] kind = "sig-chain"   -> [hd EXCEPT !.sig = "chain"]
      [] kind = "cid"         -> [hd EXCEPT !.cid = "other"]
      [] kind = "vh"          -> [hd EXCEPT !.vh = FALSE]

MisbAct(i, d, h1, h2) == [a |-> "Misb", c |-> i, dt |-> d, h1 |-> h1, h2 |-> h2]
RecAct(i, j, d)       == [a |-> "Recover", c |-> i, sub |-> j, dt |-> d]
UpgAct(i, d, v, pv, cust, mut) == [a |-> "Upgrade", c |-> i, dt |-> d, v |-> v, pv |-> pv, cust |-> cust, mut |-> mut]

TMClients(S) == { i \in 1..Len(S.cl) : S.cl[i].type = "07" }
=============================================================================
