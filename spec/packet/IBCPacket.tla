------------------------------ MODULE IBCPacket ------------------------------
(***************************************************************************)
(* Packet life cycle of ibc-go (IBC v1 channels, IBC v2 clients, and IBC   *)
(* v2 traffic over a v1 channel alias) between two chains "A" and "B"      *)
(* joined by ONE path of kind KIND:                                        *)
(*   "UNORDERED"  v1 UNORDERED channel, also usable through its v2 alias   *)
(*   "ORDERED"    v1 ORDERED channel (no alias)                            *)
(*   "V2"         IBC v2 client pair with registered counterparties        *)
(*                                                                         *)
(* The module is written as a FUNCTION  Step(S, a)  from a system state    *)
(* record S and an action record a to [res, S'] so that the very same      *)
(* operators are used by                                                   *)
(*   - MC_Packet   (exhaustive model check of the design),                 *)
(*   - Sched_Packet (behaviour generation for replay into the real code),  *)
(*   - Trace_Packet (validation of traces recorded from the real code).    *)
(* One action = one transaction = one committed block on the acting chain  *)
(* (a failed transaction commits a block as well), exactly as the          *)
(* ibctesting harness executes the real code.                              *)
(*                                                                         *)
(* Each handler is one operator whose guard is a conjunction of NAMED      *)
(* clauses G_xxx in the order the implementation evaluates them where that *)
(* order decides between "err" and "noop".                                 *)
(***************************************************************************)
EXTENDS Integers, Sequences, FiniteSets, TLC

CONSTANTS KIND,   \* "UNORDERED" | "ORDERED" | "V2"
          TP,     \* trusting period of both light clients, in ticks (1 tick = 500 ms)
          SKEW_A, \* clock skew of chain A: its block times are the global time + SKEW_A ticks
          SKEW_B  \* clock skew of chain B (the chains' clocks need not agree; only each chain's own is monotone)

Chains == {"A", "B"}
Cp(c)  == IF c = "A" THEN "B" ELSE "A"
Skew(c) == IF c = "A" THEN SKEW_A ELSE SKEW_B
DRIFT == 20       \* max clock drift of the light clients (10 s)

MaxOf(X) == CHOOSE x \in X : \A y \in X : y <= x
MinOf(X) == CHOOSE x \in X : \A y \in X : x <= y

DAY_TICKS == 172800   \* 24 h in ticks (v2 MaxTimeoutDelta)

(***************************************************************************)
(* Packets.  A packet is the record                                        *)
(*   [proto, src, seq, toH, toT, data, route]                              *)
(* proto "v1": toH = timeout height on the destination (0 = none), toT =   *)
(*   timeout timestamp in ticks (0 = none); data = <<d>>.                  *)
(* proto "v2": toH = 0, toT = timeout in SECONDS (1 s = 2 ticks);          *)
(*   data = <<d1,..,dn>> one entry per payload.                            *)
(* d \in {"ok","fail","async"} is the behaviour of the receiving app.      *)
(* route = "ok" when the packet names the real channel/client identifiers  *)
(* of the path; any other value is a forged identifier.                    *)
(* The commitment of a packet is modelled as the packet record itself      *)
(* (hash injectivity); the key under which it is stored is Key(P).         *)
(***************************************************************************)
Key(P) == P.proto \o "/" \o ToString(P.seq)

ElapsedV1(toH, toT, h, t) == (toH # 0 /\ h >= toH) \/ (toT # 0 /\ t >= toT)
ElapsedV2(toS, t)         == (t \div 2) >= toS

\* Receive behaviour of the destination application encoded in the packet data / payload value:
\* outcome ok | fail | async after WritesOf(d) application state writes (store keys and bank mints).
\* Unknown data makes the mock applications fail without writing.
\* "oksent": a v2 application that reports SUCCESS but returns the universal error sentinel as its acknowledgement
OutcomeOf(d) == IF d \in {"ok", "ok1", "ok2", "oksent"} THEN "ok"
                ELSE IF d \in {"async", "async1", "async2"} THEN "async" ELSE "fail"
WritesOf(d)  == IF d \in {"ok1", "fail1", "async1"} THEN 1
                ELSE IF d \in {"ok2", "fail2", "async2"} THEN 2
                ELSE IF d = "fail3" THEN 3 ELSE 0
AppWrites(P, idxs) == UNION { { <<Key(P), i, w>> : w \in 1..WritesOf(P.data[i]) } : i \in idxs }

\* acknowledgement values: sequences of app acks; v1 <<"ok">> | <<"err">>,
\* v2 <<"ok",...>> (one per payload) | <<"SENTINEL">>
AckOfV1(d) == IF OutcomeOf(d) = "ok" THEN <<"ok">> ELSE <<"err">>
\* v2 applications answer differently per payload behaviour, so that the ORDER of an ack list is observable
AckOfPayload(d) == IF d \in {"ok1", "ok2"} THEN d ELSE "ok"

(***************************************************************************)
(* State                                                                   *)
(*  S = [now |-> time of the latest block anywhere,                        *)
(*       ch  |-> [c \in Chains |-> chain state]]                           *)
(*  chain state = [h, bt, hist, cur, cons, frozen, log]                    *)
(*   h      last committed height (relative to the start of the run)       *)
(*   bt     [0..h -> time]  block time of each height                      *)
(*   hist   [0..h -> Prov]  hist[p] = provable state a proof "at height p" *)
(*          shows = state after block p-1                                  *)
(*   cur    Prov            state after block h (provable at h+1)          *)
(*   cons   set of counterparty heights this chain's light client holds    *)
(*   frozen                                                                *)
(*   log    sequence of application callbacks [ev, p, a]                   *)
(*  Prov = [chan, ns, nr, na, commit, receipt, ack, async]                 *)
(***************************************************************************)
EmptyFn == [x \in {} |-> 0]

InitProv == [chan |-> IF KIND = "V2" THEN "NONE" ELSE "OPEN",
             ns |-> 1, nr |-> 1, na |-> 1,
             commit |-> EmptyFn, receipt |-> {}, ack |-> EmptyFn, async |-> {}]

\* After the harness' set-up: A is one block ahead of what B's client knows.
InitChain(h0) == [h |-> h0, bt |-> [p \in 0..h0 |-> p + 1], hist |-> [p \in 0..h0 |-> InitProv],
                  cur |-> InitProv, cons |-> {0}, frozen |-> FALSE, log |-> <<>>, app |-> {}]

InitState == [now |-> 2, ch |-> [c \in Chains |-> InitChain(1)]]

Latest(S, c)      == MaxOf(S.ch[c].cons)
\* time of counterparty block p.  Blocks before the run started (p < 0) were all produced by the harness'
\* set-up within the tick that ends one tick before tick 0, i.e. "at tick -1" for every comparison with
\* integer tick times.
CpTime(S, c, p)   == IF p < 0 THEN -1 ELSE IF p > S.ch[Cp(c)].h THEN S.now + 1 ELSE S.ch[Cp(c)].bt[p]
Status(S, c, t)   ==
    IF S.ch[c].frozen THEN "Frozen"
    ELSE IF S.ch[c].cons = {} THEN "Expired"
    ELSE IF CpTime(S, c, Latest(S, c)) + TP <= t THEN "Expired" ELSE "Active"

\* what a proof at height p verified by c's client shows
\* (total: heights above the counterparty's last block would show its current state, but no
\*  light client can hold such a height, see G_ProofHeightKnown)
ProvAt(S, c, p)   == IF p < 0 THEN S.ch[Cp(c)].hist[0]
                     ELSE IF p > S.ch[Cp(c)].h THEN S.ch[Cp(c)].cur ELSE S.ch[Cp(c)].hist[p]

G_ClientActive(S, c, t)     == Status(S, c, t) = "Active"
G_ProofHeightKnown(S, c, p) == p \in S.ch[c].cons
CanVerify(S, c, p, t)       == G_ClientActive(S, c, t) /\ G_ProofHeightKnown(S, c, p)

(***************************************************************************)
(* Block commit: every transaction (successful or not) ends here.          *)
(***************************************************************************)
Commit(S, c, t, cur2, cons2, frozen2, log2) ==
    LET cs == S.ch[c]
        h2 == cs.h + 1
        cs2 == [h |-> h2,
                bt |-> [p \in 0..h2 |-> IF p = h2 THEN t ELSE cs.bt[p]],
                hist |-> [p \in 0..h2 |-> IF p = h2 THEN cs.cur ELSE cs.hist[p]],
                cur |-> cur2, cons |-> cons2, frozen |-> frozen2, log |-> log2, app |-> cs.app]
    IN [now |-> t - Skew(c), ch |-> [S.ch EXCEPT ![c] = cs2]]     \* t is c's local block time

\* application state of chain c extended by the given writes
AddApp(S2, c, writes) == [S2 EXCEPT !.ch[c].app = @ \cup writes]

NoChange(S, c, t) == Commit(S, c, t, S.ch[c].cur, S.ch[c].cons, S.ch[c].frozen, S.ch[c].log)
Err(S, c, t)  == [res |-> "err",  S |-> NoChange(S, c, t)]
Noop(S, c, t) == [res |-> "noop", S |-> NoChange(S, c, t)]
Ok(S2)        == [res |-> "ok", S |-> S2]

WithCur(S, c, t, cur2, log2) == Commit(S, c, t, cur2, S.ch[c].cons, S.ch[c].frozen, log2)

(***************************************************************************)
(* Light client actions                                                    *)
(***************************************************************************)
Trusted(S, c, p) == { x \in S.ch[c].cons : x < p }

UpdateGuard(S, c, p, t) ==
    /\ G_ClientActive(S, c, t)
    /\ p >= 1 /\ p <= S.ch[Cp(c)].h
    /\ Trusted(S, c, p) # {}
    /\ CpTime(S, c, MaxOf(Trusted(S, c, p))) + TP > t     \* trusted state not expired
    /\ CpTime(S, c, p) <= t + DRIFT                        \* header not from the future (beyond the drift)

DoUpdate(S, c, a, t) ==
    IF ~UpdateGuard(S, c, a.p, t) THEN Err(S, c, t)
    ELSE LET cs == S.ch[c]
             m  == MinOf(cs.cons)
             pruned == IF CpTime(S, c, m) + TP <= t THEN cs.cons \ {m} ELSE cs.cons
         IN Ok(Commit(S, c, t, cs.cur, pruned \cup {a.p}, cs.frozen, cs.log))

DoFreeze(S, c, a, t) ==    \* valid misbehaviour evidence against the counterparty
    IF ~G_ClientActive(S, c, t) THEN Err(S, c, t)
    ELSE Ok(Commit(S, c, t, S.ch[c].cur, S.ch[c].cons, TRUE, S.ch[c].log))

DoBlock(S, c, a, t) == Ok(NoChange(S, c, t))

(***************************************************************************)
(* Send                                                                    *)
(***************************************************************************)
G_ChanOpen(S, c) == S.ch[c].cur.chan = "OPEN"

SendV1Guard(S, c, a, t) ==
    /\ KIND \in {"UNORDERED", "ORDERED"}
    /\ G_ChanOpen(S, c)
    /\ ~(a.toH = 0 /\ a.toT = 0)
    /\ G_ClientActive(S, c, t)
    /\ ~ElapsedV1(a.toH, a.toT, Latest(S, c), CpTime(S, c, Latest(S, c)))

SendV2Guard(S, c, a, t) ==
    /\ KIND \in {"UNORDERED", "V2"}
    /\ Len(a.data) >= 1
    /\ 2 * a.toT > t                       \* timeout strictly after the (own) block time
    /\ 2 * a.toT <= t + DAY_TICKS          \* at most 24 h ahead
    /\ G_ClientActive(S, c, t)
    /\ ~ElapsedV2(a.toT, CpTime(S, c, Latest(S, c)))

NewPacket(S, c, proto, a) ==
    [proto |-> proto, src |-> c, seq |-> S.ch[c].cur.ns,
     toH |-> IF proto = "v1" THEN a.toH ELSE 0, toT |-> a.toT, data |-> a.data, route |-> "ok"]

DoSend(S, c, a, t, proto) ==
    IF ~(IF proto = "v1" THEN SendV1Guard(S, c, a, t) ELSE SendV2Guard(S, c, a, t)) THEN Err(S, c, t)
    ELSE LET cur == S.ch[c].cur
             P   == NewPacket(S, c, proto, a)
             cur2 == [cur EXCEPT !.ns = @ + 1, !.commit = (Key(P) :> P) @@ @]
         IN Ok(WithCur(S, c, t, cur2, S.ch[c].log))

(***************************************************************************)
(* Receive                                                                 *)
(***************************************************************************)
G_RouteOk(P, src)  == P.route = "ok" /\ P.src = src
G_CommitProven(S, c, P, p) ==
    LET pv == ProvAt(S, c, p) IN Key(P) \in DOMAIN pv.commit /\ pv.commit[Key(P)] = P

RecvV1Guard(S, c, P, p, t) ==        \* everything before replay protection
    /\ KIND \in {"UNORDERED", "ORDERED"}
    /\ P.proto = "v1"
    /\ G_ChanOpen(S, c)
    /\ G_RouteOk(P, Cp(c))
    /\ ~ElapsedV1(P.toH, P.toT, S.ch[c].h + 1, t)          \* G_SelfNotElapsed
    /\ CanVerify(S, c, p, t)
    /\ G_CommitProven(S, c, P, p)

DoRecvV1(S, c, a, t) ==
    LET P == a.pkt  cur == S.ch[c].cur  k == Key(a.pkt) IN
    IF ~RecvV1Guard(S, c, P, a.ph, t) THEN Err(S, c, t)
    ELSE IF KIND = "UNORDERED" /\ k \in cur.receipt THEN Noop(S, c, t)
    ELSE IF KIND = "ORDERED" /\ P.seq < cur.nr THEN Noop(S, c, t)
    ELSE IF KIND = "ORDERED" /\ P.seq # cur.nr THEN Err(S, c, t)
    ELSE LET d == P.data[1]
             o == OutcomeOf(d)
             c1 == IF KIND = "UNORDERED" THEN [cur EXCEPT !.receipt = @ \cup {k}]
                                         ELSE [cur EXCEPT !.nr = @ + 1]
             c2 == IF o = "async" THEN c1 ELSE [c1 EXCEPT !.ack = (k :> AckOfV1(d)) @@ @]
             S2 == WithCur(S, c, t, c2, Append(S.ch[c].log, [ev |-> "recv", p |-> P, a |-> <<>>]))
         IN \* a synchronous ack for a key that already has one makes the tx fail
            IF o # "async" /\ k \in DOMAIN cur.ack THEN Err(S, c, t)
            \* E_AppStateOnOutcome: writes persist for success / async, are discarded on an error ack
            ELSE Ok(IF o = "fail" THEN S2 ELSE AddApp(S2, c, AppWrites(P, {1})))

AllOk(data) == \A i \in DOMAIN data : data[i] = "ok"
\* index of the first payload that does not succeed (0 if none)
FirstNot(data, val) == IF \E i \in DOMAIN data : data[i] # val
                       THEN MinOf({ i \in DOMAIN data : data[i] # val }) ELSE 0

RecvV2Guard(S, c, P, t) ==           \* checks before the receipt (no-op) test
    /\ KIND \in {"UNORDERED", "V2"}
    /\ P.proto = "v2" /\ Len(P.data) >= 1
    /\ G_RouteOk(P, Cp(c))
    /\ ~ElapsedV2(P.toT, t)

DoRecvV2(S, c, a, t) ==
    LET P == a.pkt  cur == S.ch[c].cur  k == Key(a.pkt) IN
    IF ~RecvV2Guard(S, c, P, t) THEN Err(S, c, t)
    ELSE IF k \in cur.receipt THEN Noop(S, c, t)
    ELSE IF ~(CanVerify(S, c, a.ph, t) /\ G_CommitProven(S, c, P, a.ph)) THEN Err(S, c, t)
    ELSE LET n == Len(P.data)
             \* callbacks run in payload order and stop at the first failure
             ff == IF \E i \in 1..n : OutcomeOf(P.data[i]) = "fail" THEN MinOf({ i \in 1..n : OutcomeOf(P.data[i]) = "fail" }) ELSE 0
             fa == IF \E i \in 1..n : OutcomeOf(P.data[i]) = "async" THEN MinOf({ i \in 1..n : OutcomeOf(P.data[i]) = "async" }) ELSE 0
             c1 == [cur EXCEPT !.receipt = @ \cup {k}]
             lg == Append(S.ch[c].log, [ev |-> "recv", p |-> P, a |-> <<>>])
             so == IF \E i \in 1..n : P.data[i] = "oksent" THEN MinOf({ i \in 1..n : P.data[i] = "oksent" }) ELSE 0
         IN IF fa # 0 /\ (ff = 0 \/ fa < ff) /\ n > 1 THEN Err(S, c, t)   \* async with several payloads
            ELSE IF so # 0 /\ (ff = 0 \/ so < ff) THEN Err(S, c, t)       \* a successful app ack may not be the sentinel
            ELSE IF ff # 0 THEN
                 Ok(WithCur(S, c, t, [c1 EXCEPT !.ack = (k :> <<"SENTINEL">>) @@ @], lg))
            ELSE IF fa # 0 THEN
                 Ok(AddApp(WithCur(S, c, t, [c1 EXCEPT !.async = @ \cup {k}], lg), c, AppWrites(P, 1..n)))
            ELSE Ok(AddApp(WithCur(S, c, t, [c1 EXCEPT !.ack = (k :> [i \in 1..n |-> AckOfPayload(P.data[i])]) @@ @], lg), c, AppWrites(P, 1..n)))

(***************************************************************************)
(* Asynchronous acknowledgement written by the application                 *)
(***************************************************************************)
DoWriteAckV1(S, c, a, t) ==
    LET P == a.pkt  cur == S.ch[c].cur  k == Key(a.pkt) IN
    IF ~(G_ChanOpen(S, c) /\ k \notin DOMAIN cur.ack /\ Len(a.ack) >= 1) THEN Err(S, c, t)
    ELSE Ok(WithCur(S, c, t, [cur EXCEPT !.ack = (k :> a.ack) @@ @], S.ch[c].log))

DoWriteAckV2(S, c, a, t) ==
    LET P == a.pkt  cur == S.ch[c].cur  k == Key(a.pkt) IN
    IF ~(/\ k \in cur.async
         /\ Len(a.ack) >= 1
         /\ (a.ack = <<"SENTINEL">> \/ ("SENTINEL" \notin {a.ack[i] : i \in DOMAIN a.ack} /\ Len(a.ack) = Len(P.data)))
         /\ k \notin DOMAIN cur.ack
         /\ k \in cur.receipt)
    THEN Err(S, c, t)
    ELSE Ok(WithCur(S, c, t, [cur EXCEPT !.ack = (k :> a.ack) @@ @, !.async = @ \ {k}], S.ch[c].log))

(***************************************************************************)
(* Acknowledge                                                             *)
(***************************************************************************)
G_StoredCommitMatches(S, c, P) ==
    Key(P) \in DOMAIN S.ch[c].cur.commit /\ S.ch[c].cur.commit[Key(P)] = P
G_AckProven(S, c, P, ack, p) ==
    LET pv == ProvAt(S, c, p) IN Key(P) \in DOMAIN pv.ack /\ pv.ack[Key(P)] = ack

DoAckV1(S, c, a, t) ==
    LET P == a.pkt  cur == S.ch[c].cur  k == Key(a.pkt) IN
    IF ~(KIND \in {"UNORDERED","ORDERED"} /\ P.proto = "v1"
         /\ G_ChanOpen(S, c) /\ G_RouteOk(P, c)) THEN Err(S, c, t)
    ELSE IF k \notin DOMAIN cur.commit THEN Noop(S, c, t)
    ELSE IF ~(/\ a.canon
              /\ G_StoredCommitMatches(S, c, P)
              /\ CanVerify(S, c, a.ph, t)
              /\ G_AckProven(S, c, P, a.ack, a.ph)
              /\ (KIND = "ORDERED" => P.seq = cur.na)) THEN Err(S, c, t)
    ELSE LET c1 == [cur EXCEPT !.commit = [x \in (DOMAIN @) \ {k} |-> @[x]],
                               !.na = IF KIND = "ORDERED" THEN @ + 1 ELSE @]
         IN Ok(WithCur(S, c, t, c1, Append(S.ch[c].log, [ev |-> "ack", p |-> P, a |-> a.ack])))

\* what the applications see: the i-th app ack for the i-th payload, the sentinel for all on failure
AppAcks(P, ack) == IF ack = <<"SENTINEL">> THEN [i \in DOMAIN P.data |-> "SENTINEL"] ELSE ack

DoAckV2(S, c, a, t) ==
    LET P == a.pkt  cur == S.ch[c].cur  k == Key(a.pkt) IN
    IF ~(KIND \in {"UNORDERED","V2"} /\ P.proto = "v2" /\ Len(P.data) >= 1 /\ Len(a.ack) >= 1
         /\ G_RouteOk(P, c)) THEN Err(S, c, t)
    ELSE IF k \notin DOMAIN cur.commit THEN Noop(S, c, t)
    ELSE IF ~(/\ G_StoredCommitMatches(S, c, P)
              /\ CanVerify(S, c, a.ph, t)
              /\ G_AckProven(S, c, P, a.ack, a.ph)) THEN Err(S, c, t)
    ELSE LET c1 == [cur EXCEPT !.commit = [x \in (DOMAIN @) \ {k} |-> @[x]]]
         IN Ok(WithCur(S, c, t, c1, Append(S.ch[c].log, [ev |-> "ack", p |-> P, a |-> AppAcks(P, a.ack)])))

(***************************************************************************)
(* Timeout                                                                 *)
(***************************************************************************)
G_DestElapsedAtProof(S, c, P, p) ==       \* with the TRUE time of the counterparty block p
    IF P.proto = "v1" THEN ElapsedV1(P.toH, P.toT, p, CpTime(S, c, p))
                      ELSE ElapsedV2(P.toT, CpTime(S, c, p))
G_NotReceivedAtProof(S, c, P, p, nsr) ==
    LET pv == ProvAt(S, c, p) IN
    IF KIND = "ORDERED" THEN nsr <= P.seq /\ pv.nr = nsr
                        ELSE Key(P) \notin pv.receipt

TimeoutEffect(S, c, P, t) ==
    LET cur == S.ch[c].cur  k == Key(P)
        c1 == [cur EXCEPT !.commit = [x \in (DOMAIN @) \ {k} |-> @[x]],
                          !.chan = IF KIND = "ORDERED" THEN "CLOSED" ELSE @]
    IN Ok(WithCur(S, c, t, c1, Append(S.ch[c].log, [ev |-> "timeout", p |-> P, a |-> <<>>])))

DoTimeoutV1(S, c, a, t) ==
    LET P == a.pkt  cur == S.ch[c].cur  k == Key(a.pkt) IN
    IF ~(/\ KIND \in {"UNORDERED","ORDERED"} /\ P.proto = "v1"
         /\ G_RouteOk(P, c) /\ a.nsr >= 1
         /\ G_ProofHeightKnown(S, c, a.ph)
         /\ G_DestElapsedAtProof(S, c, P, a.ph)) THEN Err(S, c, t)
    ELSE IF k \notin DOMAIN cur.commit THEN Noop(S, c, t)
    ELSE IF ~(/\ G_StoredCommitMatches(S, c, P)
              /\ CanVerify(S, c, a.ph, t)
              /\ G_NotReceivedAtProof(S, c, P, a.ph, a.nsr)) THEN Err(S, c, t)
    ELSE TimeoutEffect(S, c, P, t)

DoTimeoutOnClose(S, c, a, t) ==
    LET P == a.pkt  cur == S.ch[c].cur  k == Key(a.pkt) IN
    IF ~(/\ KIND \in {"UNORDERED","ORDERED"} /\ P.proto = "v1"
         /\ G_RouteOk(P, c) /\ a.nsr >= 1) THEN Err(S, c, t)
    ELSE IF k \notin DOMAIN cur.commit THEN Noop(S, c, t)
    ELSE IF ~(/\ G_StoredCommitMatches(S, c, P)
              /\ CanVerify(S, c, a.ph, t)
              /\ ProvAt(S, c, a.ph).chan = "CLOSED"          \* G_CounterpartyClosedProven
              /\ G_NotReceivedAtProof(S, c, P, a.ph, a.nsr)) THEN Err(S, c, t)
    ELSE TimeoutEffect(S, c, P, t)

DoTimeoutV2(S, c, a, t) ==
    LET P == a.pkt  cur == S.ch[c].cur  k == Key(a.pkt) IN
    IF ~(/\ KIND \in {"UNORDERED","V2"} /\ P.proto = "v2" /\ Len(P.data) >= 1
         /\ G_RouteOk(P, c)
         /\ G_ProofHeightKnown(S, c, a.ph)
         /\ G_DestElapsedAtProof(S, c, P, a.ph)) THEN Err(S, c, t)
    ELSE IF k \notin DOMAIN cur.commit THEN Noop(S, c, t)
    ELSE IF ~(/\ G_StoredCommitMatches(S, c, P)
              /\ CanVerify(S, c, a.ph, t)
              /\ Key(P) \notin ProvAt(S, c, a.ph).receipt) THEN Err(S, c, t)
    ELSE LET c1 == [cur EXCEPT !.commit = [x \in (DOMAIN @) \ {k} |-> @[x]]]
         IN Ok(WithCur(S, c, t, c1, Append(S.ch[c].log, [ev |-> "timeout", p |-> P, a |-> <<>>])))

(***************************************************************************)
(* Channel closing (v1)                                                    *)
(***************************************************************************)
DoCloseInit(S, c, a, t) ==
    IF ~(KIND \in {"UNORDERED","ORDERED"} /\ G_ChanOpen(S, c) /\ G_ClientActive(S, c, t)) THEN Err(S, c, t)
    ELSE Ok(WithCur(S, c, t, [S.ch[c].cur EXCEPT !.chan = "CLOSED"], S.ch[c].log))

DoCloseConfirm(S, c, a, t) ==
    IF ~(/\ KIND \in {"UNORDERED","ORDERED"} /\ G_ChanOpen(S, c)
         /\ CanVerify(S, c, a.ph, t) /\ ProvAt(S, c, a.ph).chan = "CLOSED") THEN Err(S, c, t)
    ELSE Ok(WithCur(S, c, t, [S.ch[c].cur EXCEPT !.chan = "CLOSED"], S.ch[c].log))

(***************************************************************************)
(* Genesis export / import (C44): exporting the module's genesis, wiping   *)
(* its store and initialising it from the export is the identity on the    *)
(* abstract state, in every reachable state.                               *)
(***************************************************************************)
DoExportImport(S, c, a, t) == Ok(NoChange(S, c, t))

(***************************************************************************)
(* Step: action record a = [a |-> name, c |-> chain, dt |-> 1.., ...]      *)
(***************************************************************************)
Step(S, a) ==
    LET c == a.c  t == S.now + a.dt + Skew(c) IN      \* local block time of the acting chain
    CASE a.a = "Block"          -> DoBlock(S, c, a, t)
      [] a.a = "Update"         -> DoUpdate(S, c, a, t)
      [] a.a = "Freeze"         -> DoFreeze(S, c, a, t)
      [] a.a = "SendV1"         -> DoSend(S, c, a, t, "v1")
      [] a.a = "SendV2"         -> DoSend(S, c, a, t, "v2")
      [] a.a = "RecvV1"         -> DoRecvV1(S, c, a, t)
      [] a.a = "RecvV2"         -> DoRecvV2(S, c, a, t)
      [] a.a = "WriteAckV1"     -> DoWriteAckV1(S, c, a, t)
      [] a.a = "WriteAckV2"     -> DoWriteAckV2(S, c, a, t)
      [] a.a = "AckV1"          -> DoAckV1(S, c, a, t)
      [] a.a = "AckV2"          -> DoAckV2(S, c, a, t)
      [] a.a = "TimeoutV1"      -> DoTimeoutV1(S, c, a, t)
      [] a.a = "TimeoutOnClose" -> DoTimeoutOnClose(S, c, a, t)
      [] a.a = "TimeoutV2"      -> DoTimeoutV2(S, c, a, t)
      [] a.a = "CloseInit"      -> DoCloseInit(S, c, a, t)
      [] a.a = "CloseConfirm"   -> DoCloseConfirm(S, c, a, t)
      [] a.a = "ExportImport"   -> DoExportImport(S, c, a, t)

(***************************************************************************)
(* Properties over the application callback log (state invariants)         *)
(***************************************************************************)
Evs(S, c, ev)   == { i \in DOMAIN S.ch[c].log : S.ch[c].log[i].ev = ev }
EvKeys(S, c, ev) == [ i \in Evs(S, c, ev) |-> Key(S.ch[c].log[i].p) ]
Count(S, c, ev, k) == Cardinality({ i \in Evs(S, c, ev) : Key(S.ch[c].log[i].p) = k })
AllKeys(S, c) == { Key(S.ch[c].log[i].p) : i \in DOMAIN S.ch[c].log }

\* C01: the receive callback runs at most once per (destination, sequence)
I_AtMostOnceRecv(S) == \A c \in Chains : \A k \in AllKeys(S, c) : Count(S, c, "recv", k) <= 1
\* C03: at most one terminal outcome per sent packet, and none while/after ... the commitment is gone
I_OneTerminal(S) == \A c \in Chains : \A k \in AllKeys(S, c) :
                        Count(S, c, "ack", k) + Count(S, c, "timeout", k) <= 1
I_TerminalClearsCommit(S) == \A c \in Chains : \A i \in DOMAIN S.ch[c].log :
                        S.ch[c].log[i].ev \in {"ack","timeout"} => Key(S.ch[c].log[i].p) \notin DOMAIN S.ch[c].cur.commit
\* C04: never both received (on the destination) and timed out (on the source)
I_NotBoth(S) == \A c \in Chains : \A i \in Evs(S, c, "timeout") :
                    LET P == S.ch[c].log[i].p IN
                    ~\E j \in Evs(S, Cp(c), "recv") : S.ch[Cp(c)].log[j].p = P
\* C02: ordered channels deliver 1,2,3,... and acknowledge 1,2,3,...
SeqsOf(S, c, ev) == LET idx == Evs(S, c, ev) IN
                    [ n \in 1..Cardinality(idx) |->
                        S.ch[c].log[CHOOSE i \in idx : Cardinality({ j \in idx : j <= i }) = n].p.seq ]
I_GapFreeOrder(S) == KIND = "ORDERED" =>
                     \A c \in Chains : /\ \A n \in DOMAIN SeqsOf(S, c, "recv") : SeqsOf(S, c, "recv")[n] = n
                                       /\ \A n \in DOMAIN SeqsOf(S, c, "ack")  : SeqsOf(S, c, "ack")[n] = n
\* C06: an ack callback only for a packet the counterparty really received, with the ack it wrote
I_AckOnlyIfReceived(S) == \A c \in Chains : \A i \in Evs(S, c, "ack") :
                    LET P == S.ch[c].log[i].p IN
                    \E j \in Evs(S, Cp(c), "recv") : S.ch[Cp(c)].log[j].p = P
\* C05: a receive callback only for a packet the counterparty really sent (its commitment existed)
I_RecvOnlyIfSent(S) == \A c \in Chains : \A i \in Evs(S, c, "recv") :
                    LET P == S.ch[c].log[i].p IN
                    P.src = Cp(c) /\ P.seq < S.ch[Cp(c)].cur.ns
\* C14: a closed ORDERED channel end: no later callbacks except timeouts -- expressed as step property in Trace
\* C11: acks are write-once -- step property

AllInvariants(S) == /\ I_AtMostOnceRecv(S) /\ I_OneTerminal(S) /\ I_TerminalClearsCommit(S)
                    /\ I_NotBoth(S) /\ I_GapFreeOrder(S) /\ I_AckOnlyIfReceived(S) /\ I_RecvOnlyIfSent(S)
=============================================================================
