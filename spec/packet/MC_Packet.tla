------------------------------ MODULE MC_Packet ------------------------------
(* Exhaustive model check of the packet life cycle design (2.1a of DESIGN.md). *)
(* Failed and no-op transactions are state-equivalent to an empty block, so    *)
(* only successful transactions and empty blocks are expanded here.            *)
EXTENDS PacketActions

VARIABLE S

\* Vacuity witnesses: the first time a worker takes a successful action of a kind it prints it
\* (register per action kind, initialised in Init and inherited by the workers).
Kinds == <<"Block", "Update", "Freeze", "SendV1", "SendV2", "RecvV1", "RecvV2", "WriteAckV1", "WriteAckV2",
           "AckV1", "AckV2", "TimeoutV1", "TimeoutOnClose", "TimeoutV2", "CloseInit", "CloseConfirm">>
Idx(name) == CHOOSE i \in DOMAIN Kinds : Kinds[i] = name
Witness(a) == IF TLCGet(Idx(a.a)) = 0 THEN TLCSet(Idx(a.a), 1) /\ PrintT(<<"WITNESS", a.a>>) ELSE TRUE

Init == S = InitState /\ \A i \in DOMAIN Kinds : TLCSet(i, 0)
Next == \E a \in Honest(S) : LET r == Step(S, a) IN r.res = "ok" /\ S' = r.S /\ Witness(a)
Spec == Init /\ [][Next]_S

Bound == /\ \A c \in Chains : S.ch[c].h <= MaxH
         /\ S.now <= MaxT

Inv == AllInvariants(S)

\* action properties
AckWriteOnce == [][\A c \in Chains : \A k \in DOMAIN S.ch[c].cur.ack :
                      k \in DOMAIN S'.ch[c].cur.ack /\ S'.ch[c].cur.ack[k] = S.ch[c].cur.ack[k]]_S
ClosedStaysClosed == [][\A c \in Chains : S.ch[c].cur.chan = "CLOSED" => S'.ch[c].cur.chan = "CLOSED"]_S
SeqMonotone == [][\A c \in Chains : /\ S'.ch[c].cur.ns \in {S.ch[c].cur.ns, S.ch[c].cur.ns + 1}
                                    /\ S'.ch[c].cur.nr \in {S.ch[c].cur.nr, S.ch[c].cur.nr + 1}
                                    /\ S'.ch[c].cur.na \in {S.ch[c].cur.na, S.ch[c].cur.na + 1}]_S
\* C14: once an ORDERED end is closed no packet is sent, received or acknowledged on it
ClosedNoFlow == [][\A c \in Chains : S.ch[c].cur.chan = "CLOSED" =>
                      /\ KIND = "ORDERED" =>
                            /\ S'.ch[c].cur.ns = S.ch[c].cur.ns /\ S'.ch[c].cur.nr = S.ch[c].cur.nr
                            /\ S'.ch[c].cur.na = S.ch[c].cur.na
                      /\ \A i \in (DOMAIN S'.ch[c].log) \ (DOMAIN S.ch[c].log) :
                            S'.ch[c].log[i].p.proto = "v1" => S'.ch[c].log[i].ev = "timeout"]_S
=============================================================================
