---------------------------- MODULE PacketActions ----------------------------
(***************************************************************************)
(* Candidate actions of the environment (applications, honest and          *)
(* adversarial relayers, block production) in a state S of IBCPacket.      *)
(* Honest(S): messages built from what really happened (seen packets, real *)
(* proofs at heights the light client holds).  Adversarial(S): duplicates, *)
(* stale/unknown proof heights, forged fields, competing terminal          *)
(* messages, wrong claimed nextSequenceRecv, premature/duplicate async     *)
(* acknowledgement writes.                                                 *)
(***************************************************************************)
EXTENDS IBCPacket

CONSTANTS MaxH,      \* bound on every chain height
          MaxT,      \* bound on time
          MaxSeq,    \* packets per sending chain
          DATA,      \* receive behaviours used by senders, subset of {"ok","fail","async"}
          SENDERS,   \* chains whose applications send
          DTS,       \* admissible time increments per block
          FREEZE,    \* TRUE: misbehaviour may be submitted
          TOH_OFFS,  \* v1 timeout heights offered to senders: destination height + offset
          TOT_OFFS,  \* v1 timeout timestamps: now + offset (ticks)
          TOS_OFFS,  \* v2 timeout seconds: now div 2 + offset
          GENESIS    \* TRUE: genesis export/import steps may be taken (C44)

\* every packet ever committed by chain c (commitments are in hist or cur)
Sent(S, c) == LET cs == S.ch[c] IN
    UNION ({ { cs.hist[p].commit[k] : k \in DOMAIN cs.hist[p].commit } : p \in DOMAIN cs.hist }
           \cup { { cs.cur.commit[k] : k \in DOMAIN cs.cur.commit } })

V1 == KIND \in {"UNORDERED", "ORDERED"}
V2 == KIND \in {"UNORDERED", "V2"}

Base(c, name) == { [a |-> name, c |-> c, dt |-> d] : d \in DTS }
With(R, f, X) == { [x \in (DOMAIN r) \cup {f} |-> IF x = f THEN v ELSE r[x]] : r \in R, v \in X }

\* acks the relayer can have seen for P at height p of the counterparty
SeenAck(S, c, P, p) == LET pv == ProvAt(S, c, p) IN
                       IF Key(P) \in DOMAIN pv.ack THEN {pv.ack[Key(P)]} ELSE {}

BlockActs(S)  == UNION { Base(c, "Block") : c \in Chains }
UpdateActs(S, dup) == UNION { With(Base(c, "Update"), "p",
                              { p \in 1..S.ch[Cp(c)].h : dup \/ p \notin S.ch[c].cons }) : c \in Chains }
FreezeActs(S) == IF FREEZE THEN UNION { Base(c, "Freeze") : c \in Chains } ELSE {}

TimeoutHeights(S, c) == {0} \cup { S.ch[Cp(c)].h + d : d \in TOH_OFFS }
\* timeouts are chosen relative to the DESTINATION's clock
TimeoutTicks(S, c)   == {0} \cup { S.now + Skew(Cp(c)) + d : d \in TOT_OFFS }
TimeoutSecs(S, c)    == { ((S.now + Skew(Cp(c))) \div 2) + d : d \in TOS_OFFS }

SendActs(S) == UNION { IF S.ch[c].cur.ns > MaxSeq THEN {} ELSE
      (IF V1 THEN With(With(With(Base(c, "SendV1"), "toH", TimeoutHeights(S, c)), "toT", TimeoutTicks(S, c)),
                       "data", { <<d>> : d \in DATA }) ELSE {})
      \cup
      (IF V2 THEN With(With(Base(c, "SendV2"), "toT", TimeoutSecs(S, c)), "data",
                       { <<d>> : d \in DATA } \cup (IF "fail" \in DATA THEN { <<"ok","fail">>, <<"ok","ok">> } ELSE {})
                       \cup (IF "fail2" \in DATA THEN { <<"ok2","fail1">>, <<"ok1","ok2">>, <<"fail2","ok1">>, <<"ok1","async">>,
                                                         <<"ok1","ok","fail2">>, <<"ok2","ok1","ok">>,
                                                         <<"async1","fail1">>, <<"ok1","async","fail">>, <<"ok1","oksent">>, <<"oksent">>, <<"ok","oksent","ok1">> } ELSE {}))
             ELSE {})
    : c \in SENDERS }

Hts(S, c, adv) == IF adv THEN 0..(S.ch[Cp(c)].h + 1) ELSE S.ch[c].cons

HonestV2Ack(P) == [i \in DOMAIN P.data |-> AckOfPayload(P.data[i])]

Proto(P, name) == IF P.proto = "v1" THEN name \o "V1" ELSE name \o "V2"

RecvActs(S, adv) == UNION { UNION {
      With(With(Base(c, Proto(P, "Recv")), "pkt", {P}), "ph", Hts(S, c, adv))
    : P \in Sent(S, Cp(c)) } : c \in Chains }

AckActs(S, adv) == UNION { UNION { UNION {
      With(With(With(With(Base(c, Proto(P, "Ack")), "pkt", {P}), "ph", {p}), "ack", SeenAck(S, c, P, p)), "canon", {TRUE})
    : p \in Hts(S, c, adv) } : P \in Sent(S, c) } : c \in Chains }

Nsrs(S, c, P, p) == IF KIND = "ORDERED" THEN {ProvAt(S, c, p).nr} ELSE {1}

TimeoutActs(S, adv) == UNION { UNION { UNION {
      With(With(With(Base(c, Proto(P, "Timeout")), "pkt", {P}), "ph", {p}), "nsr", Nsrs(S, c, P, p))
      \cup (IF P.proto = "v1"
            THEN With(With(With(Base(c, "TimeoutOnClose"), "pkt", {P}), "ph", {p}), "nsr", Nsrs(S, c, P, p)) ELSE {})
    : p \in Hts(S, c, adv) } : P \in Sent(S, c) } : c \in Chains }

CloseActs(S, adv) == IF ~V1 THEN {} ELSE
      UNION { Base(c, "CloseInit") \cup With(Base(c, "CloseConfirm"), "ph", Hts(S, c, adv)) : c \in Chains }

\* asynchronous acknowledgement by the receiving application, for packets it received
Received(S, c) == { S.ch[c].log[i].p : i \in { j \in DOMAIN S.ch[c].log : S.ch[c].log[j].ev = "recv" } }
WriteAckActs(S) == UNION { UNION {
      With(With(Base(c, Proto(P, "WriteAck")), "pkt", {P}), "ack",
           IF P.proto = "v1" THEN {<<"ok">>, <<"err">>} ELSE {<<"ok">>, <<"SENTINEL">>, HonestV2Ack(P)})
    : P \in { Q \in Received(S, c) : \E i \in DOMAIN Q.data : OutcomeOf(Q.data[i]) = "async" } } : c \in Chains }


GenesisActs(S) == IF GENESIS THEN UNION { Base(c, "ExportImport") : c \in Chains } ELSE {}

Honest(S) == GenesisActs(S) \cup BlockActs(S) \cup UpdateActs(S, FALSE) \cup FreezeActs(S) \cup SendActs(S)
             \cup RecvActs(S, FALSE) \cup AckActs(S, FALSE)
             \cup TimeoutActs(S, FALSE) \cup CloseActs(S, FALSE) \cup WriteAckActs(S)

(***************************************************************************)
(* Adversarial extension                                                   *)
(***************************************************************************)
Mutants(P) ==
    { [P EXCEPT !.seq = @ + 1], [P EXCEPT !.toT = @ + 1], [P EXCEPT !.route = "bad"],
      [P EXCEPT !.proto = IF @ = "v1" THEN "v2" ELSE "v1"],
      [P EXCEPT !.data = IF @[1] = "ok" THEN <<"fail">> \o Tail(@) ELSE <<"ok">> \o Tail(@)] }
    \cup (IF P.proto = "v1" THEN { [P EXCEPT !.toH = @ + 1] } ELSE { [P EXCEPT !.data = @ \o <<"ok">>] })
    \cup (IF P.seq > 1 THEN { [P EXCEPT !.seq = @ - 1] } ELSE {})


\* "hashok"/"hasherr": the 32-byte SHA-256 digest of the real acknowledgement submitted as if it were the acknowledgement
BadAcks(P) == IF P.proto = "v1" THEN { <<"ok">>, <<"err">>, <<"bad">>, <<"hashok">>, <<"hasherr">> }
              ELSE { <<"ok">>, <<"SENTINEL">>, <<"ok","ok">>, <<"bad">>, [i \in DOMAIN P.data |-> "ok"], HonestV2Ack(P),
                     [i \in DOMAIN P.data |-> HonestV2Ack(P)[Len(P.data) + 1 - i]] }     \* the honest list reversed

MutRecvActs(S) == UNION { UNION { UNION {     \* forged packets with real proofs of the original
           With(With(Base(c, Proto(M, "Recv")), "pkt", {M}), "ph", S.ch[c].cons)
         : M \in Mutants(P) } : P \in Sent(S, Cp(c)) } : c \in Chains }

MutTermActs(S) == UNION { UNION { UNION { UNION {  \* forged packets / acks on the sending side
           With(With(With(With(Base(c, Proto(M, "Ack")), "pkt", {M}), "ph", {p}), "ack", BadAcks(M)), "canon", {TRUE, FALSE})
           \cup With(With(With(Base(c, Proto(M, "Timeout")), "pkt", {M}), "ph", {p}),
                     "nsr", IF KIND = "ORDERED" THEN {ProvAt(S, c, p).nr, M.seq, M.seq + 1} ELSE {1})
         : p \in S.ch[c].cons } : M \in Mutants(P) \cup {P} } : P \in Sent(S, c) } : c \in Chains }

BadWriteAckActs(S) == UNION { UNION {          \* async acks for packets that are not waiting for one
           With(With(Base(c, Proto(P, "WriteAck")), "pkt", {P}), "ack", BadAcks(P))
         : P \in Received(S, c) } : c \in Chains }

\* sends that must be rejected: elapsed / missing / too distant timeouts
BadSendActs(S) == UNION {
      (IF V1 THEN With(With(With(Base(c, "SendV1"), "toH", {0, 1, S.ch[Cp(c)].h, S.ch[Cp(c)].h + 5}),
                            "toT", {0, 1, S.now, S.now + Skew(c), CpTime(S, c, Latest(S, c)), CpTime(S, c, Latest(S, c)) + 1, S.now + 30}),
                       "data", { <<"ok">> }) ELSE {})
      \cup (IF V2 THEN With(With(With(Base(c, "SendV2"),
                            "toT", {0, S.now \div 2, (S.now \div 2) + 1, ((S.now + Skew(c)) \div 2) + 1, ((S.now + Skew(c)) \div 2) + 2, CpTime(S, c, Latest(S, c)) \div 2, (CpTime(S, c, Latest(S, c)) \div 2) + 1,
                                    (S.now \div 2) + 86400, (S.now \div 2) + 86401}),
                            "data", { <<"ok">>, <<>> }), "direct", {TRUE, FALSE}) ELSE {})
    : c \in Chains }

\* Sends exactly on each guard's boundary (consensus time/height of the client's latest state, the sender's own
\* block time, the 24 h cap), v2 sends also as direct handler calls (a rejected handler must leave nothing behind).
SendEdgeActs(S) == UNION {
      LET lt == CpTime(S, c, Latest(S, c))      \* consensus time of the latest state
          lh == Latest(S, c)
          t1 == S.now + 1 + Skew(c)              \* own block time if dt = 1
      IN
      (IF V1 THEN With(With(With(Base(c, "SendV1"), "toH", {0, lh, lh + 1, lh + 5}), "toT", {0, lt, lt + 1, lt + 9}),
                       "data", { <<"ok">> }) ELSE {})
      \cup (IF V2 THEN With(With(With(Base(c, "SendV2"),
                            "toT", { lt \div 2, (lt \div 2) + 1, t1 \div 2, (t1 \div 2) + 1, (t1 \div 2) + 2,
                                     (t1 + DAY_TICKS) \div 2, ((t1 + DAY_TICKS) \div 2) + 1, (lt \div 2) + 9 }),
                            "data", { <<"ok">> }), "direct", {TRUE, FALSE}) ELSE {})
    : c \in Chains }

Adversarial(S) == SendEdgeActs(S) \cup
    UpdateActs(S, TRUE)
    \cup RecvActs(S, TRUE) \cup AckActs(S, TRUE)
    \cup TimeoutActs(S, TRUE) \cup CloseActs(S, TRUE)
    \cup MutRecvActs(S) \cup MutTermActs(S) \cup BadWriteAckActs(S) \cup BadSendActs(S)
=============================================================================
