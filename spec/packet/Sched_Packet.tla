---------------------------- MODULE Sched_Packet ----------------------------
(***************************************************************************)
(* Behaviour generation (2.1b of DESIGN.md): random walks of the           *)
(* specification, run with  tlc -simulate.  Each walk is written as one    *)
(* JSON schedule file and later executed against the real chains.          *)
(* A step is drawn from the honest actions that succeed (HONEST_PCT % of   *)
(* the steps) or from the adversarial pool; after every successful relay   *)
(* the relayer is forced to re-submit it and to submit the competing       *)
(* terminal message (3.3 of DESIGN.md).                                    *)
(***************************************************************************)
EXTENDS PacketActions, Json

CONSTANTS Depth, OutDir, HONEST_PCT, MACRO_PCT, EDGE_PCT

VARIABLES S, sched, todo

Init == S = InitState /\ sched = <<>> /\ todo = <<>>

IsRelay(a) == a.a \in {"RecvV1", "RecvV2", "AckV1", "AckV2", "TimeoutV1", "TimeoutV2", "TimeoutOnClose"}

\* with all fields of the competing terminal message for the same packet and proof height
Competing(S0, a) ==
    IF a.a \in {"AckV1", "AckV2"} THEN
        <<[a |-> IF a.a = "AckV1" THEN "TimeoutV1" ELSE "TimeoutV2", c |-> a.c, dt |-> 1, pkt |-> a.pkt, ph |-> a.ph,
           nsr |-> IF KIND = "ORDERED" THEN ProvAt(S0, a.c, a.ph).nr ELSE 1]>>
    ELSE IF a.a \in {"TimeoutV1", "TimeoutV2", "TimeoutOnClose"} THEN
        <<[a |-> IF a.a = "TimeoutV2" THEN "AckV2" ELSE "AckV1", c |-> a.c, dt |-> 1, pkt |-> a.pkt, ph |-> a.ph,
           ack |-> <<"ok">>, canon |-> TRUE]>>
    ELSE <<>>

OkActs(S0, pool) == { a \in pool : Step(S0, a).res = "ok" }

\* Sampling instead of building the whole candidate set: draw an action class, then an action of it.
HonestClass(S0, cls) ==
    CASE cls = "Block"    -> BlockActs(S0)
      [] cls = "Update"   -> UpdateActs(S0, FALSE)
      [] cls = "Freeze"   -> IF 3 * Len(sched) > 2 * Depth /\ RandomElement(1..3) = 1 THEN FreezeActs(S0) ELSE {}
      [] cls = "Send"     -> SendActs(S0)
      [] cls = "Recv"     -> RecvActs(S0, FALSE)
      [] cls = "Ack"      -> AckActs(S0, FALSE)
      [] cls = "Timeout"  -> TimeoutActs(S0, FALSE)
      [] cls = "Close"    -> IF 2 * Len(sched) > Depth /\ RandomElement(1..2) = 1 THEN CloseActs(S0, FALSE) ELSE {}
      [] cls = "WriteAck" -> WriteAckActs(S0)
      [] cls = "Genesis"  -> GenesisActs(S0)

HonestWeights0 == <<"Block", "Update", "Update", "Update", "Update", "Send", "Send", "Send", "Recv", "Recv", "Recv", "Recv", "Recv",
                   "Ack", "Ack", "Ack", "Ack", "Timeout", "Timeout", "Timeout", "WriteAck", "WriteAck", "Close", "Freeze">>

HonestWeights == IF GENESIS THEN HonestWeights0 \o <<"Genesis", "Genesis", "Genesis", "Genesis">> ELSE HonestWeights0

AdvClass(S0, cls) ==
    CASE cls = "DupUpdate"  -> UpdateActs(S0, TRUE)
      [] cls = "AnyRecv"    -> RecvActs(S0, TRUE)
      [] cls = "AnyAck"     -> AckActs(S0, TRUE)
      [] cls = "AnyTimeout" -> TimeoutActs(S0, TRUE)
      [] cls = "AnyClose"   -> CloseActs(S0, TRUE)
      [] cls = "MutRecv"    -> MutRecvActs(S0)
      [] cls = "MutTerm"    -> MutTermActs(S0)
      [] cls = "BadWrite"   -> BadWriteAckActs(S0)
      [] cls = "BadSend"    -> BadSendActs(S0)
      [] cls = "SendEdge"   -> SendEdgeActs(S0)

AdvWeights == <<"DupUpdate", "AnyRecv", "AnyRecv", "AnyAck", "AnyTimeout", "AnyTimeout", "AnyClose",
                "MutRecv", "MutRecv", "MutTerm", "MutTerm", "BadWrite", "BadSend", "SendEdge", "SendEdge", "SendEdge">>

PickFrom(X, fallback) == IF X = {} THEN fallback ELSE RandomElement(X)

\* honest step: try a few randomly drawn classes until one has an action that succeeds
TryClass(S0) == OkActs(S0, HonestClass(S0, HonestWeights[RandomElement(1..Len(HonestWeights))]))

\* NOTE: every random draw is bound exactly once through a set binder (never through LET, whose
\* body TLC may evaluate again on every reference).
Pick(S0) ==
    CHOOSE x \in UNION { UNION { UNION { UNION { UNION { UNION {
        { IF roll <= HONEST_PCT
          THEN (IF c1 # {} THEN RandomElement(c1) ELSE IF c2 # {} THEN RandomElement(c2)
                ELSE IF c3 # {} THEN RandomElement(c3) ELSE blk)
          ELSE (IF adv # {} THEN RandomElement(adv) ELSE blk) }
        : adv \in { IF roll <= HONEST_PCT THEN {} ELSE AdvClass(S0, AdvWeights[RandomElement(1..Len(AdvWeights))]) } }
        : c3 \in { IF roll <= HONEST_PCT THEN TryClass(S0) ELSE {} } }
        : c2 \in { IF roll <= HONEST_PCT THEN TryClass(S0) ELSE {} } }
        : c1 \in { IF roll <= HONEST_PCT THEN TryClass(S0) ELSE {} } }
        : blk \in { RandomElement(BlockActs(S0)) } }
        : roll \in { RandomElement(1..100) } } : TRUE

Bounded(S0) == /\ \A c \in Chains : S0.ch[c].h <= MaxH
               /\ S0.now <= MaxT

(***************************************************************************)
(* Relayer macros: a goal-directed honest relayer.  Each macro is a short  *)
(* fixed sequence (block on the proving chain, client update to that       *)
(* block, relay message with the proof at that height).                    *)
(***************************************************************************)
Blk(c, d) == [a |-> "Block", c |-> c, dt |-> d]
Upd(c, p) == [a |-> "Update", c |-> c, dt |-> 1, p |-> p]
Rep(x, n) == [i \in 1..n |-> x]

\* packets sent by the counterparty of c and not yet received on c
PendingRecv(S0, c) == { P \in Sent(S0, Cp(c)) :
      /\ Key(P) \in DOMAIN S0.ch[Cp(c)].cur.commit
      /\ Key(P) \notin S0.ch[c].cur.receipt
      /\ (KIND = "ORDERED" => P.seq = S0.ch[c].cur.nr) }
\* packets sent by c whose acknowledgement exists on the counterparty
PendingAck(S0, c) == { P \in Sent(S0, c) :
      /\ Key(P) \in DOMAIN S0.ch[c].cur.commit
      /\ Key(P) \in DOMAIN S0.ch[Cp(c)].cur.ack
      /\ (KIND = "ORDERED" => P.seq = S0.ch[c].cur.na) }
\* packets sent by c, still committed, not received
PendingTimeout(S0, c) == { P \in Sent(S0, c) :
      /\ Key(P) \in DOMAIN S0.ch[c].cur.commit
      /\ Key(P) \notin S0.ch[Cp(c)].cur.receipt
      /\ (KIND = "ORDERED" => P.seq >= S0.ch[Cp(c)].cur.nr) }

MacroRecv(S0, c, P) == LET o == Cp(c)  h == S0.ch[o].h + 1 IN
    << Blk(o, 1), Upd(c, h),
       [a |-> Proto(P, "Recv"), c |-> c, dt |-> 1, pkt |-> P, ph |-> h] >>

MacroAck(S0, c, P) == LET o == Cp(c)  h == S0.ch[o].h + 1 IN
    << Blk(o, 1), Upd(c, h),
       [a |-> Proto(P, "Ack"), c |-> c, dt |-> 1, pkt |-> P, ph |-> h, ack |-> S0.ch[o].cur.ack[Key(P)], canon |-> TRUE] >>

\* number of destination blocks (2 ticks each) until the timeout has passed there
BlocksToElapse(S0, c, P) == LET o == Cp(c) IN
    IF P.proto = "v1"
    THEN LET nh == IF P.toH # 0 THEN P.toH - S0.ch[o].h ELSE 0
             nt == IF P.toT # 0 THEN ((P.toT - (S0.now + Skew(o))) \div 2) + 1 ELSE 0
         IN IF P.toH # 0 /\ (P.toT = 0 \/ nh <= nt) THEN nh ELSE nt
    ELSE (P.toT * 2 - (S0.now + Skew(o))) \div 2 + 1

MacroTimeout(S0, c, P) == LET o == Cp(c)
                              n == IF BlocksToElapse(S0, c, P) < 1 THEN 1 ELSE BlocksToElapse(S0, c, P)
                              h == S0.ch[o].h + n IN
    Rep(Blk(o, 2), n) \o
    << Upd(c, h),
       [a |-> Proto(P, "Timeout"), c |-> c, dt |-> 1, pkt |-> P, ph |-> h,
        nsr |-> IF KIND = "ORDERED" THEN S0.ch[o].cur.nr ELSE 1] >>

(***************************************************************************)
(* Boundary macros: the receive is executed exactly AT the timeout         *)
(* (k = 0, must fail) or one height / tick before it (k = 1, last chance), *)
(* and the timeout is proven exactly at (k = 0) or just before (k = 1,     *)
(* must fail) the moment the destination reaches the timeout.              *)
(***************************************************************************)
EdgeTick(P) == IF P.proto = "v1" THEN P.toT ELSE 2 * P.toT     \* first tick at which the timestamp has elapsed

MacroRecvEdgeH(S0, c, P, k) == LET o == Cp(c)  h == S0.ch[o].h + 1
                                   m == P.toH - k - 2 - S0.ch[c].h IN
    << Blk(o, 1) >> \o Rep(Blk(c, 1), m) \o
    << Upd(c, h), [a |-> Proto(P, "Recv"), c |-> c, dt |-> 1, pkt |-> P, ph |-> h] >>

MacroRecvEdgeT(S0, c, P, k) == LET o == Cp(c)  h == S0.ch[o].h + 1
                                   d == EdgeTick(P) - k - (S0.now + Skew(c) + 2) IN
    << Blk(o, 1), Upd(c, h), [a |-> Proto(P, "Recv"), c |-> c, dt |-> d, pkt |-> P, ph |-> h] >>

MacroTimeoutEdgeH(S0, c, P, k) == LET o == Cp(c)
                                      n == P.toH - k - S0.ch[o].h
                                      h == S0.ch[o].h + n IN
    Rep(Blk(o, 1), n) \o
    << Upd(c, h), [a |-> Proto(P, "Timeout"), c |-> c, dt |-> 1, pkt |-> P, ph |-> h,
                   nsr |-> IF KIND = "ORDERED" THEN S0.ch[o].cur.nr ELSE 1] >>

MacroTimeoutEdgeT(S0, c, P, k) == LET o == Cp(c)
                                      d == EdgeTick(P) - k - (S0.now + Skew(o))
                                      h == S0.ch[o].h + 1 IN
    << Blk(o, d), Upd(c, h), [a |-> Proto(P, "Timeout"), c |-> c, dt |-> 1, pkt |-> P, ph |-> h,
                              nsr |-> IF KIND = "ORDERED" THEN S0.ch[o].cur.nr ELSE 1] >>

\* Stale-proof timeout: the destination is driven past the timeout and the client updated to that block,
\* but the relayer proves non-receipt at an OLDER height the client also holds, where the timeout had not
\* yet been reached (must fail: elapsed-ness is judged at the proof height, not at the client's latest height).
MacroTimeoutStale(S0, c, P, old) == LET o == Cp(c)
                                        n == IF BlocksToElapse(S0, c, P) < 1 THEN 1 ELSE BlocksToElapse(S0, c, P)
                                        h == S0.ch[o].h + n IN
    Rep(Blk(o, 2), n) \o
    << Upd(c, h),
       [a |-> Proto(P, "Timeout"), c |-> c, dt |-> 1, pkt |-> P, ph |-> old,
        nsr |-> IF KIND = "ORDERED" THEN ProvAt(S0, c, old).nr ELSE 1] >>

StaleMacros(S0) == UNION { UNION {
      { MacroTimeoutStale(S0, c, P, old) : old \in { x \in S0.ch[c].cons : x >= 0 /\ ~G_DestElapsedAtProof(S0, c, P, x) } }
    : P \in { Q \in PendingTimeout(S0, c) : BlocksToElapse(S0, c, Q) <= 6 } } : c \in Chains }

\* Boundary race: the receive is attempted in the destination block that sits exactly on the timeout, then the
\* source learns that very block and the timeout is proven at its height (the state before the block, where the
\* packet is unreceived, with the block's height/time, which has reached the timeout).  Exactly one of the two
\* may succeed.
RaceTail(S0, c, P, hR) == LET o == Cp(c) IN
    << Upd(o, hR), [a |-> Proto(P, "Timeout"), c |-> o, dt |-> 1, pkt |-> P, ph |-> hR,
                    nsr |-> IF KIND = "ORDERED" THEN S0.ch[c].cur.nr ELSE 1] >>
RaceMacros(S0) == UNION {
         { MacroRecvEdgeH(S0, c, P, 0) \o RaceTail(S0, c, P, P.toH)
             : P \in { Q \in PendingRecv(S0, c) : Q.proto = "v1" /\ Q.toH # 0 /\ Q.toH - 2 - S0.ch[c].h \in 0..8 } }
    \cup { MacroRecvEdgeT(S0, c, P, 0) \o RaceTail(S0, c, P, S0.ch[c].h + 2)
             : P \in { Q \in PendingRecv(S0, c) : Q.toT # 0 /\ EdgeTick(Q) - (S0.now + Skew(c) + 2) \in 1..40 } }
      : c \in Chains }

\* Use of an expired client (only in runs with a short trusting period): the proof height is held by the client,
\* then time jumps past the trusting period before the relay message is executed (must be rejected).
ExpiredMacros(S0) == IF TP > 1000 THEN {} ELSE UNION {
         { LET o == Cp(c)  h == S0.ch[o].h + 1 IN
           << Blk(o, 1), Upd(c, h), Blk(c, TP + 1),
              [a |-> Proto(P, "Recv"), c |-> c, dt |-> 1, pkt |-> P, ph |-> h] >>
           : P \in { Q \in PendingRecv(S0, c) :
                        IF Q.proto = "v1" THEN (Q.toT = 0 \/ Q.toT > S0.now + Skew(c) + TP + 4) /\ (Q.toH = 0 \/ Q.toH > S0.ch[c].h + 4)
                                          ELSE 2 * Q.toT > S0.now + Skew(c) + TP + 4 } }
    \cup { LET o == Cp(c)  h == S0.ch[o].h + 1 IN
           << Blk(o, 1), Upd(c, h), Blk(c, TP + 1),
              [a |-> Proto(P, "Ack"), c |-> c, dt |-> 1, pkt |-> P, ph |-> h, ack |-> S0.ch[o].cur.ack[Key(P)], canon |-> TRUE] >>
           : P \in PendingAck(S0, c) }
    \cup { LET o == Cp(c)  h == S0.ch[o].h + 1 IN
           << Blk(o, TP + 1), Upd(c, h), Blk(c, TP + 1),
              [a |-> Proto(P, "Timeout"), c |-> c, dt |-> 1, pkt |-> P, ph |-> h,
               nsr |-> IF KIND = "ORDERED" THEN S0.ch[o].cur.nr ELSE 1] >>
           : P \in { Q \in PendingTimeout(S0, c) : Q.toT # 0 } }
      : c \in Chains }

\* Send whose timeout equals the consensus time of the client's latest state exactly while the sender's own clock is
\* still before it (needs the destination's clock to run ahead): the own-block-time guard passes, the consensus
\* guard must reject.  Also as a direct handler call: the late rejection must leave no state (sequence!) behind.
SendConsMacros(S0) == IF ~V2 THEN {} ELSE UNION { UNION {
      LET o == Cp(c)  h == S0.ch[o].h  lt == S0.ch[o].bt[h] IN
      IF lt % 2 = 0 /\ lt > S0.now + 2 + Skew(c) /\ S0.ch[c].cur.ns <= MaxSeq
      THEN { << Upd(c, h), [a |-> "SendV2", c |-> c, dt |-> 1, toT |-> lt \div 2, data |-> <<"ok">>, direct |-> d] >> }
      ELSE {}
    : d \in {TRUE, FALSE} } : c \in SENDERS }

\* Out-of-order relays on ORDERED channels: the successor is relayed first (must be rejected), then the packet
\* whose turn it is, then the successor again (now accepted).
OooMacros(S0) == IF KIND # "ORDERED" THEN {} ELSE UNION {
      LET o == Cp(c)  h == S0.ch[o].h + 1 IN
         { << Blk(o, 1), Upd(c, h),
              [a |-> "RecvV1", c |-> c, dt |-> 1, pkt |-> Q, ph |-> h],
              [a |-> "RecvV1", c |-> c, dt |-> 1, pkt |-> P, ph |-> h],
              [a |-> "RecvV1", c |-> c, dt |-> 1, pkt |-> Q, ph |-> h] >>
           : <<P, Q>> \in { <<P1, Q1>> \in Sent(S0, o) \X Sent(S0, o) :
                              /\ P1.seq = S0.ch[c].cur.nr /\ Q1.seq = P1.seq + 1
                              /\ Key(P1) \in DOMAIN S0.ch[o].cur.commit /\ Key(Q1) \in DOMAIN S0.ch[o].cur.commit } }
    \cup { << Blk(o, 1), Upd(c, h),
              [a |-> "AckV1", c |-> c, dt |-> 1, pkt |-> Q, ph |-> h, ack |-> S0.ch[o].cur.ack[Key(Q)], canon |-> TRUE],
              [a |-> "AckV1", c |-> c, dt |-> 1, pkt |-> P, ph |-> h, ack |-> S0.ch[o].cur.ack[Key(P)], canon |-> TRUE],
              [a |-> "AckV1", c |-> c, dt |-> 1, pkt |-> Q, ph |-> h, ack |-> S0.ch[o].cur.ack[Key(Q)], canon |-> TRUE] >>
           : <<P, Q>> \in { <<P1, Q1>> \in Sent(S0, c) \X Sent(S0, c) :
                              /\ P1.seq = S0.ch[c].cur.na /\ Q1.seq = P1.seq + 1
                              /\ Key(P1) \in DOMAIN S0.ch[o].cur.ack /\ Key(Q1) \in DOMAIN S0.ch[o].cur.ack
                              /\ Key(P1) \in DOMAIN S0.ch[c].cur.commit /\ Key(Q1) \in DOMAIN S0.ch[c].cur.commit } }
    : c \in Chains }

EdgeMacros(S0) == StaleMacros(S0) \cup RaceMacros(S0) \cup ExpiredMacros(S0) \cup SendConsMacros(S0) \cup OooMacros(S0) \cup
    UNION { UNION {
         { MacroRecvEdgeH(S0, c, P, k) : P \in { Q \in PendingRecv(S0, c) : Q.proto = "v1" /\ Q.toH # 0
                                                   /\ Q.toH - k - 2 - S0.ch[c].h \in 0..8 } }
    \cup { MacroRecvEdgeT(S0, c, P, k) : P \in { Q \in PendingRecv(S0, c) : Q.toT # 0
                                                   /\ EdgeTick(Q) - k - (S0.now + Skew(c) + 2) \in 1..40 } }
    \cup { MacroTimeoutEdgeH(S0, c, P, k) : P \in { Q \in PendingTimeout(S0, c) : Q.proto = "v1" /\ Q.toH # 0
                                                   /\ Q.toH - k - S0.ch[Cp(c)].h \in 1..8 } }
    \cup { MacroTimeoutEdgeT(S0, c, P, k) : P \in { Q \in PendingTimeout(S0, c) : Q.toT # 0
                                                   /\ EdgeTick(Q) - k - (S0.now + Skew(Cp(c))) \in 1..40 } }
      : k \in {0, 1} } : c \in Chains }

Macros(S0) ==
    UNION { { MacroRecv(S0, c, P) : P \in PendingRecv(S0, c) }
            \cup { MacroAck(S0, c, P) : P \in PendingAck(S0, c) }
            \cup { MacroTimeout(S0, c, P) : P \in { Q \in PendingTimeout(S0, c) : BlocksToElapse(S0, c, Q) <= 6 } }
          : c \in Chains }

Follow(S0, a, r) == IF r.res = "ok" /\ IsRelay(a) /\ "fu" \notin DOMAIN a
                    THEN LET f == <<a>> \o Competing(S0, a)
                         IN [i \in DOMAIN f |-> [x \in (DOMAIN f[i]) \cup {"fu"} |-> IF x = "fu" THEN TRUE ELSE f[i][x]]]
                    ELSE <<>>

Next ==
    /\ Len(sched) < Depth
    /\ Bounded(S)
    /\ \E roll \in { RandomElement(1..100) } :
       \E ms \in { IF todo = <<>> /\ roll <= MACRO_PCT
                   THEN (IF roll <= EDGE_PCT /\ EdgeMacros(S) # {} THEN EdgeMacros(S) ELSE Macros(S)) ELSE {} } :
       \E plan \in { IF todo # <<>> THEN todo ELSE IF ms # {} THEN RandomElement(ms) ELSE <<Pick(S)>> } :
       LET a == Head(plan)
           r == Step(S, a)
       IN /\ S' = r.S
          /\ sched' = Append(sched, a)
          /\ todo' = Follow(S, a, r) \o Tail(plan)
          /\ (Len(sched') = Depth \/ ~Bounded(r.S)) =>
                JsonSerialize(OutDir \o "/s" \o ToString(TLCGet("stats").traces) \o "_" \o ToString(RandomElement(1..1000000)) \o ".json",
                              [kind |-> KIND, tp |-> TP, ska |-> SKEW_A, skb |-> SKEW_B, acts |-> sched'])

Spec == Init /\ [][Next]_<<S, sched, todo>>
=============================================================================
