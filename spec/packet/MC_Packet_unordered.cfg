SPECIFICATION Spec
CONSTANTS
  KIND = "UNORDERED"
  TP = 1000
  MaxH = 4
  MaxT = 9
  MaxSeq = 1
  DATA = {"ok"}
  SENDERS = {"A"}
  DTS = {1}
  FREEZE = FALSE
CONSTRAINT Bound
INVARIANT Inv
PROPERTIES AckWriteOnce ClosedStaysClosed SeqMonotone ClosedNoFlow
CHECK_DEADLOCK FALSE
