---------------------------- MODULE Trace_Packet ----------------------------
(***************************************************************************)
(* Validation of traces recorded from the real ibc-go code against         *)
(* IBCPacket.  Every trace line carries the action, the result class of    *)
(* the transaction and the projected abstract state after it.  The state   *)
(* of the specification is rebuilt from the logged values (so the search   *)
(* is linear), the specification's own Step operator is evaluated on the   *)
(* logged pre-state, and the named property monitors below are evaluated   *)
(* on every (pre, action, result, post).  A false monitor is printed as    *)
(*    <<"MONFAIL", trace id, step, <<property, clause>>>>                  *)
(* and the run continues, so one TLC run judges every property.            *)
(* "X-*" entries are harness sanity checks, "CONF" is full conformance     *)
(* with the specification (diagnostic, decides no property).               *)
(***************************************************************************)
EXTENDS IBCPacket, Json, SequencesExt

CONSTANT TraceFile

Trace == ndJsonDeserialize(TraceFile)

VARIABLES l, S, obs

SetOf(arr) == { arr[i] : i \in DOMAIN arr }
MapOf(arr) == [ k \in { arr[i].k : i \in DOMAIN arr } |-> arr[CHOOSE i \in DOMAIN arr : arr[i].k = k].v ]

ProvOf(j) == [chan |-> j.chan, ns |-> j.ns, nr |-> j.nr, na |-> j.na,
              commit |-> MapOf(j.commit), receipt |-> SetOf(j.receipt),
              ack |-> MapOf(j.ack), async |-> SetOf(j.async)]

\* application writes are logged as [k, i, w] records
AppOf(arr) == { <<arr[x].k, arr[x].i, arr[x].w>> : x \in DOMAIN arr }

InitChainOf(j) == [h |-> j.h,
                   bt |-> [p \in 0..j.h |-> j.bt[p + 1]],
                   hist |-> [p \in 0..j.h |-> ProvOf(j.cur)],
                   cur |-> ProvOf(j.cur), cons |-> SetOf(j.cons), frozen |-> j.frozen, log |-> j.log,
                   app |-> AppOf(j.app)]
InitOf(ln) == [now |-> ln.st.now, ch |-> [c \in Chains |-> InitChainOf(ln.st.ch[c])]]
ObsOf(ln)  == [c \in Chains |-> [dig |-> ln.st.ch[c].dig, status |-> ln.st.ch[c].status, meta |-> ln.st.ch[c].meta]]

(***************************************************************************)
(* Monitors                                                                *)
(***************************************************************************)
IsRecv(a)    == a.a \in {"RecvV1", "RecvV2"}
IsAck(a)     == a.a \in {"AckV1", "AckV2"}
IsTimeout(a) == a.a \in {"TimeoutV1", "TimeoutV2", "TimeoutOnClose"}
IsSend(a)    == a.a \in {"SendV1", "SendV2"}
IsWriteAck(a) == a.a \in {"WriteAckV1", "WriteAckV2"}
HasPkt(a)    == IsRecv(a) \/ IsAck(a) \/ IsTimeout(a) \/ IsWriteAck(a)

NewEvents(pre, post) == IF IsPrefix(pre.log, post.log)
                        THEN SubSeq(post.log, Len(pre.log) + 1, Len(post.log)) ELSE <<[ev |-> "LOG-REWRITTEN"]>>
EvCount(evs, kinds) == Cardinality({ i \in DOMAIN evs : evs[i].ev \in kinds })

\* the set of <<property, clause>> pairs violated by this step
Viol(pre, a, r, post, dig0, dig1, st1, st2) ==
  LET c    == a.c
      t    == pre.now + a.dt + Skew(c)
      cs   == pre.ch[c]
      cur  == cs.cur
      ps   == post.ch[c]
      pc   == ps.cur
      E    == Step(pre, a)
      P    == a.pkt
      k    == Key(a.pkt)
      new  == NewEvents(cs, ps)
      Unchanged == pc = cur /\ ps.cons = cs.cons /\ ps.frozen = cs.frozen /\ ps.log = cs.log /\ dig0 = dig1
      Rejected  == r \in {"err", "noop"}
      ReceivedBefore == \/ \E i \in DOMAIN cs.log : cs.log[i].ev = "recv" /\ Key(cs.log[i].p) = k
                        \/ IF KIND = "ORDERED" THEN P.seq < cur.nr ELSE k \in cur.receipt
      NewKeys == (DOMAIN pc.commit) \ (DOMAIN cur.commit)
      SentP   == NewPacket(pre, c, IF a.a = "SendV1" THEN "v1" ELSE "v2", a)
      SendGuard == IF a.a = "SendV1" THEN SendV1Guard(pre, c, a, t) ELSE SendV2Guard(pre, c, a, t)
      RecvFullGuard == IF a.a = "RecvV1" THEN RecvV1Guard(pre, c, P, a.ph, t)
                       ELSE RecvV2Guard(pre, c, P, t) /\ CanVerify(pre, c, a.ph, t) /\ G_CommitProven(pre, c, P, a.ph)
      Consumer == a.a \in {"Update", "Freeze", "SendV1", "SendV2", "RecvV1", "RecvV2", "AckV1", "AckV2",
                           "TimeoutV1", "TimeoutOnClose", "TimeoutV2", "CloseInit", "CloseConfirm"}
  IN
  \* ---- C01 exactly-once delivery ------------------------------------------------------
     { <<"C01", "I_AtMostOnceRecv">> : x \in IF I_AtMostOnceRecv(post) THEN {} ELSE {1} }
  \cup { <<"C01", "duplicate-relay-is-noop">> : x \in IF IsRecv(a) /\ ReceivedBefore /\ ~(Rejected /\ Unchanged) THEN {1} ELSE {} }
  \cup { <<"C01", "recv-callback-exactly-once">> : x \in
           IF IsRecv(a) /\ r = "ok" /\ ~(new = <<[ev |-> "recv", p |-> P, a |-> <<>>]>>) THEN {1} ELSE {} }
  \cup { <<"C01", "no-recv-callback-elsewhere">> : x \in
           IF ~(IsRecv(a) /\ r = "ok") /\ EvCount(new, {"recv"}) # 0 THEN {1} ELSE {} }
  \* ---- C02 ordered delivery -----------------------------------------------------------
  \cup { <<"C02", "I_GapFreeOrder">> : x \in IF I_GapFreeOrder(post) THEN {} ELSE {1} }
  \cup { <<"C02", "recv-in-order">> : x \in
           IF KIND = "ORDERED" /\ a.a = "RecvV1" /\ r = "ok" /\ ~(P.seq = cur.nr /\ pc.nr = cur.nr + 1) THEN {1} ELSE {} }
  \cup { <<"C02", "ack-in-order">> : x \in
           IF KIND = "ORDERED" /\ a.a = "AckV1" /\ r = "ok" /\ ~(P.seq = cur.na /\ pc.na = cur.na + 1) THEN {1} ELSE {} }
  \cup { <<"C02", "gap-rejected">> : x \in
           IF KIND = "ORDERED" /\ a.a = "RecvV1" /\ P.seq > cur.nr /\ ~(r = "err" /\ Unchanged) THEN {1} ELSE {} }
  \cup { <<"C02", "counters-move-only-by-recv-ack">> : x \in
           IF KIND = "ORDERED" /\ ((a.a # "RecvV1" /\ pc.nr # cur.nr) \/ (a.a # "AckV1" /\ pc.na # cur.na)) THEN {1} ELSE {} }
  \* ---- C03 one terminal outcome -------------------------------------------------------
  \cup { <<"C03", "I_OneTerminal">> : x \in IF I_OneTerminal(post) THEN {} ELSE {1} }
  \cup { <<"C03", "I_TerminalClearsCommit">> : x \in IF I_TerminalClearsCommit(post) THEN {} ELSE {1} }
  \cup { <<"C03", "relay-without-commitment-is-noop">> : x \in
           IF (IsAck(a) \/ IsTimeout(a)) /\ k \notin DOMAIN cur.commit /\ ~(Rejected /\ Unchanged) THEN {1} ELSE {} }
  \cup { <<"C03", "terminal-effect">> : x \in
           IF (IsAck(a) \/ IsTimeout(a)) /\ r = "ok"
              /\ ~(/\ k \notin DOMAIN pc.commit
                   /\ Len(new) = 1 /\ new[1].p = P
                   /\ new[1].ev = (IF IsAck(a) THEN "ack" ELSE "timeout")
                   /\ DOMAIN pc.commit = (DOMAIN cur.commit) \ {k})
           THEN {1} ELSE {} }
  \cup { <<"C03", "no-terminal-callback-elsewhere">> : x \in
           IF ~((IsAck(a) \/ IsTimeout(a)) /\ r = "ok") /\ EvCount(new, {"ack", "timeout"}) # 0 THEN {1} ELSE {} }
  \cup { <<"C03", "commitments-removed-only-by-terminal">> : x \in
           IF ~((IsAck(a) \/ IsTimeout(a)) /\ r = "ok") /\ ~((DOMAIN cur.commit) \subseteq (DOMAIN pc.commit)) THEN {1} ELSE {} }
  \* ---- C04 timeout soundness ----------------------------------------------------------
  \cup { <<"C04", "I_NotBoth">> : x \in IF I_NotBoth(post) THEN {} ELSE {1} }
  \cup { <<"C04", "not-early">> : x \in
           IF a.a \in {"TimeoutV1", "TimeoutV2"} /\ r = "ok"
              /\ ~(G_ProofHeightKnown(pre, c, a.ph) /\ G_DestElapsedAtProof(pre, c, P, a.ph)) THEN {1} ELSE {} }
  \cup { <<"C04", "unreceived-at-proof">> : x \in
           IF IsTimeout(a) /\ r = "ok"
              /\ ~(/\ G_ProofHeightKnown(pre, c, a.ph)
                   /\ IF a.a = "TimeoutV2" THEN k \notin ProvAt(pre, c, a.ph).receipt
                      ELSE G_NotReceivedAtProof(pre, c, P, a.ph, a.nsr)) THEN {1} ELSE {} }
  \cup { <<"C04", "on-close-needs-closed-counterparty">> : x \in
           IF a.a = "TimeoutOnClose" /\ r = "ok"
              /\ ~(G_ProofHeightKnown(pre, c, a.ph) /\ ProvAt(pre, c, a.ph).chan = "CLOSED") THEN {1} ELSE {} }
  \* ---- C05 receive guard --------------------------------------------------------------
  \cup { <<"C05", "recv-guard">> : x \in IF IsRecv(a) /\ r = "ok" /\ ~RecvFullGuard THEN {1} ELSE {} }
  \cup { <<"C05", "rejected-recv-changes-nothing">> : x \in IF IsRecv(a) /\ Rejected /\ ~Unchanged THEN {1} ELSE {} }
  \cup { <<"C05", "recv-effect">> : x \in
           IF IsRecv(a) /\ r = "ok" /\ ~(IF KIND = "ORDERED" THEN pc.nr = cur.nr + 1 ELSE pc.receipt = cur.receipt \cup {k})
           THEN {1} ELSE {} }
  \* ---- C06 acknowledgement guard ------------------------------------------------------
  \cup { <<"C06", "ack-guard">> : x \in
           IF IsAck(a) /\ r = "ok"
              /\ ~(/\ G_RouteOk(P, c) /\ G_StoredCommitMatches(pre, c, P)
                   /\ CanVerify(pre, c, a.ph, t) /\ G_AckProven(pre, c, P, a.ack, a.ph)
                   /\ (a.a = "AckV1" => a.canon)) THEN {1} ELSE {} }
  \cup { <<"C06", "ack-argument">> : x \in
           IF IsAck(a) /\ r = "ok" /\ ~(Len(new) = 1 /\ new[1].a = AppAcks(P, a.ack)) THEN {1} ELSE {} }
  \cup { <<"C06", "rejected-ack-changes-nothing">> : x \in IF IsAck(a) /\ Rejected /\ ~Unchanged THEN {1} ELSE {} }
  \* ---- C08 send -----------------------------------------------------------------------
  \cup { <<"C08", "send-guard">> : x \in IF IsSend(a) /\ r = "ok" /\ ~SendGuard THEN {1} ELSE {} }
  \cup { <<"C08", "send-enabled">> : x \in IF IsSend(a) /\ SendGuard /\ r # "ok" THEN {1} ELSE {} }
  \cup { <<"C08", "sequence-and-single-commitment">> : x \in
           IF IsSend(a) /\ r = "ok"
              /\ ~(/\ pc.ns = cur.ns + 1
                   /\ NewKeys = {Key(SentP)}
                   /\ pc.commit[Key(SentP)] = SentP
                   /\ \A q \in DOMAIN cur.commit : q \in DOMAIN pc.commit /\ pc.commit[q] = cur.commit[q])
           THEN {1} ELSE {} }
  \cup { <<"C08", "rejected-send-changes-nothing">> : x \in IF IsSend(a) /\ r # "ok" /\ ~Unchanged THEN {1} ELSE {} }
  \cup { <<"C08", "sequence-moves-only-by-send">> : x \in
           IF ~IsSend(a) /\ (pc.ns # cur.ns \/ NewKeys # {}) THEN {1} ELSE {} }
  \* ---- C09 / C10 receive outcome (mock applications; app state part is in the app drivers) ----
  \cup { <<"C09", "error-ack-kept-with-receipt">> : x \in
           IF a.a = "RecvV1" /\ r = "ok" /\ OutcomeOf(P.data[1]) = "fail"
              /\ ~(/\ k \in DOMAIN pc.ack /\ pc.ack[k] = <<"err">>
                   /\ IF KIND = "ORDERED" THEN pc.nr = cur.nr + 1 ELSE k \in pc.receipt) THEN {1} ELSE {} }
  \cup { <<"C09", "failed-receive-discards-app-state">> : x \in
           IF a.a = "RecvV1" /\ r = "ok" /\ OutcomeOf(P.data[1]) = "fail" /\ ps.app # cs.app THEN {1} ELSE {} }
  \cup { <<"C09", "successful-or-async-receive-keeps-app-state">> : x \in
           IF a.a = "RecvV1" /\ r = "ok" /\ OutcomeOf(P.data[1]) # "fail"
              /\ ps.app # cs.app \cup AppWrites(P, {1}) THEN {1} ELSE {} }
  \cup { <<"C09", "v2-single-payload-outcome-decides-app-state">> : x \in
           IF a.a = "RecvV2" /\ r = "ok" /\ Len(P.data) = 1
              /\ ps.app # (IF OutcomeOf(P.data[1]) = "fail" THEN cs.app ELSE cs.app \cup AppWrites(P, {1})) THEN {1} ELSE {} }
  \cup { <<"C09", "app-state-changes-only-by-receive">> : x \in
           IF ~(IsRecv(a) /\ r = "ok") /\ ps.app # cs.app THEN {1} ELSE {} }
  \cup { <<"C10", "all-or-nothing-app-state">> : x \in
           IF a.a = "RecvV2" /\ r = "ok"
              /\ ps.app # (IF \E i \in DOMAIN P.data : OutcomeOf(P.data[i]) = "fail" THEN cs.app
                           ELSE cs.app \cup AppWrites(P, DOMAIN P.data)) THEN {1} ELSE {} }
  \cup { <<"C10", "sentinel-iff-some-payload-failed">> : x \in
           IF a.a = "RecvV2" /\ r = "ok" /\ k \in DOMAIN pc.ack
              /\ ~((pc.ack[k] = <<"SENTINEL">>) <=> (\E i \in DOMAIN P.data : OutcomeOf(P.data[i]) = "fail")) THEN {1} ELSE {} }
  \cup { <<"C10", "success-ack-one-per-payload-without-sentinel">> : x \in
           IF a.a = "RecvV2" /\ r = "ok" /\ k \in DOMAIN pc.ack /\ pc.ack[k] # <<"SENTINEL">>
              /\ ~(Len(pc.ack[k]) = Len(P.data) /\ \A i \in DOMAIN pc.ack[k] : pc.ack[k][i] # "SENTINEL") THEN {1} ELSE {} }
  \cup { <<"C10", "ack-list-shape">> : x \in
           IF a.a = "RecvV2" /\ r = "ok" /\ E.res = "ok" /\ pc.ack # E.S.ch[c].cur.ack THEN {1} ELSE {} }
  \cup { <<"C10", "async-only-single-payload">> : x \in
           IF a.a = "RecvV2" /\ r = "ok" /\ Len(P.data) > 1 /\ k \in pc.async THEN {1} ELSE {} }
  \* ---- C11 acknowledgements are write-once -------------------------------------------
  \cup { <<"C11", "ack-write-once">> : x \in
           IF \E q \in DOMAIN cur.ack : ~(q \in DOMAIN pc.ack /\ pc.ack[q] = cur.ack[q]) THEN {1} ELSE {} }
  \cup { <<"C11", "one-ack-per-step-for-the-received-packet">> : x \in
           IF ~(\/ (DOMAIN pc.ack) = (DOMAIN cur.ack)
                \/ ((IsRecv(a) \/ IsWriteAck(a)) /\ r = "ok" /\ (DOMAIN pc.ack) = (DOMAIN cur.ack) \cup {k})) THEN {1} ELSE {} }
  \cup { <<"C11", "v2-ack-needs-receipt">> : x \in
           IF { q \in DOMAIN pc.ack : \E n \in 1..64 : q = "v2/" \o ToString(n) } \subseteq pc.receipt THEN {} ELSE {1} }
  \cup { <<"C11", "async-write">> : x \in
           IF IsWriteAck(a) /\ ~(r = E.res /\ pc = E.S.ch[c].cur) THEN {1} ELSE {} }
  \cup { <<"C11", "async-packet-kept-until-acked">> : x \in
           IF ~(/\ (a.a = "RecvV2" /\ r = "ok" /\ E.res = "ok" => pc.async = E.S.ch[c].cur.async)
                /\ (~(a.a \in {"RecvV2", "WriteAckV2"} /\ r = "ok") => pc.async = cur.async)) THEN {1} ELSE {} }
  \* ---- C14 ordered timeouts close the channel -----------------------------------------
  \cup { <<"C14", "timeout-closes-ordered">> : x \in
           IF KIND = "ORDERED" /\ IsTimeout(a) /\ r = "ok" /\ pc.chan # "CLOSED" THEN {1} ELSE {} }
  \cup { <<"C14", "closed-end-carries-no-flow">> : x \in
           IF KIND = "ORDERED" /\ cur.chan = "CLOSED" /\ a.a \in {"SendV1", "RecvV1", "AckV1", "WriteAckV1"}
              /\ ~(Rejected /\ Unchanged) THEN {1} ELSE {} }
  \cup { <<"C14", "closed-is-final">> : x \in IF cur.chan = "CLOSED" /\ pc.chan # "CLOSED" THEN {1} ELSE {} }
  \cup { <<"C14", "in-flight-can-still-time-out">> : x \in
           IF KIND = "ORDERED" /\ cur.chan = "CLOSED" /\ IsTimeout(a) /\ E.res = "ok" /\ r # "ok" THEN {1} ELSE {} }
  \* ---- C12 channel closing (close handshake part) -------------------------------------
  \cup { <<"C12", "close-confirm-needs-proof">> : x \in
           IF a.a = "CloseConfirm" /\ r = "ok"
              /\ ~(G_ChanOpen(pre, c) /\ CanVerify(pre, c, a.ph, t) /\ ProvAt(pre, c, a.ph).chan = "CLOSED") THEN {1} ELSE {} }
  \cup { <<"C12", "chan-changes-only-by-close-or-ordered-timeout">> : x \in
           IF pc.chan # cur.chan
              /\ ~(r = "ok" /\ (a.a \in {"CloseInit", "CloseConfirm"} \/ (KIND = "ORDERED" /\ IsTimeout(a)))) THEN {1} ELSE {} }
  \* ---- C21 client status gates every use ----------------------------------------------
  \cup { <<"C21", "status-gates-use">> : x \in
           IF Consumer /\ r = "ok" /\ ~G_ClientActive(pre, c, t) THEN {1} ELSE {} }
  \cup { <<"C21", "status-exact">> : x \in
           IF \E d \in Chains : st2[d] # Status(post, d, post.now + Skew(d)) THEN {1} ELSE {} }
  \cup { <<"C21", "latest-height-monotone">> : x \in
           IF ps.cons # {} /\ cs.cons # {} /\ MaxOf(ps.cons) < MaxOf(cs.cons) THEN {1} ELSE {} }
  \cup { <<"C21", "client-changes-only-by-client-messages">> : x \in
           IF ~(a.a \in {"Update", "Freeze"} /\ r = "ok") /\ (ps.cons # cs.cons \/ ps.frozen # cs.frozen) THEN {1} ELSE {} }
  \* ---- full conformance (diagnostic) --------------------------------------------------
  \cup { <<"CONF", a.a \o ":" \o E.res \o "/" \o r>> : x \in IF E.res = r /\ E.S = post THEN {} ELSE {1} }

Report(ln, viol) == \A v \in viol : PrintT(<<"MONFAIL", ln.tr, ln.i, v>>)

(***************************************************************************)
(* Trace behaviour                                                         *)
(***************************************************************************)
TraceInit == l = 1 /\ S = InitOf(Trace[1]) /\ obs = ObsOf(Trace[1])

Sanity(ln, pre, post) ==
    LET c == ln.a.c  o == Cp(ln.a.c) IN
       { <<"X", "height-not-incremented">> : x \in IF ln.st.ch[c].h = pre.ch[c].h + 1 THEN {} ELSE {1} }
  \cup { <<"X", "time">> : x \in IF ln.st.now = pre.now + ln.a.dt /\ ln.st.ch[c].bt[ln.st.ch[c].h + 1] = ln.st.now + Skew(c) THEN {} ELSE {1} }
  \cup { <<"X", "other-chain-changed">> : x \in
           IF /\ ln.st.ch[o].h = pre.ch[o].h /\ ProvOf(ln.st.ch[o].cur) = pre.ch[o].cur
              /\ SetOf(ln.st.ch[o].cons) = pre.ch[o].cons /\ ln.st.ch[o].log = pre.ch[o].log
              /\ ln.st.ch[o].dig = obs[o].dig THEN {} ELSE {1} }

TraceNext ==
    /\ l < Len(Trace)
    /\ LET ln == Trace[l + 1] IN
       IF ln.a.a = "Init"
       THEN /\ S' = InitOf(ln) /\ obs' = ObsOf(ln) /\ l' = l + 1
       ELSE LET a  == ln.a
                c  == a.c
                j  == ln.st.ch[c]
                S2 == [Commit(S, c, S.now + a.dt + Skew(c), ProvOf(j.cur), SetOf(j.cons), j.frozen, j.log)
                         EXCEPT !.ch[c].app = AppOf(j.app)]
            IN /\ Report(ln, Sanity(ln, S, S2)
                             \cup Viol(S, a, ln.res, S2, obs[c].dig, j.dig,
                                       [d \in Chains |-> obs[d].status], [d \in Chains |-> ln.st.ch[d].status])
                             \cup { <<"C44", "export-import-is-identity-on-abstract-state">> : x \in
                                      IF a.a = "ExportImport"
                                         /\ ~(/\ ln.res = "ok" /\ S2.ch[c].cur = S.ch[c].cur /\ S2.ch[c].cons = S.ch[c].cons
                                              /\ S2.ch[c].frozen = S.ch[c].frozen /\ S2.ch[c].app = S.ch[c].app
                                              /\ j.status = obs[c].status) THEN {1} ELSE {} }
                             \cup { <<"C44", "export-import-keeps-client-and-path-metadata">> : x \in
                                      IF a.a = "ExportImport" /\ [j.meta EXCEPT !.reexport = ""] # [obs[c].meta EXCEPT !.reexport = ""] THEN {1} ELSE {} }
                             \cup { <<"C44", "re-export-equals-export">> : x \in
                                      IF a.a = "ExportImport" /\ ln.res = "ok" /\ j.meta.reexport # "same" THEN {1} ELSE {} }
                             \cup { <<"C09", "bank-operations-follow-app-state">> : x \in
                                      IF j.coins = Cardinality({ y \in AppOf(j.app) : y[3] % 2 = 0 }) THEN {} ELSE {1} })
               /\ S' = S2
               /\ obs' = ObsOf(ln)
               /\ l' = l + 1
    /\ (l + 1 = Len(Trace) => PrintT(<<"CONSUMED", l + 1>>))

TraceSpec == TraceInit /\ [][TraceNext]_<<l, S, obs>>
=============================================================================
