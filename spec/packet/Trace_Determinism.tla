-------------------------- MODULE Trace_Determinism --------------------------
(***************************************************************************)
(* C45: identical histories produce identical state.  In IBCPacket every   *)
(* action assigns the next state as a function of the current state and    *)
(* the action's arguments, so "same history => same abstract state" holds  *)
(* for the specification by construction (Step is an operator, not a       *)
(* relation).  What remains is whether the IMPLEMENTATION adds             *)
(* nondeterminism below the abstraction (map iteration order, goroutines): *)
(* the same TLC-generated histories are executed in two independently      *)
(* started OS processes (different map seeds, GOMAXPROCS 16 vs 1) and this *)
(* module compares the two recordings line by line: result class, the full *)
(* projected state, the application hash of both chains after every block, *)
(* the digest of the exported IBC genesis and the digest of the list        *)
(* queries in the order the node returns them.                             *)
(***************************************************************************)
EXTENDS Json, Sequences, Naturals, TLC

CONSTANTS FileA, FileB

A == ndJsonDeserialize(FileA)
B == ndJsonDeserialize(FileB)

VARIABLE l

Init == l = 0

Differs(x, y) ==
       { <<"X", "recordings-not-aligned">> : z \in IF x.tr = y.tr /\ x.i = y.i /\ x.a = y.a THEN {} ELSE {1} }
  \cup { <<"C45", "result-class-differs-between-processes">> : z \in IF x.res = y.res THEN {} ELSE {1} }
  \cup { <<"C45", "projected-state-differs-between-processes">> : z \in IF x.st = y.st THEN {} ELSE {1} }
  \cup { <<"C45", "app-hash-differs-between-processes">> : z \in IF x.det.apphash = y.det.apphash THEN {} ELSE {1} }
  \cup { <<"C45", "exported-genesis-differs-between-processes">> : z \in IF x.det.genesis = y.det.genesis THEN {} ELSE {1} }
  \cup { <<"C45", "query-order-differs-between-processes">> : z \in IF x.det.queries = y.det.queries THEN {} ELSE {1} }

Next == /\ l < Len(A) /\ l < Len(B)
        /\ l' = l + 1
        /\ \A v \in Differs(A[l + 1], B[l + 1]) : PrintT(<<"MONFAIL", A[l + 1].tr, A[l + 1].i, v>>)
        /\ (l + 1 = Len(A) => PrintT(<<"CONSUMED", l + 1>>))

TraceSpec == Init /\ [][Next]_l
=============================================================================
